"""Minimal Rust lexer + item locator used by the extractor (DESIGN §2.1).

Tokens are (kind, text). Kinds: ws, lc (line comment), bc (block comment), rstr, str, chr, life,
num, id, p (punctuation), x (text injected by a rewrite rule / ghost injection).
"""
import re

TOK = re.compile(r'''
  (?P<ws>\s+)
 |(?P<lc>//[^\n]*)
 |(?P<bc>/\*.*?\*/)
 |(?P<rstr>b?r(?P<h>\#*)".*?"(?P=h))
 |(?P<str>b?"(?:\\.|[^"\\])*")
 |(?P<chr>b?'(?:\\(?:x[0-9a-fA-F]{2}|u\{[0-9a-fA-F]+\}|.)|[^'\\])')
 |(?P<life>'[A-Za-z_][A-Za-z0-9_]*)
 |(?P<num>[0-9][0-9a-zA-Z_]*(?:\.[0-9][0-9a-zA-Z_]*)?)
 |(?P<id>[A-Za-z_][A-Za-z0-9_]*)
 |(?P<p>::|->|=>|==|!=|<=|>=|&&|\|\||\.\.=|\.\.|<<=|>>=|[-+*/%^&|]=|[{}()\[\];,.:<>=!&|+\-*/%^?#@~$])
''', re.X | re.S)

OPEN = {'{': '}', '(': ')', '[': ']'}
CLOSE = set(OPEN.values())
TRIVIA = ('ws', 'lc', 'bc')


class ExtractError(Exception):
    """anchor lost / unsupported construct: the unit is undecided (exit 2), never an alarm"""


def lex(src):
    out = []
    i = 0
    n = len(src)
    while i < n:
        m = TOK.match(src, i)
        if not m:
            raise ExtractError(f"lex error at byte {i}: {src[i:i+30]!r}")
        kind = m.lastgroup
        if kind == 'h':
            kind = 'rstr'
        out.append((kind, m.group(0)))
        i = m.end()
    return out


def text(toks):
    return ''.join(t for _, t in toks)


def sig_tokens(toks):
    """texts of significant tokens (no whitespace, no comments)"""
    return [t for k, t in toks if k not in TRIVIA]


def match_close(toks, i):
    """toks[i] is an opener; index of the matching closer"""
    depth = 0
    for j in range(i, len(toks)):
        k, t = toks[j]
        if k == 'p':
            if t in OPEN:
                depth += 1
            elif t in CLOSE:
                depth -= 1
                if depth == 0:
                    return j
    raise ExtractError("unbalanced delimiters")


def next_sig(toks, i):
    """index of next significant token at or after i (or len)"""
    while i < len(toks) and toks[i][0] in TRIVIA:
        i += 1
    return i


def prev_sig(toks, i):
    while i >= 0 and toks[i][0] in TRIVIA:
        i -= 1
    return i


def line_of(toks, idx):
    return 1 + sum(t.count('\n') for _, t in toks[:idx])


def find_blocks(toks, start=0, end=None, keywords=('impl', 'trait', 'mod')):
    """top-level (relative to [start,end)) `impl …{}` / `trait …{}` / `mod x {}` blocks:
    yields (header_text, body_open_idx, body_close_idx). header_text = significant tokens joined by ' '"""
    if end is None:
        end = len(toks)
    res = []
    depth = 0
    j = start
    while j < end:
        k, t = toks[j]
        if k == 'p' and t in OPEN:
            depth += 1
        elif k == 'p' and t in CLOSE:
            depth -= 1
        elif depth == 0 and k == 'id' and t in keywords:
            # header up to '{' (or ';' for `mod x;`)
            m = j
            bd = 0
            while m < end:
                kk, tt = toks[m]
                if kk == 'p' and tt in '([':
                    bd += 1
                elif kk == 'p' and tt in ')]':
                    bd -= 1
                elif kk == 'p' and tt == '{' and bd == 0:
                    break
                elif kk == 'p' and tt == ';' and bd == 0:
                    m = None
                    break
                m += 1
            if m is None or m >= end:
                j += 1
                continue
            hdr = ' '.join(sig_tokens(toks[j:m]))
            close = match_close(toks, m)
            res.append((hdr, m, close))
            j = close + 1
            continue
        j += 1
    return res


def _walk_back_quals(toks, j, lo):
    """toks[j] is `fn`/`struct`/`enum`/`const`; walk back over pub / pub(crate) / async / const / unsafe"""
    b = j
    while True:
        p = prev_sig(toks, b - 1)
        if p < lo:
            break
        if toks[p][0] == 'id' and toks[p][1] in ('pub', 'async', 'const', 'unsafe', 'default'):
            b = p
            continue
        if toks[p][1] == ')':
            q = p
            while q > lo and toks[q][1] != '(':
                q -= 1
            r = prev_sig(toks, q - 1)
            if r >= lo and toks[r][1] == 'pub':
                b = r
                continue
        break
    return b


def _attrs_before(toks, b, lo):
    """index of the first attribute/doc comment directly preceding item start b (for span reporting only)"""
    a = b
    while True:
        p = prev_sig(toks, a - 1)
        if p >= lo and toks[p][1] == ']':
            # find matching '[' and preceding '#'
            d = 0
            q = p
            while q >= lo:
                if toks[q][1] == ']':
                    d += 1
                elif toks[q][1] == '[':
                    d -= 1
                    if d == 0:
                        break
                q -= 1
            h = prev_sig(toks, q - 1)
            if h >= lo and toks[h][1] == '!':
                h = prev_sig(toks, h - 1)
            if h >= lo and toks[h][1] == '#':
                a = h
                continue
        break
    return a


def find_fn(toks, start, end, name, depth0):
    """`fn name` whose enclosing delimiter depth (relative to start) is depth0.
    returns (item_start_incl_quals, fn_kw_idx, body_open, body_close) or None; body_open None for `fn x();`"""
    depth = 0
    j = start
    hits = []
    while j < end:
        k, t = toks[j]
        if k == 'p' and t in OPEN:
            depth += 1
        elif k == 'p' and t in CLOSE:
            depth -= 1
        elif (depth0 is None or depth == depth0) and k == 'id' and t == 'fn':
            m = next_sig(toks, j + 1)
            if toks[m][1] == name:
                b = _walk_back_quals(toks, j, start)
                d = 0
                o = m
                body_open = None
                while o < end:
                    kk, tt = toks[o]
                    if kk == 'p' and tt in '([':
                        d += 1
                    elif kk == 'p' and tt in ')]':
                        d -= 1
                    elif kk == 'p' and tt == '{' and d == 0:
                        body_open = o
                        break
                    elif kk == 'p' and tt == ';' and d == 0:
                        break
                    o += 1
                if body_open is None:
                    hits.append((b, j, None, o))
                else:
                    hits.append((b, j, body_open, match_close(toks, body_open)))
        j += 1
    return hits


def find_typedef(toks, start, end, kw, name, depth0):
    """`struct name …` / `enum name …` / `const NAME …;` / `type X = …;` at depth0: (item_start, item_end_inclusive)"""
    depth = 0
    j = start
    hits = []
    while j < end:
        k, t = toks[j]
        if k == 'p' and t in OPEN:
            depth += 1
        elif k == 'p' and t in CLOSE:
            depth -= 1
        elif depth == depth0 and k == 'id' and t == kw:
            m = next_sig(toks, j + 1)
            if m < end and toks[m][1] == name:
                b = _walk_back_quals(toks, j, start) if kw != 'const' else _walk_back_quals(toks, j, start)
                # item ends at matching '}' of first '{' at depth 0, or at ';' at depth 0, whichever first
                d = 0
                o = m
                e = None
                while o < end:
                    kk, tt = toks[o]
                    if kk == 'p' and tt == '{' and d == 0 and kw in ('struct', 'enum'):
                        e = match_close(toks, o)
                        break
                    if kk == 'p' and tt in OPEN:
                        d += 1
                    elif kk == 'p' and tt in CLOSE:
                        d -= 1
                    elif kk == 'p' and tt == ';' and d == 0:
                        e = o
                        break
                    o += 1
                if e is not None:
                    hits.append((b, e))
        j += 1
    return hits


def split_top_commas(toks):
    parts = [[]]
    depth = 0
    for k, t in toks:
        if k == 'p' and t in OPEN:
            depth += 1
        elif k == 'p' and t in CLOSE:
            depth -= 1
        if k == 'p' and t == ',' and depth == 0:
            parts.append([])
            continue
        parts[-1].append((k, t))
    return parts


def find_token_seq(toks, needle_sig, lo=0, hi=None):
    """all positions (start_idx, end_idx_inclusive) in toks where the significant-token texts equal needle_sig"""
    if hi is None:
        hi = len(toks)
    idxs = [i for i in range(lo, hi) if toks[i][0] not in TRIVIA]
    texts = [toks[i][1] for i in idxs]
    n = len(needle_sig)
    res = []
    for s in range(0, len(texts) - n + 1):
        if texts[s:s + n] == needle_sig:
            res.append((idxs[s], idxs[s + n - 1]))
    return res
