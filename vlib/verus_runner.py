"""Build a Verus unit from its template + /repo and run verus on it; classify the outcome."""
import json
import os
import re
import subprocess
import time
from .extract import build, ExtractError

VERIF = os.path.dirname(os.path.dirname(os.path.abspath(__file__)))
WORK = os.environ.get('VERIF_WORK') or os.path.join(VERIF, 'work')

CANARY = '''
// vacuity canary: this obligation MUST fail (checked by the driver on every run)
verus! { pub fn verif_canary_must_fail(x: u32) -> (r: u32) ensures r == x + 1 { x } }
'''

UNDECIDED_PAT = re.compile(r'rlimit|Resource limit|timed out|out of memory', re.I)
SCAN_PAT = re.compile(r'\b(assume\s*\(|admit\s*\(|external_body|assume_specification|external_fn_specification|'
                      r'verifier::external|uninterp\b|axiom\b)')


class VerusResult:
    def __init__(self):
        self.unit = None
        self.status = 'ok'          # ok | failed | undecided
        self.reason = ''
        self.functions = []         # {name, mode, success, time_us}
        self.verified = 0
        self.errors = 0
        self.failures = []          # {obligation, function, kind, message, rendered, item(linemap entry or None), line}
        self.audit = None
        self.linemap = []
        self.wall_s = 0.0
        self.smt_ms = 0
        self.path = None
        self.trusted = []
        self.cmd = ''
        self.expect = {}
        self.canary_ok = False


def scan_trusted(text):
    res = []
    for i, ln in enumerate(text.split('\n'), 1):
        if ln.strip().startswith('//'):
            continue
        m = SCAN_PAT.search(ln)
        if m:
            res.append(f"{m.group(1).strip('( ')}: {ln.strip()[:140]}")
    return res


def run_verus_unit(unit, threads=8, rlimit=None):
    r = VerusResult()
    r.unit = unit
    t0 = time.time()
    tpl = os.path.join(VERIF, 'units', unit, 'verus.rs')
    try:
        built = build(tpl, verus=True)
    except ExtractError as e:
        r.status = 'undecided'
        r.reason = f'extraction: {e}'
        r.wall_s = time.time() - t0
        return r
    r.audit = built.audit
    r.linemap = built.linemap
    r.expect = built.expect
    wdir = os.path.join(WORK, unit)
    os.makedirs(wdir, exist_ok=True)
    path = os.path.join(wdir, 'verus.rs')
    src = built.text + CANARY
    with open(path, 'w') as f:
        f.write(src)
    r.path = path
    r.trusted = scan_trusted(built.text)
    cmd = ['verus', path, '--output-json', '--time', '--multiple-errors', '50', '--num-threads', str(threads)]
    if rlimit:
        cmd += ['--rlimit', str(rlimit)]
    cmd += ['--', '--error-format=json']
    r.cmd = ' '.join(cmd)
    env = dict(os.environ)
    try:
        p = subprocess.run(cmd, capture_output=True, text=True, cwd=wdir, env=env, timeout=1800)
    except subprocess.TimeoutExpired:
        r.status = 'undecided'
        r.reason = 'verus timeout (1800 s)'
        r.wall_s = time.time() - t0
        return r
    r.wall_s = time.time() - t0
    open(os.path.join(wdir, 'verus.stdout.json'), 'w').write(p.stdout)
    open(os.path.join(wdir, 'verus.stderr.txt'), 'w').write(p.stderr)
    try:
        out = json.loads(p.stdout)
    except Exception:
        out = None
    diags = []
    for ln in p.stderr.split('\n'):
        ln = ln.strip()
        if ln.startswith('{'):
            try:
                diags.append(json.loads(ln))
            except Exception:
                pass
    errs = [d for d in diags if d.get('level') == 'error' and not d.get('message', '').startswith('aborting due to')]
    if out is None or 'verification-results' not in out:
        r.status = 'undecided'
        msg = '; '.join(d.get('message', '') for d in errs[:3]) or p.stderr[-400:]
        r.reason = f'verus produced no verification results (front-end error?): {msg}'
        r.failures = [dict(kind='frontend', message=d.get('message', ''), rendered=d.get('rendered', '')) for d in errs[:10]]
        return r
    vr = out['verification-results']
    if vr.get('encountered-vir-error'):
        r.status = 'undecided'
        r.reason = 'verus front-end (VIR) error: ' + '; '.join(d.get('message', '') for d in errs[:3])
        r.failures = [dict(kind='frontend', message=d.get('message', ''), rendered=d.get('rendered', '')) for d in errs[:10]]
        return r
    r.verified = vr.get('verified', 0)
    r.errors = vr.get('errors', 0)
    try:
        smt = out['times-ms']['smt']
        r.smt_ms = smt.get('smt-run', 0) + smt.get('smt-init', 0)
        for mod in smt.get('smt-run-module-times', []):
            for fb in mod.get('function-breakdown', []):
                r.functions.append(dict(name=fb['function'], mode=fb.get('mode:', fb.get('mode', '')),
                                        success=fb['success'], time_us=fb.get('time-micros', 0)))
    except Exception:
        pass
    # classify diagnostics
    undec = False
    for d in errs:
        msg = d.get('message', '')
        spans = d.get('spans', [])
        # spans inside vstd (e.g. the requires clause of Result::unwrap) carry line numbers of another file
        own = [s for s in spans if os.path.basename(s.get('file_name', '')) == os.path.basename(r.path or '')]
        if own:
            spans = own
        prim = [s for s in spans if s.get('is_primary')] or spans
        lines = [s['line_start'] for s in spans]
        item = None
        for s in spans:
            for it in built.linemap:
                if it['start'] <= s['line_start'] <= it['end']:
                    item = it
                    break
            if item:
                break
        # attribute the failure to the function whose body contains the failing site: for a precondition
        # failure that is the call site (secondary span), not the callee's requires clause (primary span)
        site = None
        for sp in spans:
            lab = (sp.get('label') or '').lower()
            if 'call' in lab or 'at this' in lab or 'exit' in lab or 'end of the function' in lab or 'loop' in lab:
                site = sp['line_start']
        if site is None and 'precondition' in msg.lower():
            sec = [sp['line_start'] for sp in spans if not sp.get('is_primary')]
            site = sec[0] if sec else None
        if site is None:
            site = prim[0]['line_start'] if prim else (min(lines) if lines else None)
        fname = enclosing_fn(src, site) if site else '?'
        item = None
        for it in built.linemap:
            if site and it['start'] <= site <= it['end']:
                item = it
                break
        if d.get('code') is not None:
            # rustc front-end error (type/resolve): the unit is not verifiable as emitted -> undecided
            undec = True
            r.reason = f'front-end error in {fname}: {msg}'
            r.failures.append(dict(function=fname, kind='frontend', message=msg, clause='', rendered=d.get('rendered', ''), item=item, line=None))
            continue
        if UNDECIDED_PAT.search(msg):
            undec = True
            r.reason = f'{fname}: {msg}'
            continue
        kind = classify(msg)
        clause = ''
        if prim:
            clause = ' '.join((t.get('text', '') or '').strip() for t in prim[0].get('text', []))[:200]
        r.failures.append(dict(function=fname, kind=kind, message=msg, clause=clause,
                               rendered=d.get('rendered', ''), item=item,
                               degraded=bool(item and item.get('degraded')),
                               line=prim[0]['line_start'] if prim else None))
    # the canary must be among the failures
    can = [f for f in r.failures if f['function'] == 'verif_canary_must_fail']
    r.canary_ok = len(can) == 1 and can[0]['kind'] == 'postcondition'
    r.failures = [f for f in r.failures if f['function'] != 'verif_canary_must_fail']
    r.errors -= len(can)
    # number obligations per function/kind
    seen = {}
    for f in r.failures:
        key = (f['function'], f['kind'])
        seen[key] = seen.get(key, 0) + 1
        f['obligation'] = f"{unit}::{f['function']}::{f['kind']}#{seen[key]}"
    if undec:
        r.status = 'undecided'
    elif not r.canary_ok:
        r.status = 'undecided'
        r.reason = 'vacuity canary did not fail as required'
    elif r.failures:
        r.status = 'failed'
    else:
        exp = r.expect.get('verified')
        if exp is not None and r.verified != exp:
            r.status = 'undecided'
            r.reason = f'verified {r.verified} functions, unit manifest expects {exp}'
        elif r.verified == 0:
            r.status = 'undecided'
            r.reason = 'zero obligations'
    return r


def classify(msg):
    m = msg.lower()
    if 'postcondition' in m or 'post-condition' in m:
        return 'postcondition'
    if 'precondition' in m:
        return 'precondition'
    if 'overflow' in m or 'underflow' in m:
        return 'arith-overflow'
    if 'division by zero' in m or 'divide by zero' in m:
        return 'div-by-zero'
    if 'invariant' in m:
        return 'loop-invariant'
    if 'decreases' in m or 'termination' in m:
        return 'termination'
    if 'assertion' in m or 'assert' in m:
        return 'assertion'
    if 'index' in m or 'bounds' in m:
        return 'bounds'
    return 'other'


FN_RE = re.compile(r'\bfn\s+([A-Za-z_][A-Za-z0-9_]*)')


def enclosing_fn(src, line):
    """name of the last `fn` introduced at or before `line` (1-based)"""
    lines = src.split('\n')
    for i in range(min(line, len(lines)) - 1, -1, -1):
        # skip spec clause lines that mention `fn` only inside closures etc.
        m = FN_RE.search(lines[i])
        if m and not lines[i].strip().startswith('//'):
            return m.group(1)
    return '?'
