"""Mechanical extraction of items from /repo into a verifier input file (DESIGN §2.1).

A unit is a template file (units/<unit>/verus.rs or units/<unit>/kani/src/lib.rs) in which
`//@extract … //@end` blocks are replaced by the text of the named item, copied from the
repository's current working tree and passed through the fixed rewrite rules R1–R9. Everything
outside those blocks (spec functions, lemmas, stand-ins, harnesses) is copied as is.
"""
import os
import re
import hashlib
from .rlex import (lex, text, sig_tokens, match_close, next_sig, prev_sig, find_blocks, find_fn, find_typedef,
                   split_top_commas, find_token_seq, line_of, ExtractError, TRIVIA, OPEN, CLOSE)

REPO = os.environ.get('VERIF_REPO', '/repo')

LOG_MACROS = {'trace', 'debug', 'info', 'warn', 'error'}
PANIC_MACROS = {'panic', 'unreachable', 'unimplemented', 'todo'}


class Audit:
    def __init__(self):
        self.rules = []  # (rule, what, dropped_text, item)
        self.items = []  # dict per extracted item
        self.lost_hints = []  # (item, anchor, n_matches)

    def add(self, rule, what, dropped, item):
        self.rules.append({'rule': rule, 'what': what, 'dropped': dropped[:160], 'item': item})

    def counts(self):
        c = {}
        for r in self.rules:
            c[r['rule']] = c.get(r['rule'], 0) + 1
        return c


# --------------------------------------------------------------------------------------------
# locating items

_file_cache = {}


def load_tokens(relpath):
    p = os.path.join(REPO, relpath)
    try:
        st = os.stat(p)
    except OSError:
        raise ExtractError(f"ANCHOR-LOST file {relpath} missing")
    key = (p, st.st_mtime_ns, st.st_size)
    if key not in _file_cache:
        _file_cache[key] = lex(open(p, encoding='utf-8').read())
    return _file_cache[key]


def norm_hdr(s):
    return ' '.join(sig_tokens(lex(s)))


def resolve_scope(toks, scope, relpath):
    """returns (start, end, depth0) token range for the scope ("top" or "impl X" or "a > b")"""
    start, end, depth0 = 0, len(toks), 0
    if scope in ('top', ''):
        return start, end, depth0
    for part in scope.split(' > '):
        mfn = re.match(r'^fn\s+([A-Za-z_]\w*)$', part.strip())
        if mfn:
            # the body of a function (for items declared inside it)
            hits = find_fn(toks, start, end, mfn.group(1), 0)
            if len(hits) != 1 or hits[0][2] is None:
                raise ExtractError(f"ANCHOR-LOST scope {part!r} in {relpath}: {len(hits)} matches")
            start, end = hits[0][2] + 1, hits[0][3]
            continue
        want = norm_hdr(part)
        blocks = [(h, a, b) for h, a, b in find_blocks(toks, start, end) if _hdr_match(h, want)]
        if len(blocks) != 1:
            raise ExtractError(f"ANCHOR-LOST scope {part!r} in {relpath}: {len(blocks)} matches")
        _, a, b = blocks[0]
        start, end = a + 1, b
    return start, end, 0


def _hdr_match(h, want):
    # headers compare on significant tokens; generics/where clauses must match exactly too
    return h == want


# --------------------------------------------------------------------------------------------
# rules


def strip_comments_attrs(toks, audit, item):
    """R1: comments, doc comments and attributes removed"""
    out = []
    i = 0
    n = len(toks)
    ncom = 0
    while i < n:
        k, t = toks[i]
        if k in ('lc', 'bc'):
            ncom += 1
            i += 1
            continue
        if k == 'p' and t == '#':
            j = next_sig(toks, i + 1)
            if j < n and toks[j][1] == '!':
                j = next_sig(toks, j + 1)
            if j < n and toks[j][1] == '[':
                c = match_close(toks, j)
                audit.add('R1', 'attribute', text(toks[i:c + 1]), item)
                i = c + 1
                continue
        out.append((k, t))
        i += 1
    if ncom:
        audit.add('R1', f'{ncom} comments', '', item)
    return out


def _drop_path_prefix(out):
    while len(out) >= 2 and out[-1][1] == '::' and out[-2][0] == 'id':
        out.pop()
        out.pop()


def _stmt_position(out):
    j = len(out) - 1
    while j >= 0 and out[j][0] in TRIVIA:
        j -= 1
    return j < 0 or out[j][1] in ('{', ';', '}')


def _swallow_semicolon(toks, close):
    j = next_sig(toks, close + 1)
    if j < len(toks) and toks[j][1] == ';':
        return j
    return close


def rewrite_macros(toks, audit, item, extra_drop=()):
    """R2 (errors), R3 (panics), R4 (logging / text)"""
    out = []
    i = 0
    n = len(toks)
    while i < n:
        k, t = toks[i]
        if k == 'id' and i + 2 < n and toks[i + 1][1] == '!' and toks[i + 2][1] in ('(', '[', '{'):
            close = match_close(toks, i + 2)
            inner = toks[i + 3:close]
            name = t
            if name == 'ensure':
                _drop_path_prefix(out)
                parts = split_top_commas(inner)
                cond = text(parts[0]).strip()
                audit.add('R2', 'ensure!', text(split_rest(parts)), item)
                out.append(('x', f'if !({cond}) {{ return Err(verr()); }}'))
                i = _swallow_semicolon(toks, close) + 1
                continue
            if name == 'bail':
                _drop_path_prefix(out)
                audit.add('R2', 'bail!', text(inner), item)
                out.append(('x', 'return Err(verr())'))
                i = close + 1
                continue
            if name == 'anyhow':
                _drop_path_prefix(out)
                audit.add('R2', 'anyhow!', text(inner), item)
                out.append(('x', 'verr()'))
                i = close + 1
                continue
            if name in PANIC_MACROS:
                _drop_path_prefix(out)
                audit.add('R3', name + '!', text(inner), item)
                if _stmt_position(out) and toks[next_sig(toks, close + 1)][1] == ';':
                    out.append(('x', 'vpanic::<()>()'))
                else:
                    out.append(('x', 'vpanic()'))
                i = close + 1
                continue
            if name in ('assert', 'debug_assert'):
                parts = split_top_commas(inner)
                audit.add('R3', name + '!', text(split_rest(parts)), item)
                out.append(('x', f'vassert({text(parts[0]).strip()})'))
                i = close + 1
                continue
            if name in ('assert_eq', 'debug_assert_eq', 'assert_ne', 'debug_assert_ne'):
                parts = split_top_commas(inner)
                op = '==' if name.endswith('_eq') else '!='
                audit.add('R3', name + '!', text(split_rest(parts[1:])), item)
                out.append(('x', f'vassert(({text(parts[0]).strip()}) {op} ({text(parts[1]).strip()}))'))
                i = close + 1
                continue
            if name in LOG_MACROS or name in extra_drop:
                _drop_path_prefix(out)
                audit.add('R4', name + '!', text(inner), item)
                i = _swallow_semicolon(toks, close) + 1
                continue
            if name == 'format':
                audit.add('R4', 'format!', text(inner), item)
                out.append(('x', 'vformat()'))
                i = close + 1
                continue
        # .context(..) / .with_context(..) removal, .expect(..) -> .unwrap()
        if k == 'p' and t == '.' and i + 2 < n:
            j = next_sig(toks, i + 1)
            if j < n and toks[j][0] == 'id' and toks[j][1] in ('context', 'with_context', 'expect'):
                o = next_sig(toks, j + 1)
                if o < n and toks[o][1] == '(':
                    c = match_close(toks, o)
                    if toks[j][1] == 'expect':
                        audit.add('R3', '.expect', text(toks[o:c + 1]), item)
                        out.append(('x', '.unwrap()'))
                    else:
                        audit.add('R2', '.' + toks[j][1], text(toks[o:c + 1]), item)
                        # drop trailing whitespace/newline before the removed call
                        while out and out[-1][0] == 'ws':
                            out.pop()
                    i = c + 1
                    continue
        out.append((k, t))
        i += 1
    return out


def split_rest(parts):
    r = []
    for p in parts[1:]:
        r.extend(p)
        r.append(('p', ','))
    return r


def rewrite_result(toks, audit, item):
    """R2: `Result<T>` / `anyhow::Result<T>` (one type argument) -> `Result<T, VErr>`"""
    out = []
    i = 0
    n = len(toks)
    while i < n:
        k, t = toks[i]
        if k == 'id' and t == 'Result' and i + 1 < n and toks[next_sig(toks, i + 1)][1] == '<':
            a = next_sig(toks, i + 1)
            d = 0
            pd = 0
            j = a
            commas = 0
            while j < n:
                tt = toks[j][1]
                if toks[j][0] == 'p':
                    if tt in '([':
                        pd += 1
                    elif tt in ')]':
                        pd -= 1
                    elif tt == '<':
                        d += 1
                    elif tt == '>':
                        d -= 1
                    elif tt == ',' and d == 1 and pd == 0:
                        commas += 1
                if d <= 0:
                    break
                j += 1
            if commas == 0:
                _drop_path_prefix(out)
                out.extend(toks[i:j])
                out.append(('x', ', VErr'))
                out.append(toks[j])
                audit.add('R2', 'Result<T>', '', item)
                i = j + 1
                continue
        out.append((k, t))
        i += 1
    return out


def erase_async(toks, audit, item):
    """R5: async fn -> fn, .await removed, Box::pin(async move { B }) -> { B }"""
    out = []
    i = 0
    n = len(toks)
    while i < n:
        k, t = toks[i]
        if k == 'id' and t == 'async':
            j = next_sig(toks, i + 1)
            if j < n and toks[j][1] == 'fn':
                audit.add('R5', 'async fn', '', item)
                i = j
                continue
            # `async move { B }` / `async { B }` as an expression (e.g. the body of a closure): the block itself
            j2 = j
            if j2 < n and toks[j2][1] == 'move':
                j2 = next_sig(toks, j2 + 1)
            if j2 < n and toks[j2][1] == '{' and out and prev_sig(out, len(out) - 1) >= 0 and out[prev_sig(out, len(out) - 1)][1] != '(':
                audit.add('R5', 'async block', '', item)
                i = j2
                continue
        if k == 'p' and t == '.':
            j = next_sig(toks, i + 1)
            if j < n and toks[j][1] == 'await':
                audit.add('R5', '.await', '', item)
                while out and out[-1][0] == 'ws':
                    out.pop()
                i = j + 1
                continue
        if k == 'id' and t == 'Box':
            seq = [toks[x][1] for x in _next_n_sig(toks, i, 6)]
            if seq[:4] == ['Box', '::', 'pin', '('] and seq[4] == 'async':
                idxs = _next_n_sig(toks, i, 7)
                p_open = idxs[3]
                p_close = match_close(toks, p_open)
                b = idxs[5] if toks[idxs[5]][1] == '{' else idxs[6]
                if toks[b][1] == '{' and match_close(toks, b) == prev_sig(toks, p_close - 1):
                    audit.add('R5', 'Box::pin(async move {..})', '', item)
                    inner = erase_async(toks[b:match_close(toks, b) + 1], audit, item)
                    out.extend(inner)
                    i = p_close + 1
                    continue
        out.append((k, t))
        i += 1
    return out


def desugar_for_each_sync(toks, audit, item):
    """R11: `<recv>.for_each_sync(|PAT| BLOCK)` -> sequential loop over the stream's items:
    `let mut vfe_iter = (<recv>).into_item_iter(); loop { match vfe_iter.next() { Some(vfe_item) => { let PAT = vfe_item; BLOCK } None => { break; } } }`
    (as statements of the enclosing block: the call must be an expression statement)
    (tile_stream.rs: for_each_sync awaits the items one after the other and calls the callback on each)"""
    hits = find_token_seq(toks, ['.', 'for_each_sync', '('])
    if not hits:
        raise ExtractError(f"ANCHOR-LOST {item}: no for_each_sync call")
    if len(hits) != 1:
        raise ExtractError(f"{item}: {len(hits)} for_each_sync calls (one supported)")
    a, e = hits[0]
    pclose = match_close(toks, e)
    j = next_sig(toks, e + 1)
    if toks[j][1] == 'move':
        j = next_sig(toks, j + 1)
    if toks[j][1] != '|':
        raise ExtractError(f"unsupported construct {item}: for_each_sync argument is not a closure literal")
    k2 = j + 1
    d = 0
    while k2 < pclose:
        kk, tt = toks[k2]
        if kk == 'p' and tt in OPEN:
            d += 1
        elif kk == 'p' and tt in CLOSE:
            d -= 1
        elif kk == 'p' and tt == '|' and d == 0:
            break
        k2 += 1
    pat = text(toks[j + 1:k2]).strip()
    bo = next_sig(toks, k2 + 1)
    if toks[bo][1] != '{' or match_close(toks, bo) != prev_sig(toks, pclose - 1):
        raise ExtractError(f"unsupported construct {item}: for_each_sync callback is not `|pat| {{ block }}`")
    btoks = toks[bo:match_close(toks, bo) + 1]
    # a bare `return;` in the callback ends this call of the callback, i.e. goes on with the next item: `continue;`
    # (a `return <expr>` or a nested closure/fn inside the callback is outside the rule)
    bsig = [t for k, t in btoks if k not in TRIVIA]
    if any(bsig[x] == 'return' and bsig[x + 1] != ';' for x in range(len(bsig) - 1)) or 'fn' in bsig or '|' in bsig[1:]:
        raise ExtractError(f"unsupported construct {item}: for_each_sync callback with `return <expr>` or a nested closure")
    nret = sum(1 for t in bsig if t == 'return')
    if nret:
        btoks = [(k, 'continue' if (k == 'id' and t == 'return') else t) for k, t in btoks]
        audit.add('R11', f'{nret} `return;` in the callback -> `continue;`', '', item)
    block = text(btoks)
    # receiver: back to the start of the expression statement
    r0 = a - 1
    d = 0
    while r0 >= 0:
        kk, tt = toks[r0]
        if kk == 'p' and tt == '}' and d == 0:
            break       # the end of a preceding block statement
        if kk == 'p' and tt in CLOSE:
            d += 1
        elif kk == 'p' and tt in OPEN:
            if d == 0:
                break
            d -= 1
        elif kk == 'p' and tt == ';' and d == 0:
            break
        r0 -= 1
    recv = text(toks[r0 + 1:a]).strip()
    repl = ('let mut vfe_iter = (' + recv + ').into_item_iter();\n\t\t\t\tloop {\n\t\t\t\t\tmatch vfe_iter.next() { Some(vfe_item) => { let ' + pat
            + ' = vfe_item; ' + block + ' } None => { break; } }\n\t\t\t\t}')
    audit.add('R11', 'for_each_sync(callback) -> sequential loop over the items of the stream', '', item)
    return toks[:r0 + 1] + [('ws', '\n\t\t\t')] + lex(repl) + toks[pclose + 1:]


def abstract_callback(toks, method, repl, audit, item):
    """R12: `<recv>.<method>(|args| BLOCK)` -> `<recv>.<method>(<repl>)`: the closure literal passed to a collaborator that is a stand-in
    anyway becomes an opaque value (what the callback computes is then outside the contract; the call itself stays)"""
    hits = find_token_seq(toks, ['.', method, '('])
    if len(hits) != 1:
        raise ExtractError(f"ANCHOR-LOST {item}: {len(hits)} calls of {method} (one expected)")
    a, e = hits[0]
    pclose = match_close(toks, e)
    j = next_sig(toks, e + 1)
    if toks[j][1] == 'move':
        j = next_sig(toks, j + 1)
    if toks[j][1] not in ('|', '||'):
        raise ExtractError(f"unsupported construct {item}: argument of {method} is not a closure literal")
    audit.add('R12', f'closure argument of {method} -> {repl}', text(toks[e + 1:pclose])[:400], item)
    return toks[:e + 1] + lex(repl) + toks[pclose:]


def _next_n_sig(toks, i, n):
    res = []
    j = i
    while len(res) < n:
        j = next_sig(toks, j)
        if j >= len(toks):
            res.append(len(toks) - 1)
        else:
            res.append(j)
        j += 1
    return res


def apply_rewrites(toks, rewrites, audit, item):
    """R6/R7: literal token-sequence replacements (from the unit's table)"""
    for rule, frm, to, must in rewrites:
        needle = sig_tokens(lex(frm))
        hits = find_token_seq(toks, needle)
        if must and not hits:
            raise ExtractError(f"ANCHOR-LOST rewrite {frm!r} in {item}: no match")
        if not hits:
            continue
        out = []
        pos = 0
        last_end = -1
        for a, b in hits:
            if a <= last_end:
                continue
            out.extend(toks[pos:a])
            out.append(('x', to))
            pos = b + 1
            last_end = b
            audit.add(rule, f'{frm} => {to}', '', item)
        out.extend(toks[pos:])
        toks = lex(text(out))
    return toks


def apply_havoc(toks, anchors, audit, item):
    """R9: `let x[: T] = <init>;` -> `let x[: T] = vhavoc();` for the anchored let statements"""
    for anchor, ty in anchors:
        needle = sig_tokens(lex(anchor))
        hits = find_token_seq(toks, needle)
        if len(hits) != 1:
            raise ExtractError(f"ANCHOR-LOST havoc {anchor!r} in {item}: {len(hits)} matches")
        a, b = hits[0]
        if toks[a][1] != 'let':
            raise ExtractError(f"havoc anchor must start with `let`: {anchor!r}")
        # find '=' at depth 0 after the anchor start, then ';' at depth 0
        d = 0
        j = a
        eq = None
        while j < len(toks):
            kk, tt = toks[j]
            if kk == 'p' and tt in OPEN:
                d += 1
            elif kk == 'p' and tt in CLOSE:
                d -= 1
            elif kk == 'p' and tt == '<':
                pass
            elif kk == 'p' and tt == '=' and d == 0 and eq is None:
                eq = j
            elif kk == 'p' and tt == ';' and d == 0:
                break
            j += 1
        if eq is None or j >= len(toks):
            raise ExtractError(f"havoc: no initializer for {anchor!r} in {item}")
        dropped = text(toks[eq + 1:j])
        audit.add('R9', f'havoc {anchor}', dropped, item)
        pat = toks[a:eq]
        if ty:
            # insert a type ascription if none present
            has_colon = any(t == ':' for _, t in pat)
            if not has_colon:
                pat = pat + [('x', f': {ty} ')]
        toks = lex(text(toks[:a] + pat + [('p', '='), ('x', ' vhavoc()')] + toks[j:]))
    return toks


# --------------------------------------------------------------------------------------------
# R8 ghost injection

SPEC_STARTS = ('requires', 'ensures', 'decreases', 'recommends', 'no_unwind', 'opens_invariants')
LOOP_STARTS = ('invariant', 'invariant_except_break', 'ensures', 'decreases')
STMT_STARTS = ('proof', 'assert', 'let ghost', 'broadcast use', 'reveal', 'let tracked')


def _starts_with(snippet, allowed):
    s = ' '.join(sig_tokens(lex(snippet)))
    return any(s == a or s.startswith(a + ' ') or s.startswith(a + '(') or s.startswith(a + '{') for a in allowed)


def loop_body_opens(toks, lo, hi):
    """indices of the `{` that opens the body of each for/while/loop in [lo,hi), in source order"""
    res = []
    j = lo
    while j < hi:
        k, t = toks[j]
        if k == 'id' and t in ('for', 'while', 'loop'):
            # `for<'a>` in types is not expected in extracted bodies
            d = 0
            o = j + 1
            while o < hi:
                kk, tt = toks[o]
                if kk == 'p' and tt in '([':
                    d += 1
                elif kk == 'p' and tt in ')]':
                    d -= 1
                elif kk == 'p' and tt == '{' and d == 0:
                    res.append(o)
                    break
                o += 1
        j += 1
    return res


def loop_keywords(toks, lo, hi):
    res = []
    j = lo
    while j < hi:
        k, t = toks[j]
        if k == 'id' and t in ('for', 'while', 'loop'):
            res.append(j)
        j += 1
    return res


def inject(toks, body_open, spec, ret, ats, loops, sigparams, audit, item, verus):
    """returns final text of the item. toks: rule image of the item (sig + body)."""
    inserts = []  # (token index to insert BEFORE, snippet)
    if not verus:
        return text(toks), 0
    n_inj = 0
    # return value naming
    if ret:
        d = 0
        arrow = None
        for j in range(0, body_open):
            kk, tt = toks[j]
            if kk == 'p' and tt in '([':
                d += 1
            elif kk == 'p' and tt in ')]':
                d -= 1
            elif kk == 'p' and tt == '->' and d == 0:
                arrow = j
        if arrow is None:
            raise ExtractError(f"ANCHOR-LOST {item}: `//@ret` given but the signature has no return type")
        a = next_sig(toks, arrow + 1)
        e = prev_sig(toks, body_open - 1)
        # where clause?
        for j in range(a, body_open):
            if toks[j] == ('id', 'where'):
                e = prev_sig(toks, j - 1)
                break
        inserts.append((a, f'({ret}: '))
        inserts.append((e + 1, ')'))
        n_inj += 1
    if spec.strip():
        if not _starts_with(spec, SPEC_STARTS):
            raise ExtractError(f"{item}: injected spec must start with requires/ensures/decreases")
        inserts.append((body_open, '\n' + spec.rstrip() + '\n\t'))
        n_inj += 1
    body_close = match_close(toks, body_open)
    for mode, anchor, snippet in ats:
        if not _starts_with(snippet, STMT_STARTS):
            raise ExtractError(f"{item}: injected statement must be ghost (proof/assert/let ghost): {snippet[:40]!r}")
        if mode == 'start':
            inserts.append((body_open + 1, '\n\t\t' + snippet.strip() + '\n\t\t'))
            n_inj += 1
            continue
        if mode in ('loopend', 'loopstart'):
            lo = loop_body_opens(toks, body_open + 1, body_close)
            k = int(anchor)
            if k < 1 or k > len(lo):
                audit.lost_hints.append((item, f'{mode} {k}', len(lo)))
                continue
            if mode == 'loopstart':
                inserts.append((lo[k - 1] + 1, '\n\t\t' + snippet.strip() + '\n\t\t'))
            else:
                inserts.append((match_close(toks, lo[k - 1]), '\n\t\t' + snippet.strip() + '\n\t\t'))
            n_inj += 1
            continue
        needle = sig_tokens(lex(anchor))
        hits = find_token_seq(toks, needle, body_open, body_close + 1)
        if len(hits) != 1:
            # a lost *hint* anchor degrades the proof instead of silencing the unit: the hint is dropped, the
            # function is still verified; a failure of a degraded function is decided by its Kani twin (or is undecided)
            audit.lost_hints.append((item, anchor, len(hits)))
            continue
        a, b = hits[0]
        if mode == 'at':
            inserts.append((a, snippet.strip() + '\n\t\t'))
        else:
            inserts.append((b + 1, '\n\t\t' + snippet.strip() + '\n\t\t'))
        n_inj += 1
    opens = loop_body_opens(toks, body_open + 1, body_close)
    for k, snippet, itname in loops:
        if not _starts_with(snippet, LOOP_STARTS):
            raise ExtractError(f"{item}: injected loop spec must start with invariant/decreases")
        if k < 1 or k > len(opens):
            # a loop that no longer exists: its invariant is dropped, the function is verified in degraded mode
            audit.lost_hints.append((item, f'loop {k}', len(opens)))
            continue
        inserts.append((opens[k - 1], '\n' + snippet.rstrip() + '\n\t\t'))
        n_inj += 1
        if itname:
            # name the ghost iterator of a `for` loop: `for x in <it>: expr`
            if not re.match(r'^[A-Za-z_][A-Za-z0-9_]*$', itname):
                raise ExtractError(f"{item}: bad iterator name")
            kw = loop_keywords(toks, body_open + 1, body_close)[k - 1]
            if toks[kw][1] != 'for':
                raise ExtractError(f"ANCHOR-LOST {item}: loop {k} is not a for loop")
            d = 0
            j = kw + 1
            while j < opens[k - 1]:
                kk, tt = toks[j]
                if kk == 'p' and tt in '([':
                    d += 1
                elif kk == 'p' and tt in ')]':
                    d -= 1
                elif kk == 'id' and tt == 'in' and d == 0:
                    break
                j += 1
            if j >= opens[k - 1]:
                raise ExtractError(f"ANCHOR-LOST {item}: no `in` in for loop {k}")
            inserts.append((j + 1, f' {itname}:'))
    for anchor, repl in sigparams:
        # closure parameter / return ascriptions: anchor is a closure head like `move |mut coord|`;
        # repl must equal the anchor up to added `: Type`, `-> (r: T)` and ensures/requires clauses
        needle = sig_tokens(lex(anchor))
        hits = find_token_seq(toks, needle, body_open, body_close + 1)
        if len(hits) != 1:
            raise ExtractError(f"ANCHOR-LOST {item}: closure anchor {anchor!r} has {len(hits)} matches")
        a, b = hits[0]
        check_closure_injection(anchor, repl, item)
        inserts.append(('replace', a, b, repl))
        n_inj += 1
    # assemble
    reps = [x for x in inserts if x[0] == 'replace']
    ins = sorted([x for x in inserts if x[0] != 'replace'], key=lambda x: x[0])
    out = []
    pos = 0
    events = [(i, 0, s) for i, s in ins] + [(a, 1, (b, r)) for _, a, b, r in reps]
    events.sort(key=lambda e: (e[0], e[1]))
    for idx, kind, payload in events:
        out.extend(toks[pos:idx])
        pos = idx
        if kind == 0:
            out.append(('x', payload))
        else:
            b, r = payload
            out.append(('x', r))
            pos = b + 1
    out.extend(toks[pos:])
    final = text(out)
    # erasure check: removing exactly the injected snippets gives back the rule image
    erased = [tk for tk in out if tk[0] != 'x' or False]
    base = [t for t in sig_tokens(toks)]
    er = sig_tokens(erased)
    if reps:
        # closure heads were replaced: compare with the replaced heads erased on both sides
        base2 = list(toks)
        for _, a, b, r in sorted(reps, key=lambda x: -x[1]):
            base2 = base2[:a] + base2[b + 1:]
        base = sig_tokens(base2)
    if er != base:
        raise ExtractError(f"internal: erasure check failed for {item}")
    return final, n_inj


def check_closure_injection(anchor, repl, item):
    """the replacement must contain the anchor's tokens in order; everything added must be a type
    ascription, a named return or a requires/ensures clause (ghost)"""
    a = sig_tokens(lex(anchor))
    r = sig_tokens(lex(repl))
    it = iter(r)
    for tok in a:
        for x in it:
            if x == tok:
                break
        else:
            raise ExtractError(f"{item}: closure replacement does not preserve the closure head {anchor!r}")


# --------------------------------------------------------------------------------------------
# template processing

DIRECTIVE = re.compile(r'^\s*//@(\w[\w-]*)\s*(.*)$')
KV = re.compile(r'(\w+)="((?:[^"\\]|\\.)*)"')
ARROW = re.compile(r'^"((?:[^"\\]|\\.)*)"\s*=>\s*"((?:[^"\\]|\\.)*)"(.*)$')


def unq(s):
    return s.replace('\\"', '"').replace('\\\\', '\\')


class Built:
    def __init__(self):
        self.text = ''
        self.audit = Audit()
        self.linemap = []   # dict(start, end, name, emitted_name, file, src_start, src_end, known, sha)
        self.expect = {}
        self.meta = {}


def build(template_path, verus=True):
    lines = expand_includes(template_path)
    built = Built()
    out_lines = []
    unit_rewrites = []
    extra_drop = []
    i = 0
    n = len(lines)
    while i < n:
        ln = lines[i]
        m = DIRECTIVE.match(ln)
        if not m:
            out_lines.append(ln)
            i += 1
            continue
        d, rest = m.group(1), m.group(2).strip()
        if d == 'expect':
            for k, v in re.findall(r'(\w+)=(\S+)', rest):
                built.expect[k] = int(v)
            i += 1
            continue
        if d == 'meta':
            k, _, v = rest.partition('=')
            built.meta.setdefault(k.strip(), []).append(v.strip())
            i += 1
            continue
        if d == 'drop-macro':
            extra_drop.extend(rest.split())
            i += 1
            continue
        if d == 'rewrite':
            mm = ARROW.match(rest)
            if not mm:
                raise ExtractError(f"bad //@rewrite at {template_path}:{i+1}")
            tail = mm.group(3)
            rule = 'R7' if 'R7' in tail else 'R6'
            unit_rewrites.append((rule, unq(mm.group(1)), unq(mm.group(2)), False))
            i += 1
            continue
        if d == 'extract':
            # collect block until //@end
            j = i + 1
            sections = []  # (directive, arg, [lines])
            cur = None
            while j < n:
                mm = DIRECTIVE.match(lines[j])
                if mm:
                    if mm.group(1) == 'end':
                        break
                    cur = (mm.group(1), mm.group(2).strip(), [])
                    sections.append(cur)
                else:
                    if cur is not None:
                        cur[2].append(lines[j])
                    elif lines[j].strip():
                        raise ExtractError(f"text outside a section in extract block at {template_path}:{j+1}")
                j += 1
            if j >= n:
                raise ExtractError(f"//@extract without //@end at {template_path}:{i+1}")
            kind = rest.split()[0]
            kv = {k: unq(v) for k, v in KV.findall(rest)}
            start_line = len(out_lines) + 1
            emitted, info = extract_item(kind, kv, sections, unit_rewrites, extra_drop, built.audit, verus)
            out_lines.extend(emitted.split('\n'))
            info.update(start=start_line, end=len(out_lines))
            built.linemap.append(info)
            i = j + 1
            continue
        if d in ('end',):
            raise ExtractError(f"stray //@end at {template_path}:{i+1}")
        # unknown directive outside extract: keep as comment
        out_lines.append(ln)
        i += 1
    built.text = '\n'.join(out_lines)
    return built


def publicize_fields(toks, audit, item):
    """R1: private fields of an extracted struct are made `pub` (visibility only; Verus treats a
    struct with a private field as opaque in public contracts)"""
    # find the body brace
    bo = None
    for j, (k, t) in enumerate(toks):
        if k == 'p' and t == '{':
            bo = j
            break
        if k == 'p' and t in ('(', ';'):
            return toks
    if bo is None:
        return toks
    bc = match_close(toks, bo)
    out = list(toks[:bo + 1])
    depth = 0
    expect_field = True
    n = 0
    j = bo + 1
    while j < bc:
        k, t = toks[j]
        if expect_field and k not in TRIVIA:
            if not (k == 'id' and t == 'pub'):
                out.append(('x', 'pub '))
                n += 1
            expect_field = False
        if k == 'p' and t in OPEN or (k == 'p' and t == '<'):
            depth += 1
        elif k == 'p' and t in CLOSE or (k == 'p' and t == '>'):
            depth -= 1
        elif k == 'p' and t == ',' and depth == 0:
            expect_field = True
        out.append((k, t))
        j += 1
    out.extend(toks[bc:])
    if n:
        audit.add('R1', f'{n} private fields made pub', '', item)
    return lex(text(out))


def expand_includes(path, depth=0):
    if depth > 5:
        raise ExtractError(f"include depth exceeded at {path}")
    res = []
    units_dir = os.path.join(os.path.dirname(os.path.dirname(os.path.abspath(__file__))), 'units')
    for ln in open(path, encoding='utf-8').read().split('\n'):
        m = re.match(r'^\s*//@include\s+(\S+)\s*$', ln)
        if m:
            res.extend(expand_includes(os.path.join(units_dir, m.group(1)), depth + 1))
        else:
            res.append(ln)
    return res


def extract_item(kind, kv, sections, unit_rewrites, extra_drop, audit, verus):
    relpath = kv['file']
    scope = kv.get('scope', 'top')
    name = kv['name']
    as_name = kv.get('as')
    item = f"{relpath}::{scope}::{name}" + (f" as {as_name}" if as_name else '')
    toks = load_tokens(relpath)
    start, end, depth0 = resolve_scope(toks, scope, relpath)
    if kind == 'fn':
        hits = find_fn(toks, start, end, name, None if kv.get('anydepth') else depth0)
        if kv.get('nth'):
            hits = [hits[int(kv['nth']) - 1]] if len(hits) >= int(kv['nth']) else []
        if len(hits) != 1:
            raise ExtractError(f"ANCHOR-LOST fn {item}: {len(hits)} matches")
        b, fnkw, body_open, body_close = hits[0]
        if body_open is None:
            raise ExtractError(f"ANCHOR-LOST fn {item}: no body")
        raw = toks[b:body_close + 1]
    elif kind == 'closure':
        # R10: a closure literal inside function `name` is lifted to a function. The closure head (kv['head']) is replaced by the
        # declared signature kv['sig']; statements of the enclosing function named by kv['pre'] (anchors separated by `|`) are
        # copied in front of the closure body; everything else of the enclosing function is dropped (and listed in the audit).
        hits = find_fn(toks, start, end, name, None if kv.get('anydepth') else depth0)
        if len(hits) != 1:
            raise ExtractError(f"ANCHOR-LOST fn {item}: {len(hits)} matches")
        fb, fnkw, f_open, f_close = hits[0]
        if f_open is None:
            raise ExtractError(f"ANCHOR-LOST fn {item}: no body")
        head = kv['head']
        ch = find_token_seq(toks, sig_tokens(lex(head)), f_open, f_close + 1)
        if len(ch) != 1:
            raise ExtractError(f"ANCHOR-LOST closure {item}: head {head!r} has {len(ch)} matches")
        ca, ce = ch[0]
        cj = next_sig(toks, ce + 1)
        if toks[cj][1] != '{':
            raise ExtractError(f"ANCHOR-LOST closure {item}: head {head!r} is not followed by a block")
        cclose = match_close(toks, cj)
        pre_txt = ''
        for anchor in [a for a in kv.get('pre', '').split('|') if a.strip()]:
            ph = find_token_seq(toks, sig_tokens(lex(anchor)), f_open + 1, ca)
            if len(ph) != 1:
                raise ExtractError(f"ANCHOR-LOST closure {item}: pre statement {anchor!r} has {len(ph)} matches")
            pa, pe = ph[0]
            q = pe
            d = 0
            while q < ca:
                kk, tt = toks[q]
                if kk == 'p' and tt in OPEN:
                    d += 1
                elif kk == 'p' and tt in CLOSE:
                    d -= 1
                elif kk == 'p' and tt == ';' and d == 0:
                    break
                q += 1
            if q >= ca:
                raise ExtractError(f"ANCHOR-LOST closure {item}: pre statement {anchor!r} has no end")
            pre_txt += '\t\t' + text(toks[pa:q + 1]) + '\n'
        # parameter names of the closure head must appear in the declared signature
        hs = sig_tokens(lex(head))
        if '|' in hs:
            inner = hs[hs.index('|') + 1:len(hs) - 1 - hs[::-1].index('|')]
            for nm in inner:
                if re.match(r'^[A-Za-z_]\w*$', nm) and nm not in ('mut', 'ref') and nm not in sig_tokens(lex(kv['sig'])):
                    raise ExtractError(f"{item}: closure parameter {nm} missing from declared signature")
        raw = lex(kv['sig'] + ' {\n' + pre_txt + '\t\t' + text(toks[cj:cclose + 1]) + '\n\t}')
        b = ca
        body_close = cclose
        audit.add('R10', f'closure `{head}` of fn {name} lifted to `{kv["sig"]}`; enclosing statements other than [{kv.get("pre", "")}] dropped', '', item)
        mname = re.search(r'fn\s+([A-Za-z_]\w*)', kv['sig'])
        name = mname.group(1)
        kind = 'fn'
    elif kind in ('struct', 'enum', 'const', 'type'):
        hits = find_typedef(toks, start, end, kind, name, depth0)
        if len(hits) != 1:
            raise ExtractError(f"ANCHOR-LOST {kind} {item}: {len(hits)} matches")
        b, e = hits[0]
        raw = toks[b:e + 1]
        body_close = e
    else:
        raise ExtractError(f"unknown extract kind {kind}")
    src_start = line_of(toks, b)
    src_end = line_of(toks, body_close)
    raw_text = text(raw)
    sha = hashlib.sha256(' '.join(sig_tokens(raw)).encode()).hexdigest()[:16]

    t = strip_comments_attrs(raw, audit, item)
    t = lex(text(t))
    # R6 rewrites that must see macro arguments (e.g. an SQL snippet inside format!): applied before R2-R5
    pre_rw = []
    for d, arg, body in sections:
        if d == 'prerewrite':
            mm = ARROW.match(arg)
            if not mm:
                raise ExtractError(f"bad //@prerewrite in {item}")
            pre_rw.append(('R6', unq(mm.group(1)), unq(mm.group(2)), 'optional' not in mm.group(3)))
    if pre_rw:
        t = apply_rewrites(t, pre_rw, audit, item)
    t = erase_async(t, audit, item)
    t = lex(text(t))
    if kv.get('foreach'):
        t = lex(text(desugar_for_each_sync(t, audit, item)))
    for d, arg, body in sections:
        if d == 'callback':
            mm = ARROW.match(arg)
            if not mm:
                raise ExtractError(f"bad //@callback in {item}")
            t = lex(text(abstract_callback(t, unq(mm.group(1)), unq(mm.group(2)), audit, item)))
    t = rewrite_macros(t, audit, item, extra_drop)
    t = lex(text(t))
    t = rewrite_result(t, audit, item)
    t = lex(text(t))
    local_rw = []
    havocs = []
    spec = ''
    ret = None
    ats = []
    loops = []
    closures = []
    for d, arg, body in sections:
        btxt = '\n'.join(body)
        if d == 'rewrite':
            mm = ARROW.match(arg)
            if not mm:
                raise ExtractError(f"bad //@rewrite in {item}")
            rule = 'R7' if 'R7' in mm.group(3) else 'R6'
            # `optional`: a loop-shape rewrite that is simply not needed when the source already has the target shape
            local_rw.append((rule, unq(mm.group(1)), unq(mm.group(2)), 'optional' not in mm.group(3)))
        elif d == 'havoc':
            mm = re.match(r'^"((?:[^"\\]|\\.)*)"\s*(?:type="([^"]*)")?', arg)
            havocs.append((unq(mm.group(1)), mm.group(2)))
        elif d == 'ret':
            ret = arg
        elif d == 'spec':
            spec = btxt
        elif d in ('at', 'after'):
            mm = re.match(r'^"((?:[^"\\]|\\.)*)"', arg)
            ats.append((d, unq(mm.group(1)), btxt))
        elif d == 'start':
            ats.append(('start', '', btxt))
        elif d in ('loopend', 'loopstart'):
            ats.append((d, arg.strip(), btxt))
        elif d == 'loop':
            la = arg.split()
            itname = None
            for x in la[1:]:
                if x.startswith('iter='):
                    itname = x[5:]
            loops.append((int(la[0]), btxt, itname))
        elif d == 'closure':
            mm = re.match(r'^"((?:[^"\\]|\\.)*)"', arg)
            closures.append((unq(mm.group(1)), btxt.strip()))
        elif d in ('prerewrite', 'callback'):
            pass
        elif d == 'verus-only' or d == 'note':
            pass
        else:
            raise ExtractError(f"unknown directive //@{d} in {item}")
    t = apply_rewrites(t, unit_rewrites + local_rw, audit, item)
    if verus or True:
        t = apply_havoc(t, havocs, audit, item) if verus else t
    n_inj = 0
    if kind == 'fn':
        # rename
        if as_name:
            hits = find_token_seq(t, ['fn', name])
            a, b2 = hits[0]
            t = lex(text(t[:b2] + [('id', as_name)] + t[b2 + 1:]))
        # locate body open again in the rule image
        d0 = 0
        bo = None
        seen_fn = False
        for j, (kk, tt) in enumerate(t):
            if kk == 'id' and tt == 'fn':
                seen_fn = True
            if not seen_fn:
                continue
            if kk == 'p' and tt in '([':
                d0 += 1
            elif kk == 'p' and tt in ')]':
                d0 -= 1
            elif kk == 'p' and tt == '{' and d0 == 0:
                bo = j
                break
        if bo is None:
            raise ExtractError(f"internal: no body in rule image of {item}")
        final, n_inj = inject(t, bo, spec, ret, ats, loops, closures, audit, item, verus)
        if n_inj:
            audit.add('R8', f'{n_inj} ghost injections', '', item)
    else:
        if kind == 'struct':
            t = publicize_fields(t, audit, item)
        if kind in ('struct', 'enum') and verus:
            j0 = next_sig(t, 0)
            if t[j0][1] != 'pub':
                t = lex('pub ' + text(t))
                audit.add('R1', 'item made pub', '', item)
        final = text(t)
    degraded = [a for (it, a, n) in audit.lost_hints if it == item]
    info = dict(name=name, emitted_name=as_name or name, kind=kind, file=relpath, scope=scope, degraded=degraded,
                src_start=src_start, src_end=src_end, sha=sha, known=kv.get('known'),
                twin=kv.get('twin'))
    audit.items.append(info)
    return '\t' + final, info
