"""Which units decide which property (DESIGN §3). Kani harnesses are selected by their `props=` tag."""

PROPS = {
    'C15': dict(
        verus=['tile_bbox', 'pyramid_real'],
        kani=['pyramid', 'tile_bbox', 'geo', 'tile_bbox_iter'],
        not_decided=[
            'y-axis geographic round trip through libm tan/ln/exp/atan (numerical error analysis out of reach)',
        ],
    ),
    'C04': dict(
        verus=['compression', 'converter', 'codec_wrappers'],
        kani=['tile_converter'],
        not_decided=[
            'the external codecs themselves (flate2 read adapters, brotli stream functions): assumed inverse pairs; the five wrapper functions around them are verified against the assumed clauses in unit codec_wrappers',
            'TileStream::map_blob_parallel (C14): assumed to apply the callback to every blob of the stream (the callback of TileConverter::process_stream is under contract: compression::stream_item; assumption A-convstream-1: a codec step inside the stream does not fail)',
            'metadata compression lines of the versatiles / pmtiles writers (inside async writer bodies)',
        ],
    ),
    'C05': dict(
        verus=['compression', 'converter', 'mbtiles_pyramid', 'codec_wrappers'],
        kani=['tile_converter'],
        not_decided=[
            'Accept-Encoding header substring matching, URL splitting and parse::<u32>, status-code mapping, axum/hyper framing',
            'Content-Type / Content-Encoding header construction in ok_data (axum response builder)',
        ],
    ),
    'C06': dict(
        verus=['converter', 'tile_bbox', 'convert_cli', 'pyramid_real'],
        kani=['pyramid', 'geo'],
        not_decided=[
            'CLI string parsing of --bbox / zoom options (iterator chain, havoc under R9 where extracted)',
            'multiplicity of streamed tiles (streams are modelled as finite maps)',
            'y-axis libm numerics of the geographic selection',
        ],
    ),
    'C08': dict(
        verus=['overlay', 'compression', 'pyramid_real', 'codec_wrappers'],
        kani=['pyramid', 'tile_converter', 'tile_bbox_iter'],
        not_decided=[
            'get_tile_stream of the overlay outside the per-cell closure: iter_bbox_grid(32) split (grid law bounded in tile_bbox_iter) and from_stream_iter concatenation; recompress failing inside the stream (assumption A-overlay-1: the real code panics there)',
            'construction of the nested source pipelines (join_all, havoc under R9)',
        ],
    ),
    'C09': dict(
        verus=['filters', 'tile_bbox', 'pyramid_real'],
        kani=['pyramid', 'geo'],
        not_decided=[
            'Args::from_vpl_node (derive-generated argument parsing; C18 territory)',
        ],
    ),
    'C02': dict(
        verus=['converter', 'filters', 'overlay', 'versatiles_stream', 'mbtiles_pyramid', 'default_stream'],
        kani=['tile_bbox_iter'],
        not_decided=[
            'container readers (the base case): the versatiles chunk grouping is under contract (unit versatiles_stream), the MBTiles box query equals the lookups relative to the SQL snippet table (unit mbtiles_pyramid); the selection of index entries of the versatiles stream (iterator chain), its range reads and slicing are not; the default stream (PMTiles, tar, directory, pipeline reader) is under contract per coordinate (unit default_stream: item = lookup of that coordinate), its enumeration of the box (iter_coords: bounded Kani law in tile_bbox_iter) and the buffered-futures combinator from_coord_vec_async are not',
            'overlay: the split of a request into iter_bbox_grid(32) cells and the concatenation of the cell streams (the per-cell stream is under contract); merge stream paths',
            'multiplicity (each tile once): streams are modelled as finite maps',
        ],
    ),
    'C03': dict(
        verus=['tile_bbox', 'filters', 'overlay', 'converter', 'pmtiles_reader', 'versatiles_reader', 'pyramid_real', 'mbtiles_pyramid', 'block_index_pyramid'],
        kani=['pyramid', 'pmtiles_runs'],
        not_decided=[
            'MBTiles: SQL snippets outside the translation table of unit mbtiles_pyramid (ANCHOR-LOST, exit 2); the zoom-gap behaviour (NULL -> Err)', 'tar/directory file-name parsing that feeds include_coord',
        ],
    ),
    'C01': dict(
        verus=['pmtiles_dir', 'pmtiles_dir_dec', 'varint_pbf', 'tile_bbox', 'tile_index', 'block_index', 'block_index_pyramid', 'mbtiles_pyramid', 'versatiles_stream', 'versatiles_writer', 'pmtiles_writer', 'codec_wrappers'],
        kani=['pmtiles_codec', 'versatiles_codec', 'tile_bbox', 'tile_bbox_iter', 'zigzag'],
        not_decided=[
            'end-to-end write-then-read through async I/O: write_block (incl. the de-duplication callback) and the section layout of PMTilesWriter::write_to_writer are under contract; the versatiles header and meta writes, completeness of write_blocks (every non-empty block is listed) and of the PMTiles entry list (every streamed tile has an entry) are not; the composition writer -> file -> reader is not stated as one theorem',
            'MBTiles (SQL), tar and directory (file names), getters.rs dispatch',
            'the outer size search of as_directory (float loop)',
        ],
    ),
    'C10': dict(
        verus=['merged', 'merge_tiles', 'vector_tile_merge', 'vector_tile_tables', 'vector_tile_layer_enc'],
        kani=[],
        not_decided=[
            'the order in which the merged layers appear in the output tile (HashMap iteration order: unspecified by the code itself)',
            'get_tile_stream of the merged operation (per-cell closure with Vec<Vec<Blob>> slots and an enumerate/filter_map chain)',
            'VectorTile from_blob(to_blob(t)) = t (to_blob of tile, layer and feature are proved against the MVT wire layout, the decoders are proved total: the composition is not)',
            'construction of the nested source pipelines (join_all, havoc under R9)',
        ],
    ),
    'C11': dict(
        verus=['varint_pbf', 'vector_tile_tables', 'vector_tile_feature', 'vector_tile_layer', 'vector_tile_layer_enc', 'vector_tile_merge', 'update_properties'],
        kani=['zigzag'],
        not_decided=[
            'what the property callback computes (CSV join: id lookup, replace / update / remove; abstracted by R12) and value typing (GeoValue)',
            'filter_map_properties beyond its per-feature step (table rebuild through iterator adapters); build() of the operation (CSV loading, tilejson fields)',
            'GeoValue typing and value sub-message codec (write_svarint/read_svarint are under contract, GeoValue::{read,to_blob} are not)',
            'feature decoder correctness beyond totality (to_blob is proved against the MVT wire layout; read is proved total, the composition read(to_blob(f)) = f is not)',
            'round trip lemma dec(enc(v)) = v for varints is stated per direction (encoder = LEB128 spec, decoder = 7-bit group rule), not composed',
        ],
    ),
    'C16': dict(
        verus=['pmtiles_dir', 'pmtiles_dir_dec', 'varint_pbf', 'pmtiles_reader', 'versatiles_reader', 'versatiles_stream', 'tile_index', 'block_index', 'block_index_pyramid', 'mbtiles_pyramid'],
        kani=['pmtiles_codec', 'versatiles_codec', 'pmtiles_runs'],
        not_decided=[
            'MBTiles zoom gaps (SQL), ./-prefixed tar members (string code)',
            'PMTiles reader: opening (header + root directory reads) and the async/cache plumbing of the descent (the descent itself is under contract: pmtiles_reader::get_tile_data = pm_lookup)',
        ],
    ),
    'C19': dict(
        verus=['varint_pbf', 'pmtiles_dir', 'filters', 'converter', 'vector_tile_tables', 'pmtiles_reader', 'vector_tile_feature', 'convert_cli', 'versatiles_reader', 'tile_index', 'vector_tile_layer', 'block_index', 'pmtiles_dir_dec', 'mbtiles_pyramid', 'vector_tile_merge'],
        kani=['pmtiles_codec', 'versatiles_codec', 'geo', 'zigzag'],
        not_decided=[
            'JSON / TileJSON / CSV / VPL text parsers (String, nom, core::fmt: outside both verifiers; Kani probes timed out)',
            'GeoValue decoding', 'MBTiles / tar / directory opening', 'stack depth of the recursive JSON parser',
        ],
    ),
    'C20': dict(
        level='other',
        verus=[],
        kani=['limited_cache'],
        not_decided=[
            'capacities above the stand-in bound (CAP = 4): the inductive step is checked per capacity <= CAP only',
            'the real std::collections::HashMap and slice sort (replaced by stand-ins with the assumed contract finite map / sorted permutation)',
            'stamp counter overflow after 2^64 operations (assumed away)',
        ],
    ),
}

LEVEL = 'proof'

# harnesses that exist in a unit's source but are not run: they did not finish within their time/memory budget on this machine.
# They are listed in the evidence under not_decided_clauses; removing them from the source would only invalidate the result reuse.
SKIP_HARNESSES = {
    ('geo', 'geo_pyramid_intersect_geo_bbox'): 'with the exact x-axis intersection assertion for two fully symbolic inputs the harness does not finish within 60 min; '
                                               'TileBBoxPyramid::intersect_geo_bbox is proved for all pyramids by the Verus unit pyramid_real (relative to from_geo), '
                                               'from_geo by the other geo harnesses, and the bounded harness geo_pyramid_intersect_every_level_fixed_box runs the real loop',
}
