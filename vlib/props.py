"""Which units decide which property (DESIGN §3). Kani harnesses are selected by their `props=` tag."""

PROPS = {
    'C15': dict(
        title='Tile bounding boxes and pyramids behave as the sets of tiles they denote',
        verus=['tile_bbox'],
        kani=['pyramid'],
        not_decided=[
            'y-axis geographic round trip through libm tan/ln/exp/atan (numerical error analysis out of reach)',
        ],
    ),
}

LEVEL = 'proof'
