"""Build a Kani unit (a tiny dependency-free crate whose src/lib.rs is a template with //@extract
blocks filled from /repo) and run selected harnesses."""
import json
import os
import re
import shutil
import subprocess
import time
from .extract import build, ExtractError

VERIF = os.path.dirname(os.path.dirname(os.path.abspath(__file__)))
WORK = os.environ.get('VERIF_WORK') or os.path.join(VERIF, 'work')

TAG = re.compile(r'^\s*//\s*harness:\s*(.*)$')
KVT = re.compile(r'(\w+)=("([^"]*)"|\S+)')
FN = re.compile(r'\bfn\s+([A-Za-z_][A-Za-z0-9_]*)')


class Harness:
    def __init__(self, name, tags):
        self.name = name
        self.kind = tags.get('kind', 'bounded')       # complete | bounded | twin | canary
        self.bound = tags.get('bound', '')
        self.why = tags.get('why', '')
        self.tier = tags.get('tier', 'quick')
        self.props = [p for p in tags.get('props', '').split(',') if p]
        self.twin = tags.get('twin')
        self.timeout = int(tags.get('timeout', '900'))
        self.mem_gb = int(tags.get('mem', '12'))
        self.known = tags.get('known')
        self.fn = tags.get('fn', '')                   # repo function(s) the harness puts under contract
        self.expect = tags.get('expect', 'pass')       # pass | fail (canaries)
        self.status = None                             # success | failure | undecided
        self.detail = ''
        self.failed_checks = []
        self.time_s = 0.0
        self.playback = None


def parse_harnesses(text):
    res = []
    lines = text.split('\n')
    for i, ln in enumerate(lines):
        m = TAG.match(ln)
        if not m:
            continue
        tags = {}
        for k, v, q in KVT.findall(m.group(1)):
            tags[k] = q if v.startswith('"') else v
        # following lines: attributes then fn name
        for j in range(i + 1, min(i + 12, len(lines))):
            fm = FN.search(lines[j])
            if fm:
                res.append(Harness(fm.group(1), tags))
                break
    return res


class KaniUnit:
    def __init__(self, unit):
        self.unit = unit
        self.status = 'ok'
        self.reason = ''
        self.harnesses = []
        self.audit = None
        self.linemap = []
        self.dir = os.path.join(WORK, unit, 'kani')
        self.trusted = []
        self.built = False
        self.src = ''


def scan_trusted_kani(text):
    res = []
    for ln in text.split('\n'):
        s = ln.strip()
        if s.startswith('//'):
            continue
        if re.search(r'kani::stub\b|kani::assume\s*\(|#\[kani::unwind|kani::stub_verified', s):
            if 'kani::assume' in s:
                continue  # harness preconditions are listed as part of the harness contract, not as trusted stubs
            res.append(s[:140])
    return sorted(set(res))


def build_kani_unit(unit):
    ku = KaniUnit(unit)
    tdir = os.path.join(VERIF, 'units', unit, 'kani')
    tpl = os.path.join(tdir, 'src', 'lib.rs')
    try:
        built = build(tpl, verus=False)
    except ExtractError as e:
        ku.status = 'undecided'
        ku.reason = f'extraction: {e}'
        return ku
    ku.audit = built.audit
    ku.linemap = built.linemap
    ku.src = built.text
    os.makedirs(os.path.join(ku.dir, 'src'), exist_ok=True)
    os.makedirs(os.path.join(ku.dir, '.cargo'), exist_ok=True)
    shutil.copy(os.path.join(tdir, 'Cargo.toml'), os.path.join(ku.dir, 'Cargo.toml'))
    lock = os.path.join(tdir, 'Cargo.lock')
    if os.path.exists(lock):
        shutil.copy(lock, os.path.join(ku.dir, 'Cargo.lock'))
    with open(os.path.join(ku.dir, '.cargo', 'config.toml'), 'w') as f:
        f.write('[net]\noffline = true\n')
    path = os.path.join(ku.dir, 'src', 'lib.rs')
    old = open(path).read() if os.path.exists(path) else None
    if old != built.text:
        with open(path, 'w') as f:
            f.write(built.text)
    ku.harnesses = parse_harnesses(built.text)
    ku.trusted = scan_trusted_kani(built.text)
    ku.built = True
    return ku


RESULT_RE = re.compile(r'^Checking harness ([\w:]+)\.\.\.')


def run_harnesses(ku, harnesses, jobs=8, playback=False, extra_flags=()):
    """runs the given harness objects of a built unit; fills status fields. One cargo kani process
    per harness (in parallel, bounded by `jobs`) so that timeouts and memory limits are per harness."""
    if not harnesses:
        return
    env = dict(os.environ)
    env['CARGO_NET_OFFLINE'] = 'true'
    # compile once (codegen only) so that parallel runs do not fight over the build lock
    t0 = time.time()
    pre = subprocess.run(['cargo', 'kani', '-Z', 'stubbing', '-Z', 'unstable-options', '--only-codegen'],
                         cwd=ku.dir, env=env, capture_output=True, text=True)
    if pre.returncode != 0:
        for h in harnesses:
            h.status = 'undecided'
            h.detail = 'kani build failed: ' + (pre.stderr[-1500:] or pre.stdout[-1500:])
        ku.status = 'undecided'
        ku.reason = 'kani build failed: ' + (pre.stderr[-800:] or pre.stdout[-800:])
        return
    procs = []
    pending = list(harnesses)
    # thorough-tier harnesses only: a harness that already succeeded on the byte-identical generated crate (same source text,
    # manifest, lock file, harness and flags) in this checkout is not re-run; the evidence says so. Quick-tier harnesses, failures
    # and undecided results are never cached. VERIF_NO_CACHE=1 disables the reuse.
    if not playback and not os.environ.get('VERIF_NO_CACHE'):
        for h in list(pending):
            if h.tier != 'thorough' or h.kind == 'canary':
                continue
            c = _cache_load(ku, h, extra_flags)
            if c:
                h.status = 'success'
                h.time_s = c.get('time_s', 0.0)
                h.detail = (c.get('detail') or '') + f" [reused: identical generated crate verified at {c.get('when')}, {c.get('time_s', 0):.0f} s]"
                h.cached = True
                pending.remove(h)
    running = []
    while pending or running:
        while pending and len(running) < jobs:
            used = sum(x[0].mem_gb for x in running)
            if running and used + pending[0].mem_gb > 52:
                break   # memory budget of the sandbox (62 GB): wait for a running harness to finish
            h = pending.pop(0)
            cmd = ['cargo', 'kani', '-Z', 'stubbing', '-Z', 'unstable-options', '--harness', 'proofs::' + h.name, '--exact']
            if playback:
                cmd += ['-Z', 'concrete-playback', '--concrete-playback=print']
            else:
                cmd += ['--output-format', 'terse']
            cmd += list(extra_flags)
            out = open(os.path.join(ku.dir, f'{h.name}.log'), 'w')
            shell = f"ulimit -v {h.mem_gb * 1024 * 1024}; exec " + ' '.join(_q(c) for c in cmd)
            p = subprocess.Popen(['bash', '-c', shell], cwd=ku.dir, env=env, stdout=out, stderr=subprocess.STDOUT,
                                 start_new_session=True)
            h._cmd = ' '.join(cmd)
            running.append((h, p, time.time(), out))
        time.sleep(0.5)
        for item in list(running):
            h, p, ts, out = item
            rc = p.poll()
            if rc is None and time.time() - ts > h.timeout:
                _kill(p)
                rc = -9
                h.status = 'undecided'
                h.detail = f'timeout after {h.timeout} s'
            if rc is not None:
                out.close()
                h.time_s = time.time() - ts
                running.remove(item)
                if h.status is None:
                    _parse_result(ku, h, rc)
                if h.status == 'success' and h.tier == 'thorough' and h.kind != 'canary' and not playback:
                    _cache_store(ku, h, extra_flags)


def _cache_key(ku, h, extra_flags):
    import hashlib
    parts = [ku.src or '']
    for fn in ('Cargo.toml', 'Cargo.lock'):
        pth = os.path.join(ku.dir, fn)
        parts.append(open(pth).read() if os.path.exists(pth) else '')
    parts += [h.name, ' '.join(extra_flags), 'kani-0.68.0', str(h.mem_gb)]
    return hashlib.sha256('\x00'.join(parts).encode()).hexdigest()


def _cache_load(ku, h, extra_flags):
    pth = os.path.join(VERIF, 'work', 'kcache', _cache_key(ku, h, extra_flags) + '.json')
    try:
        c = json.load(open(pth))
        return c if c.get('status') == 'success' and c.get('harness') == h.name else None
    except Exception:
        return None


def _cache_store(ku, h, extra_flags):
    d = os.path.join(VERIF, 'work', 'kcache')
    os.makedirs(d, exist_ok=True)
    with open(os.path.join(d, _cache_key(ku, h, extra_flags) + '.json'), 'w') as f:
        json.dump(dict(status='success', harness=h.name, unit=ku.unit, detail=h.detail, time_s=h.time_s,
                       when=time.strftime('%Y-%m-%dT%H:%M:%SZ', time.gmtime())), f)


def _q(s):
    import shlex
    return shlex.quote(s)


def _kill(p):
    import signal
    try:
        os.killpg(os.getpgid(p.pid), signal.SIGKILL)
    except Exception:
        try:
            p.kill()
        except Exception:
            pass
    try:
        p.wait(timeout=10)
    except Exception:
        pass


def _parse_result(ku, h, rc):
    log = open(os.path.join(ku.dir, f'{h.name}.log')).read()
    h.log_tail = log[-3000:]
    if 'VERIFICATION:- SUCCESSFUL' in log:
        h.status = 'success'
        m = re.search(r'Verification Time: ([\d.]+)s', log)
        if m:
            h.detail = f'cbmc {m.group(1)} s'
        # count checks if available
        return
    if 'VERIFICATION:- FAILED' in log:
        # unwinding assertion failures / unsupported constructs are not property violations
        fails = re.findall(r'Failed Checks: (.*)', log)
        h.failed_checks = fails
        if any('unwinding assertion' in f for f in fails) or any('is not currently supported by Kani' in f for f in fails):
            h.status = 'undecided'
            h.detail = 'unwinding bound too small or unsupported construct: ' + '; '.join(fails[:3])
            return
        m0 = re.search(r'\*\* (\d+) of (\d+) failed', log)
        if 'CBMC failed' in log or 'out of memory' in log.lower() or 'std::bad_alloc' in log or (m0 and m0.group(1) == '0' and not fails):
            # (a FAILED verdict without any failed check: the back end ended abnormally, typically the memory limit)
            h.status = 'undecided'
            h.detail = 'CBMC resource failure'
            return
        h.status = 'failure'
        h.detail = '; '.join(fails[:5])
        # concrete playback test, if printed
        m = re.search(r'Concrete playback unit test for `[^`]*`:\s*```\s*(.*?)```', log, re.S)
        if m:
            h.playback = m.group(1)
        return
    h.status = 'undecided'
    h.detail = f'kani ended without a verdict (rc={rc}): ' + log[-600:]


def confirm_playback(ku, h, timeout=900):
    """Replays the counterexample of a failed harness natively: the concrete-playback unit test Kani generates is
    added to a scratch copy of the unit crate (the extracted real function text) and executed with `cargo kani playback`.
    Returns dict(confirmed: bool|None, test: str, output: str)."""
    env = dict(os.environ)
    env['CARGO_NET_OFFLINE'] = 'true'
    pdir = ku.dir + '-playback'
    shutil.rmtree(pdir, ignore_errors=True)
    shutil.copytree(ku.dir, pdir, ignore=shutil.ignore_patterns('target', '*.log'))
    res = dict(confirmed=None, test=None, output='')
    try:
        p = subprocess.run(['cargo', 'kani', '-Z', 'stubbing', '-Z', 'unstable-options', '-Z', 'concrete-playback',
                            '--concrete-playback=inplace', '--harness', 'proofs::' + h.name, '--exact'],
                           cwd=pdir, env=env, capture_output=True, text=True, timeout=max(timeout, h.timeout))
        src = open(os.path.join(pdir, 'src', 'lib.rs')).read()
        m = re.search(r'(#\[test\]\s*fn kani_concrete_playback_\w+\(\)\s*\{.*?concrete_playback_run\([^;]*;\s*\})', src, re.S)
        if not m:
            res['output'] = 'kani produced no concrete playback test: ' + (p.stdout + p.stderr)[-600:]
            return res
        res['test'] = m.group(1)
        q = subprocess.run(['cargo', 'kani', 'playback', '-Z', 'concrete-playback', '--', 'kani_concrete_playback'],
                           cwd=pdir, env=env, capture_output=True, text=True, timeout=timeout)
        out = q.stdout + q.stderr
        res['output'] = out[-2500:]
        if re.search(r'test result: FAILED', out):
            res['confirmed'] = True
        elif re.search(r'test result: ok', out):
            res['confirmed'] = False
    except subprocess.TimeoutExpired:
        res['output'] = 'playback timed out'
    finally:
        shutil.rmtree(pdir, ignore_errors=True)
    return res
