//! Replay driver: runs the *real* crates of /repo on concrete inputs (counterexamples, known defects).
//! usage: verif_replay <case> [args…]; prints `CONFIRMED …` when the real code violates the stated
//! postcondition on the input, `NOT-CONFIRMED …` otherwise.
use anyhow::Result;
use async_trait::async_trait;
use versatiles_container::{TilesConvertReader, TilesConverterParameters};
use versatiles_core::{tilejson::TileJSON, types::*};

/// a source whose tile at (z,x,y) carries the bytes "z/x/y" – every tile distinct
#[derive(Debug)]
struct DistinctSource { p: TilesReaderParameters, tj: TileJSON }
impl DistinctSource {
	fn new(pyr: TileBBoxPyramid) -> Self {
		Self { p: TilesReaderParameters::new(TileFormat::BIN, TileCompression::Uncompressed, pyr), tj: TileJSON::default() }
	}
}
#[async_trait]
impl TilesReaderTrait for DistinctSource {
	fn get_source_name(&self) -> &str { "distinct" }
	fn get_container_name(&self) -> &str { "distinct" }
	fn get_parameters(&self) -> &TilesReaderParameters { &self.p }
	fn override_compression(&mut self, c: TileCompression) { self.p.tile_compression = c; }
	fn get_tilejson(&self) -> &TileJSON { &self.tj }
	async fn get_tile_data(&self, c: &TileCoord3) -> Result<Option<Blob>> {
		if !self.p.bbox_pyramid.contains_coord(c) { return Ok(None); }
		Ok(Some(Blob::from(format!("{}/{}/{}", c.z, c.x, c.y))))
	}
}

fn arg<T: std::str::FromStr>(a: &[String], i: usize) -> T where T::Err: std::fmt::Debug { a[i].parse::<T>().expect("bad argument") }

async fn converter_lookup_vs_stream(a: &[String]) -> Result<bool> {
	// args: flip swap z x y
	let (flip, swap, z, x, y): (bool, bool, u8, u32, u32) = (arg(a, 0), arg(a, 1), arg(a, 2), arg(a, 3), arg(a, 4));
	let src = DistinctSource::new(TileBBoxPyramid::new_full(z));
	let mut cp = TilesConverterParameters::new_default();
	cp.flip_y = flip; cp.swap_xy = swap;
	let conv = TilesConvertReader::new_from_reader(Box::new(src), cp)?;
	let c = TileCoord3::new(x, y, z)?;
	let lookup = conv.get_tile_data(&c).await?.map(|b| b.as_str().to_string());
	let bbox = TileBBox::new(z, x, y, x, y)?;
	let streamed: Vec<(TileCoord3, Blob)> = conv.get_bbox_tile_stream(bbox).await.collect().await;
	let stream = streamed.iter().find(|(cc, _)| *cc == c).map(|(_, b)| b.as_str().to_string());
	// expected by C06: source tile at T^-1(c), T = swap . flip (flip first)
	let m = (1u32 << z) - 1;
	let (mut sx, mut sy) = (x, y);
	if swap { std::mem::swap(&mut sx, &mut sy); }
	if flip { sy = m - sy; }
	let expected = Some(format!("{}/{}/{}", z, sx, sy));
	println!("lookup={lookup:?} stream={stream:?} expected={expected:?}");
	Ok(lookup != expected || stream != expected)
}

async fn converter_lookup_total(a: &[String]) -> Result<bool> {
	// args: flip swap z x y — C05/C06/C19: a lookup of ANY coordinate returns Ok(None)/Ok(Some), never panics
	let (flip, swap, z, x, y): (bool, bool, u8, u32, u32) = (arg(a, 0), arg(a, 1), arg(a, 2), arg(a, 3), arg(a, 4));
	let src = DistinctSource::new(TileBBoxPyramid::new_full(z.min(31)));
	let mut cp = TilesConverterParameters::new_default();
	cp.flip_y = flip; cp.swap_xy = swap;
	let conv = TilesConvertReader::new_from_reader(Box::new(src), cp)?;
	let c = TileCoord3 { x, y, z };
	let r = conv.get_tile_data(&c).await?;
	println!("lookup={:?}", r.map(|b| b.as_str().to_string()));
	Ok(false)
}

fn geo_bbox_nonempty(a: &[String]) -> Result<bool> {
	// args: z west south east north — C15: every valid geographic box maps to a non-empty tile box covering it
	let z: u8 = arg(a, 0);
	let g = GeoBBox(arg(a, 1), arg(a, 2), arg(a, 3), arg(a, 4));
	if g.check().is_err() { println!("geo box is not valid"); return Ok(false); }
	let r = TileBBox::from_geo(z, &g);
	println!("from_geo -> {r:?}");
	let bad = match &r { Err(_) => true, Ok(b) => b.is_empty() };
	let mut p = TileBBoxPyramid::new_full(z);
	p.intersect_geo_bbox(&g); // panics on the unfixed tree
	Ok(bad || p.get_level_bbox(z).is_empty())
}

async fn filter_bbox_build(a: &[String]) -> Result<bool> {
	// args: west south east north — C09/C19: an invalid argument is an error at build time, never a panic
	let vpl = format!("from_debug format=png | filter_bbox bbox=[{},{},{},{}]", a[0], a[1], a[2], a[3]);
	let f = versatiles_pipeline::PipelineFactory::new_dummy();
	let r = f.operation_from_vpl(&vpl).await;
	println!("build -> {}", if r.is_ok() { "Ok".to_string() } else { format!("Err({:?})", r.err().unwrap().to_string()) });
	Ok(false)
}

fn svarint_roundtrip(a: &[String]) -> Result<bool> {
	// args: v — C11: sint64 values survive write_svarint / read_svarint
	use versatiles_core::io::{ValueReader, ValueReaderSlice, ValueWriter, ValueWriterBlob};
	let v: i64 = arg(a, 0);
	let mut w = ValueWriterBlob::new_le();
	w.write_svarint(v)?;
	let blob = w.into_blob();
	let mut r = ValueReaderSlice::new_le(blob.as_slice());
	let back = r.read_svarint()?;
	println!("wrote {v}, read {back}");
	Ok(back != v)
}

fn pbf_length_prefix(a: &[String]) -> Result<bool> {
	// args: hex bytes — C19: a length-prefixed read of arbitrary bytes returns Ok/Err; no panic, no abort, no huge allocation
	use versatiles_core::io::{ValueReader, ValueReaderSlice};
	let bytes: Vec<u8> = a.iter().map(|h| u8::from_str_radix(h, 16).expect("hex byte")).collect();
	let mut r = ValueReaderSlice::new_le(&bytes);
	let res = r.read_pbf_blob();
	println!("read_pbf_blob -> {}", if res.is_ok() { "Ok" } else { "Err" });
	let mut r2 = ValueReaderSlice::new_le(&bytes);
	let res2 = r2.get_pbf_sub_reader().map(|_| ());
	println!("get_pbf_sub_reader -> {}", if res2.is_ok() { "Ok" } else { "Err" });
	Ok(false)
}

fn vector_tile_from_bytes(a: &[String]) -> Result<bool> {
	// args: hex bytes — C19: decoding arbitrary bytes as a vector tile returns Ok/Err
	let bytes: Vec<u8> = a.iter().map(|h| u8::from_str_radix(h, 16).expect("hex byte")).collect();
	let res = versatiles_geometry::vector_tile::VectorTile::from_blob(&Blob::from(bytes));
	println!("VectorTile::from_blob -> {}", if res.is_ok() { "Ok" } else { "Err" });
	Ok(false)
}

fn cache_just_used_survives(a: &[String]) -> Result<bool> {
	// args: capacity_bytes k1 k2 k3 — C20: add(k1), add(k2), get(k1) [just used], add(k3): k1 must still be cached (capacity >= 2)
	let cap: usize = arg(a, 0);
	let (k1, k2, k3): (u8, u8, u8) = (arg(a, 1), arg(a, 2), arg(a, 3));
	let mut c = LimitedCache::<u8, u8>::with_maximum_size(cap);
	c.add(k1, 1); c.add(k2, 2);
	let hit = c.get(&k1);
	c.add(k3, 3);
	let still = c.get(&k1);
	println!("get({k1}) before = {hit:?}, after add({k3}) = {still:?}; cache = {c:?}");
	Ok(hit.is_some() && still.is_none())
}

fn pmtiles_dir_from_bytes(a: &[String]) -> Result<bool> {
	// args: hex bytes — C19/C16: decoding arbitrary bytes as a PMTiles directory returns Ok/Err, never panics
	use versatiles_container::verif_hooks_pmtiles::EntriesV3;
	let bytes: Vec<u8> = a.iter().map(|h| u8::from_str_radix(h, 16).expect("hex byte")).collect();
	let res = EntriesV3::from_blob(&Blob::from(bytes));
	println!("EntriesV3::from_blob -> {}", match &res { Ok(e) => format!("Ok({} entries)", e.len()), Err(e) => format!("Err({e})") });
	Ok(false)
}

fn block_definition_from_bytes(a: &[String]) -> Result<bool> {
	// args: 33 hex bytes — C19/C16: decoding arbitrary bytes as a versatiles block definition returns Ok/Err, never panics
	use versatiles_container::verif_hooks_versatiles::BlockDefinition;
	let bytes: Vec<u8> = a.iter().map(|h| u8::from_str_radix(h, 16).expect("hex byte")).collect();
	let res = BlockDefinition::from_blob(&Blob::from(bytes));
	println!("BlockDefinition::from_blob -> {}", match &res { Ok(b) => format!("Ok({b:?})"), Err(e) => format!("Err({e})") });
	Ok(false)
}

fn vector_tile_dup_keys(_a: &[String]) -> Result<bool> {
	// C11/C10: key/value tables are addressed by POSITION (MVT spec 4.4); a table with duplicate entries is valid
	let feature: Vec<u8> = vec![0x12, 0x02, 0x02, 0x01, 0x18, 0x01, 0x22, 0x03, 0x09, 0x02, 0x02];
	let mut layer: Vec<u8> = vec![0x0a, 0x01, b'l', 0x12, feature.len() as u8];
	layer.extend(&feature);
	layer.extend([0x1a, 0x01, b'a', 0x1a, 0x01, b'a', 0x1a, 0x01, b'b']);            // keys: a, a, b
	layer.extend([0x22, 0x03, 0x0a, 0x01, b'x', 0x22, 0x03, 0x0a, 0x01, b'y']);      // values: "x", "y"
	let mut tile: Vec<u8> = vec![0x1a, layer.len() as u8];
	tile.extend(&layer);
	let vt = versatiles_geometry::vector_tile::VectorTile::from_blob(&Blob::from(tile))?;
	let l = &vt.layers[0];
	let props = l.decode_tag_ids(&l.features[0].tag_ids);
	println!("feature tags [2,1] with keys [a,a,b], values [x,y] decode to {props:?}; expected {{b: y}}");
	Ok(match props { Err(_) => true, Ok(p) => format!("{p:?}") != format!("{:?}", versatiles_geometry::GeoProperties::from(vec![("b", versatiles_geometry::GeoValue::from("y"))])) })
}

async fn pmtiles_open_self_referential(_a: &[String]) -> Result<bool> {
	// C19/C03: a PMTiles file whose leaf directory entry points back to the same directory bytes must be rejected with an error
	// header (127 bytes, internal compression = none), root directory D at 127, leaf directories = D again at 132
	let d: Vec<u8> = vec![0x01, 0x00, 0x00, 0x05, 0x01];   // 1 entry: id 0, run_length 0 (leaf pointer), length 5, offset 0
	let mut f: Vec<u8> = Vec::new();
	f.extend(b"PMTiles"); f.push(3);
	let put64 = |f: &mut Vec<u8>, v: u64| f.extend(v.to_le_bytes());
	put64(&mut f, 127); put64(&mut f, 5);      // root dir
	put64(&mut f, 137); put64(&mut f, 2);      // metadata "{}"
	put64(&mut f, 132); put64(&mut f, 5);      // leaf dirs
	put64(&mut f, 139); put64(&mut f, 0);      // tile data
	put64(&mut f, 0); put64(&mut f, 0); put64(&mut f, 0);
	f.push(0); f.push(1); f.push(1); f.push(1); f.push(0); f.push(0);   // clustered, internal compr = none, tile compr = none, type = mvt, zooms
	for _ in 0..4 { f.extend(0i32.to_le_bytes()); }
	f.push(0); f.extend(0i32.to_le_bytes()); f.extend(0i32.to_le_bytes());
	assert_eq!(f.len(), 127);
	f.extend(&d); f.extend(&d); f.extend(b"{}");
	let reader = versatiles_core::io::DataReaderBlob::from(Blob::from(f));
	let r = versatiles_container::PMTilesReader::open_reader(Box::new(reader)).await;
	println!("open_reader -> {}", match &r { Ok(_) => "Ok".to_string(), Err(e) => format!("Err({e})") });
	Ok(false)
}

async fn versatiles_short_tile_index(a: &[String]) -> Result<bool> {
	// args: n_index_entries first_offset — C19: looking up a tile in a container whose block's tile index is inconsistent
	// (wrong number of entries, or offsets near 2^64) returns a value or an error, never panics
	use versatiles_container::verif_hooks_versatiles::{BlockDefinition, BlockIndex, FileHeader, TileIndex};
	let n: usize = arg(a, 0); let first_offset: u64 = arg(a, 1);
	let mut file: Vec<u8> = vec![0u8; 66];
	file.push(b'x');                                                     // one tile payload at offset 66
	let mut ti = TileIndex::new_empty(n);
	if n > 0 { ti.set(0, ByteRange::new(first_offset, 1)); }
	let ti_blob = ti.as_brotli_blob()?;
	let mut bd = BlockDefinition::new(&TileBBox::new(1, 0, 0, 1, 1)?);   // a block with 4 tiles
	bd.set_tiles_range(ByteRange::new(66, 1));
	bd.set_index_range(ByteRange::new(67, ti_blob.len()));
	file.extend(ti_blob.as_slice());
	let mut bi = BlockIndex::new_empty();
	bi.add_block(bd);
	let bi_blob = bi.as_brotli_blob()?;
	let blocks_range = ByteRange::new(file.len() as u64, bi_blob.len());
	file.extend(bi_blob.as_slice());
	let mut h = FileHeader::new(&TileFormat::BIN, &TileCompression::Uncompressed, [1, 1], &GeoBBox(-180.0, -85.0, 180.0, 85.0))?;
	h.blocks_range = blocks_range;
	file[..66].copy_from_slice(h.to_blob()?.as_slice());
	let reader = versatiles_container::VersaTilesReader::open_reader(Box::new(versatiles_core::io::DataReaderBlob::from(Blob::from(file)))).await?;
	let r = reader.get_tile_data(&TileCoord3::new(0, 0, 1)?).await;
	println!("get_tile_data -> {}", match &r { Ok(Some(b)) => format!("Ok(Some({} bytes))", b.len()), Ok(None) => "Ok(None)".into(), Err(e) => format!("Err({e})") });
	Ok(false)
}

async fn pmtiles_entry_offset_overflow(_a: &[String]) -> Result<bool> {
	// C19: a directory entry whose offset is close to 2^64 must give an error on lookup, not a panic
	let d: Vec<u8> = vec![0x01, 0x00, 0x01, 0x01, 0xff, 0xff, 0xff, 0xff, 0xff, 0xff, 0xff, 0xff, 0xff, 0x01];   // id 0, run 1, length 1, offset code u64::MAX
	let mut f: Vec<u8> = Vec::new();
	f.extend(b"PMTiles"); f.push(3);
	let put64 = |f: &mut Vec<u8>, v: u64| f.extend(v.to_le_bytes());
	put64(&mut f, 127); put64(&mut f, d.len() as u64);
	put64(&mut f, 127 + d.len() as u64); put64(&mut f, 2);
	put64(&mut f, 0); put64(&mut f, 0);
	put64(&mut f, 129 + d.len() as u64); put64(&mut f, 1);
	put64(&mut f, 1); put64(&mut f, 1); put64(&mut f, 1);
	f.push(0); f.push(1); f.push(1); f.push(1); f.push(0); f.push(0);
	for _ in 0..4 { f.extend(0i32.to_le_bytes()); }
	f.push(0); f.extend(0i32.to_le_bytes()); f.extend(0i32.to_le_bytes());
	assert_eq!(f.len(), 127);
	f.extend(&d); f.extend(b"{}"); f.push(b'x');
	let reader = versatiles_container::PMTilesReader::open_reader(Box::new(versatiles_core::io::DataReaderBlob::from(Blob::from(f)))).await?;
	let r = reader.get_tile_data(&TileCoord3::new(0, 0, 0)?).await;
	println!("get_tile_data -> {}", match &r { Ok(Some(b)) => format!("Ok(Some({} bytes))", b.len()), Ok(None) => "Ok(None)".into(), Err(e) => format!("Err({e})") });
	Ok(false)
}

// D23: an MBTiles file whose `tiles` table holds a record with an extreme zoom level / column (arbitrary table content, C19):
// opening must end with a value or an error
fn mbtiles_extreme_values(a: &[String]) -> Result<bool> {
	let z: i64 = arg(a, 0); let c0: i64 = arg(a, 1); let c1: i64 = arg(a, 2);
	let dir = std::env::temp_dir().join(format!("verif_replay_mbtiles_{}", std::process::id()));
	std::fs::create_dir_all(&dir)?;
	let path = dir.join("t.mbtiles");
	let _ = std::fs::remove_file(&path);
	{
		let conn = r2d2_sqlite::rusqlite::Connection::open(&path)?;
		conn.execute_batch("CREATE TABLE metadata (name text, value text); CREATE TABLE tiles (zoom_level integer, tile_column integer, tile_row integer, tile_data blob);
			INSERT INTO metadata VALUES ('format', 'pbf');")?;
		conn.execute("INSERT INTO tiles VALUES (?1, ?2, 0, x'00')", [z, c0])?;
		conn.execute("INSERT INTO tiles VALUES (?1, ?2, 0, x'00')", [z, c1])?;
	}
	let r = std::panic::catch_unwind(|| versatiles_container::MBTilesReader::open_path(&path).map(|_| ()));
	let _ = std::fs::remove_dir_all(&dir);
	match r { Ok(_) => Ok(false), Err(_) => Ok(true) }
}

// C03/C16: a PMTiles file with ONE directory entry (tile_id, run_length) — every tile id of the run must lie inside the advertised coverage
async fn pmtiles_run_coverage(a: &[String]) -> Result<bool> {
	use versatiles_container::verif_hooks_pmtiles::tile_id_to_coord;
	let tile_id: u64 = arg(a, 0); let run: u64 = arg(a, 1);
	fn varint(mut v: u64, out: &mut Vec<u8>) { loop { let b = (v & 0x7f) as u8; v >>= 7; if v == 0 { out.push(b); break; } else { out.push(b | 0x80); } } }
	let mut d: Vec<u8> = Vec::new();
	varint(1, &mut d); varint(tile_id, &mut d); varint(run, &mut d); varint(1, &mut d); varint(1, &mut d);   // 1 entry: id, run, length 1, offset code 1 (= offset 0)
	let n = d.len() as u64;
	let mut f: Vec<u8> = Vec::new();
	f.extend(b"PMTiles"); f.push(3);
	let put64 = |f: &mut Vec<u8>, v: u64| f.extend(v.to_le_bytes());
	put64(&mut f, 127); put64(&mut f, n);          // root dir
	put64(&mut f, 127 + n); put64(&mut f, 2);      // metadata "{}"
	put64(&mut f, 129 + n); put64(&mut f, 0);      // leaf dirs (none)
	put64(&mut f, 129 + n); put64(&mut f, 1);      // tile data: one byte
	put64(&mut f, 0); put64(&mut f, 0); put64(&mut f, 0);
	f.push(0); f.push(1); f.push(1); f.push(1); f.push(0); f.push(0);
	for _ in 0..4 { f.extend(0i32.to_le_bytes()); }
	f.push(0); f.extend(0i32.to_le_bytes()); f.extend(0i32.to_le_bytes());
	assert_eq!(f.len(), 127);
	f.extend(&d); f.extend(b"{}"); f.push(0x2a);
	let reader = versatiles_core::io::DataReaderBlob::from(Blob::from(f));
	let r = versatiles_container::PMTilesReader::open_reader(Box::new(reader)).await?;
	use versatiles_core::types::TilesReaderTrait;
	let pyramid = r.get_parameters().bbox_pyramid.clone();
	for id in tile_id..tile_id + run {
		let c = tile_id_to_coord(id)?;
		if !pyramid.contains_coord(&c) { println!("tile id {id} = {c:?} of the run ({tile_id}, {run}) is outside the advertised coverage {pyramid:?}"); return Ok(true); }
	}
	Ok(false)
}
fn print_tile_ids(a: &[String]) -> Result<bool> {
	use versatiles_container::verif_hooks_pmtiles::tile_id_to_coord;
	let n: u64 = arg(a, 0);
	for id in 0..n { let c = tile_id_to_coord(id)?; print!("({}, {}, {}), ", c.z, c.x, c.y); }
	println!();
	Ok(false)
}

// D6 / C02: a versatiles container covering only part of a level; the stream of a box that reaches into 256-blocks the container
// does not have must finish and deliver exactly the lookups
#[derive(Debug)]
struct PartReader { parameters: TilesReaderParameters, tilejson: TileJSON }
#[async_trait]
impl TilesReaderTrait for PartReader {
	fn get_source_name(&self) -> &str { "part" }
	fn get_container_name(&self) -> &str { "replay" }
	fn get_parameters(&self) -> &TilesReaderParameters { &self.parameters }
	fn override_compression(&mut self, c: TileCompression) { self.parameters.tile_compression = c; }
	fn get_tilejson(&self) -> &TileJSON { &self.tilejson }
	async fn get_tile_data(&self, coord: &TileCoord3) -> Result<Option<Blob>> {
		Ok(if self.parameters.bbox_pyramid.contains_coord(coord) { Some(Blob::from(vec![coord.z, coord.x as u8, coord.y as u8, (coord.x >> 8) as u8, (coord.y >> 8) as u8])) } else { None })
	}
}
async fn versatiles_stream_beyond_coverage(a: &[String]) -> Result<bool> {
	use versatiles_container::{TilesWriterTrait, VersaTilesReader, VersaTilesWriter};
	// container: level 9, tiles [0,0,3,3] (one block); request: args x0 y0 x1 y1 at level 9
	let (x0, y0, x1, y1): (u32, u32, u32, u32) = (arg(a, 0), arg(a, 1), arg(a, 2), arg(a, 3));
	let mut pyramid = TileBBoxPyramid::new_empty();
	pyramid.set_level_bbox(TileBBox::new(9, 0, 0, 3, 3)?);
	let mut source = PartReader { parameters: TilesReaderParameters::new(TileFormat::BIN, TileCompression::Uncompressed, pyramid), tilejson: TileJSON::default() };
	let mut writer = versatiles_core::io::DataWriterBlob::new()?;
	VersaTilesWriter::write_to_writer(&mut source, &mut writer).await?;
	let reader = VersaTilesReader::open_reader(Box::new(writer.to_reader())).await?;
	let bbox = TileBBox::new(9, x0, y0, x1, y1)?;
	let mut expected = 0usize;
	for c in bbox.iter_coords() { if reader.get_tile_data(&c).await?.is_some() { expected += 1; } }
	let streamed = reader.get_bbox_tile_stream(bbox.clone()).await.collect().await;
	println!("box {bbox:?}: lookups deliver {expected} tiles, the stream {}", streamed.len());
	Ok(streamed.len() != expected)
}

// C19/C05: a single-tile lookup in an MBTiles file for a coordinate outside the grid of its level (as an HTTP request can name it)
async fn mbtiles_lookup_out_of_grid(a: &[String]) -> Result<bool> {
	let (z, x, y): (u8, u32, u32) = (arg(a, 0), arg(a, 1), arg(a, 2));
	let dir = std::env::temp_dir().join(format!("verif_replay_mbtiles2_{}", std::process::id()));
	std::fs::create_dir_all(&dir)?;
	let path = dir.join("t.mbtiles");
	let _ = std::fs::remove_file(&path);
	{
		let conn = r2d2_sqlite::rusqlite::Connection::open(&path)?;
		conn.execute_batch("CREATE TABLE metadata (name text, value text); CREATE TABLE tiles (zoom_level integer, tile_column integer, tile_row integer, tile_data blob);
			INSERT INTO metadata VALUES ('format', 'pbf'); INSERT INTO tiles VALUES (2, 1, 1, x'2a');")?;
	}
	let reader = versatiles_container::MBTilesReader::open_path(&path)?;
	let coord = TileCoord3::new(x, y, z)?;
	let r = reader.get_tile_data(&coord).await;
	let _ = std::fs::remove_dir_all(&dir);
	println!("get_tile_data({coord:?}) -> {:?}", r.map(|o| o.map(|b| b.len())));
	Ok(false)
}

// C19/C11: a vector tile whose feature refers to a key/value position beyond the tables (arbitrary bytes decode to this); filtering or
// mapping the layer's properties (what vectortiles_update_properties does with every tile of the named layer) must return an error
fn vector_tile_bad_tag_filter(a: &[String]) -> Result<bool> {
	let k: u8 = arg(a, 0);
	let feature: Vec<u8> = vec![0x12, 0x02, k, 0x00, 0x18, 0x01, 0x22, 0x03, 0x09, 0x02, 0x02];      // tags [k, 0]
	let mut layer: Vec<u8> = vec![0x0a, 0x01, b'l', 0x12, feature.len() as u8];
	layer.extend(&feature);
	layer.extend([0x1a, 0x01, b'a']);                      // keys: a
	layer.extend([0x22, 0x03, 0x0a, 0x01, b'x']);          // values: "x"
	let mut tile: Vec<u8> = vec![0x1a, layer.len() as u8];
	tile.extend(&layer);
	let mut vt0 = versatiles_geometry::vector_tile::VectorTile::from_blob(&Blob::from(tile.clone()))?;
	let mut vt = versatiles_geometry::vector_tile::VectorTile::from_blob(&Blob::from(tile))?;
	let r1 = vt0.layers[0].map_properties(|p| p);
	println!("map_properties -> {}", if r1.is_ok() { "Ok" } else { "Err" });
	let r2 = vt.layers[0].filter_map_properties(|p| Some(p));
	println!("filter_map_properties -> {}", if r2.is_ok() { "Ok" } else { "Err" });
	Ok(false)
}

fn main() -> Result<()> {
	let args: Vec<String> = std::env::args().skip(1).collect();
	if args.is_empty() { eprintln!("usage: verif_replay <case> args…"); std::process::exit(2); }
	let rt = tokio::runtime::Builder::new_current_thread().build()?;
	let rest = &args[1..];
	let r = std::panic::catch_unwind(|| -> Result<bool> {
		match args[0].as_str() {
			"converter_lookup_vs_stream" => rt.block_on(converter_lookup_vs_stream(rest)),
			"cache_just_used_survives" => cache_just_used_survives(rest),
			"pmtiles_dir_from_bytes" => pmtiles_dir_from_bytes(rest),
			"block_definition_from_bytes" => block_definition_from_bytes(rest),
			"vector_tile_dup_keys" => vector_tile_dup_keys(rest),
			"pmtiles_open_self_referential" => rt.block_on(pmtiles_open_self_referential(rest)),
			"versatiles_short_tile_index" => rt.block_on(versatiles_short_tile_index(rest)),
			"pmtiles_entry_offset_overflow" => rt.block_on(pmtiles_entry_offset_overflow(rest)),
			"svarint_roundtrip" => svarint_roundtrip(rest),
			"vector_tile_bad_tag_filter" => vector_tile_bad_tag_filter(rest),
			"mbtiles_lookup_out_of_grid" => rt.block_on(mbtiles_lookup_out_of_grid(rest)),
			"versatiles_stream_beyond_coverage" => rt.block_on(versatiles_stream_beyond_coverage(rest)),
			"pmtiles_run_coverage" => rt.block_on(pmtiles_run_coverage(rest)),
			"print_tile_ids" => print_tile_ids(rest),
			"mbtiles_extreme_values" => mbtiles_extreme_values(rest),
			"pbf_length_prefix" => pbf_length_prefix(rest),
			"vector_tile_from_bytes" => vector_tile_from_bytes(rest),
			"geo_bbox_nonempty" => geo_bbox_nonempty(rest),
			"filter_bbox_build" => rt.block_on(filter_bbox_build(rest)),
			"converter_lookup_total" => rt.block_on(converter_lookup_total(rest)),
			other => { eprintln!("unknown case {other}"); std::process::exit(2); }
		}
	});
	match r {
		Ok(Ok(true)) => { println!("CONFIRMED {}", args.join(" ")); std::process::exit(1); }
		Ok(Ok(false)) => { println!("NOT-CONFIRMED {}", args.join(" ")); Ok(()) }
		Ok(Err(e)) => { println!("ERROR-RETURNED {e:?}"); std::process::exit(3); }
		Err(_) => { println!("CONFIRMED (panic) {}", args.join(" ")); std::process::exit(1); }
	}
}
