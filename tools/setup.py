#!/usr/bin/env python3
"""setup: warm Verus (first run builds its cache) and check that the tools are present. Offline."""
import os, subprocess, sys, tempfile
d = tempfile.mkdtemp(prefix='verif-setup-', dir=os.path.expanduser('~'))
p = os.path.join(d, 'w.rs')
open(p, 'w').write('use vstd::prelude::*;\nverus!{ fn f(x: u32) -> (r: u32) requires x < 10 ensures r == x + 1 { x + 1 } }\nfn main(){}\n')
r = subprocess.run(['verus', p], capture_output=True, text=True, cwd=d)
print('verus warm-up:', r.stdout.strip().split('\n')[-1] if r.stdout else r.stderr[-300:])
import shutil; shutil.rmtree(d, ignore_errors=True)
r2 = subprocess.run(['cargo', 'kani', '--version'], capture_output=True, text=True)
print('kani:', (r2.stdout or r2.stderr).strip()[:80])
os.makedirs('/verif/work', exist_ok=True); os.makedirs('/verif/evidence', exist_ok=True)
sys.exit(0 if r.returncode == 0 else 1)
