#!/usr/bin/env python3
"""Run the repository's test suite (guard off) and compare with /root/.vp/BASELINE.json stable_pass."""
import json, re, subprocess, sys, os
repo = sys.argv[1] if len(sys.argv) > 1 else '/repo'
base = json.load(open('/root/.vp/BASELINE.json'))
stable = set(base['stable_pass'])
env = dict(os.environ); env['CARGO_NET_OFFLINE'] = 'true'
p = subprocess.run(['cargo', 'nextest', 'run', '--workspace', '--no-fail-fast', '--offline', '--test-threads', '8'],
                   cwd=repo, capture_output=True, text=True, env=env)
out = p.stdout + p.stderr
res = {}
for m in re.finditer(r'^\s*(PASS|FAIL|SIGABRT|SIGSEGV|TIMEOUT|LEAK)\s+\[[^\]]*\]\s+(?:\(\s*\d+/\d+\)\s+)?(\S+)\s+(\S+)\s*$', out, re.M):
    res[f'{m.group(2)}::{m.group(3)}'] = m.group(1)
missing = [t for t in stable if res.get(t) != 'PASS']
print(f'tests seen {len(res)}, stable_pass {len(stable)}, stable not passing {len(missing)}')
for t in sorted(missing)[:40]:
    print('  NOT-PASS', t, res.get(t))
if 'error: could not compile' in out or not res:
    print(out[-3000:])
sys.exit(1 if missing else 0)
