#!/usr/bin/env python3
"""developer helper: build + verify one Verus unit and print the failures (python3 tools/vunit.py <unit>)"""
import sys, os
sys.path.insert(0, os.path.dirname(os.path.dirname(os.path.abspath(__file__))))
from vlib import verus_runner
r = verus_runner.run_verus_unit(sys.argv[1])
print('status', r.status, 'verified', r.verified, 'errors', r.errors, 'wall', round(r.wall_s, 1), 'canary', r.canary_ok)
if r.reason:
    print('reason', r.reason[:6000])
for f in r.failures[:40]:
    print('FAIL', f.get('function'), '|', f.get('kind'), '|', (f.get('message') or '')[:200], '| line', f.get('line'))
    if len(sys.argv) > 2:
        print(f.get('rendered', '')[:1500])
print('generated', r.path)
