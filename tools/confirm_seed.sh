#!/bin/bash
# usage: tools/confirm_seed.sh <worktree> — confirm a seeded change: suite passes with it, demo fails with it and passes without
wt=$1
cd $wt || exit 2
cmd=$(cat seeded_out/demo_cmd.txt | sed 's/^cd [^&]*&& *//')
echo "== $wt : demo cmd: $cmd"
export CARGO_NET_OFFLINE=true
echo "-- baseline with change:"; python3 baseline_check.py $wt | tail -2
echo "-- demo with change (expect FAIL):"; (cd $wt && eval "$cmd" 2>&1 | grep -E "^test result|error: test failed|panicked" | head -4)
git stash -q -- $(git diff --name-only | grep -v seeded) 2>/dev/null || git stash -q
echo "-- demo without change (expect ok):"; (cd $wt && eval "$cmd" 2>&1 | grep -E "^test result|error: test failed" | head -4)
git stash pop -q
git status --short | head -5
