#!/usr/bin/env python3
"""Regenerate MANIFEST.json from vlib/props.py + the texts below (keeps the manifest valid and in sync)."""
import json, os, sys
sys.path.insert(0, os.path.dirname(os.path.dirname(os.path.abspath(__file__))))
from vlib.props import PROPS

TEXT = {
 'C15': ("Every TileBBox / TileCoord3 / TransformCoord function is verified by Verus against the set of tiles the box denotes (both empty encodings), for all inputs, with overflow checks; every TileBBoxPyramid method is verified by Kani over all 32 symbolic levels (complete: the loop bound is the constant MAX_ZOOM_LEVEL); geo->tile conversion by Kani with bit-precise floats on the x axis.",
         "Trusted: extraction rules R1-R9, u32::pow(2,e)=2^e, field-wise derives, usize=64bit, Verus/Z3, Kani/CBMC. Not decided: y-axis libm numerics; iter_coords/iter_bbox_grid are bounded harnesses only."),
 'C04': ("Verus proves, for the real bodies of compress/decompress/recompress/optimize_compression, TileConverter::{new_tile_recompressor,process_blob,...} and the converting reader, that the payload decoded with the declared output compression equals the payload decoded with the source compression for every (source, target, force) and every blob, relative to codec axioms.",
         "Trusted: flate2/brotli are inverse pairs (uninterpreted decoders), process_stream applies the pipeline per blob (C14), Arc erasure in TileConverter (R6). Writer metadata lines are not under contract."),
 'C05': ("Verus proves the negotiation core for all stored compressions x allowed sets x goals (the 72 cases) incl. payload equality, and that the converting reader's lookup is total for any (z,x,y) (no panic path from HTTP coordinates).",
         "Trusted: codec axioms. HTTP framing, header string matching, URL parsing and status mapping are not under contract (string/axum code outside both verifiers)."),
 'C06': ("Verus proves coverage, lookup and stream of TilesConvertReader against T = swap.flip from the property statement: the coordinate handed to the source is T^-1(c), the stream is exactly the lookups inside the box, advertised coverage = T(source coverage) /\\ requested; pyramid and box operations as in C15.",
         "Trusted: source contract (AbsSource), TileStream::map_coord maps pointwise, pyramid laws proved separately by Kani and assumed in the Verus unit, codec axioms. CLI string parsing not under contract."),
 'C08': ("Verus proves that the overlay lookup returns the tile of the first listed source that has one, re-encoded to the declared compression, for any number of sources and any coordinate; build declares the common compression or uncompressed and a coverage containing every source's coverage.",
         "The per-cell closure of get_tile_stream (lifted mechanically, rules R10/R11) is proved for every cell of at most 32 x 32 tiles: delivered tiles are exactly what the lookup predicate allows, every coordinate some source has is delivered, at most one tile per coordinate. Trusted: source contract, codec axioms, havoc of the join_all source construction (R9), for_each_sync visits each item once (R11), recompress does not fail inside the stream (A-overlay-1). Not decided: the split into iter_bbox_grid(32) cells and the concatenation of the cell streams."),
 'C09': ("Verus proves lookup and stream of filter_zoom and filter_bbox against 'source tile iff inside the retained coverage', that build narrows the coverage exactly by the zoom range / geographic box, that an invalid bbox is an Err at build (the unwrap inside intersect_geo_bbox is an obligation at the call site), and that chaining is intersection.",
         "Trusted: source contract, pyramid laws (Kani), Args::from_vpl_node returns arbitrary arguments, geo->tile conversion is total on checked boxes (Kani unit geo)."),
 'C02': ("Verus proves the inductive step: if the source's stream equals its lookups then so does the stage, for the converting reader (all four flag combinations), both filters and the overlay (per grid cell: the lifted per-cell closure of get_tile_stream against the same predicate as its lookup), including empty boxes and boxes beyond the coverage.",
         "Trusted: the source contract IS C02 for the source (assumed), TileStream stand-in (finite map), for_each_sync visits each item once. Leaf container readers, the overlay's cell split/concatenation and merge streams are not decided."),
 'C03': ("Verus proves include_coord/include_bbox are least upper bounds and that filters, overlay and converter advertise a coverage containing every tile they can return (given C03 of their sources); Kani proves the pyramid union/intersection laws over all 32 levels.",
         "MBTilesReader::get_bbox_pyramid is proved to cover every record of the table (estimate-then-refine MIN/MAX queries) relative to a literal translation table of its SQL snippets; the PMTiles directory walk covers every id of every run (Kani twin pmtiles_runs searches a counterexample when Verus cannot ingest a rewritten body). Trusted: source contract, the SQL snippet table (meaning of MIN/MAX ... WHERE), iter_levels/from_geo stand-ins. tar/directory file-name parsing is not under contract."),
}
TEXT['C20'] = ("Kani checks the inductive step on the real LimitedCache bodies: from an arbitrary cache state satisfying the invariant (size <= capacity, distinct keys, stamps bounded and distinct) one symbolic get / add / get_or_set re-establishes the invariant and satisfies the operation's postcondition over the whole view, and a just-used entry survives the next eviction; histories of any length follow. Bounded in capacity (HashMap stand-in CAP = 4), so labelled bounded, not proved.",
         "Trusted: array-backed HashMap stand-in (finite map), insertion-sort stub for sort_unstable, no stamp-counter overflow. Capacities above 4 not covered.")
TEXT['C01'] = ("Codec and addressing cores of versatiles and PMTiles: Kani proves (complete, fixed-size records) that the 66-byte versatiles header, the 33-byte block definition and the 127-byte PMTiles header are written at the published offsets and decode back to the same value, and the Hilbert tile-id mapping round-trips for every coordinate of every zoom level (one complete harness per zoom); Verus proves serialize_entries against the PMTiles column layout, EntriesV3::from_blob against the decoding rules of the same layout, and - as lemmas over the two contracts, for directories of any length - that decoding what was serialized gives back every entry (directory codec round trip, incl. the LEB128 enc/dec inverse lemma); the varint encoder against LEB128, the tile index / block index codecs and the tile-index <-> coordinate conversions of a block.",
         "Writers: VersaTilesWriter::write_block (every streamed tile is addressed by the index entry at its row-major position; de-duplication), PMTilesWriter::write_to_writer (section layout without overlap; every directory entry addresses a source tile under its Hilbert id), MBTilesWriter::add_tiles (TMS row). Readers: the PMTiles single-tile lookup equals the specification's lookup (pm_lookup), MBTiles coverage / lookup / box query against the table, the chunk grouping of the versatiles stream. Trusted: byte-I/O and writer stand-ins (cursor, endian integer codecs = byteorder, positional writer), SQL snippet table, extraction rules. Not decided: writer -> file -> reader as one theorem, write_blocks and header/meta writes, range reads and slicing of the versatiles stream, tar/directory, BlockIndex::as_blob.")
TEXT['C16'] = ("Readers against the published layouts, independent of this code's writers: Verus proves find_tile against the PMTiles lookup rule (greatest entry id <= tile id, run lengths, leaf fall-through) for ALL sorted directories; Verus proves EntriesV3::from_blob for ALL byte strings: an accepted directory is decoded by the column rules of the specification (running id sums, offset code 0 = previous offset + previous length), and every valid directory (complete varints, 64-bit ids/offsets, explicit first offset, <= 10^10 entries) is accepted; Kani re-checks the decoder against an independent decoder written from the spec (bounded: <= 2 entries; <= 4 entries in the thorough tier), the header decoders for all byte strings, partial block definitions (any sub-rectangle), and the Hilbert mapping against the specification's reference algorithm.",
         "The PMTiles lookup get_tile_data is proved equal to the specification's lookup (root, leaf pointers decompressed with the internal compression, <= 3 levels, tile bytes at tile_data.offset + entry.offset); MBTiles coverage is proved against the table content. Trusted: byte-I/O stand-ins, leaf cache rely/guarantee, SQL snippet table. Not decided: MBTiles tile queries and zoom gaps, tar, directory.")
TEXT['C19'] = ("Panic-freedom of the binary decoders under contract, for arbitrary bytes: Verus proves read_varint/read_svarint/read_pbf_key/get_sub_reader/get_pbf_sub_reader/read_pbf_packed_uint32/read_blob/read_string (no overflow, no out-of-bounds, bounded allocation, termination), find_tile, filter_bbox build validation and the converter lookup for any coordinate; Kani proves FileHeader::from_blob, BlockDefinition::from_blob, HeaderV3::deserialize for ALL byte strings; EntriesV3::from_blob, TileIndex/BlockIndex::from_blob, the vector-tile layer/feature/tile decoders and both single-tile lookups are proved total by Verus.",
         "Trusted: byte-I/O stand-ins, String::from_utf8. Not decided: JSON/CSV/VPL text parsers, vector-tile layer decoding, container opening around I/O.")
TEXT['C11'] = ("Claimed for the byte-level core only: Verus proves the real varint/zigzag/PBF-key/packed/length-prefixed readers and writers against the protobuf wire-format rules for all u64/i64 (encoder = LEB128 specification, decoder = 7-bit-group rule with continuation bits, zigzag bijection by bit-vector proof), and the key/value tables of a layer: push appends exactly one entry per record at the next position (positional fidelity, duplicates included), add de-duplicates to the first position, get/find are total.",
         "The operation itself (Runner::run): layers whose name is not the configured one are handed on exactly as decoded, in place and in order; the per-feature step of filter_map_properties reports invalid tag ids as an error; feature, layer and tile encoders equal the MVT 2.1 wire layout; layer and tile decoders are total. Trusted: byte-I/O stand-ins, HashMap via vstd's specification (obeys_key_model), T::clone returns an equal value, BTreeMap stand-in. Not decided: what the property callback computes (CSV join), value typing, the composition from_blob(to_blob(t)) = t.")
TEXT['C10'] = ("Claimed for the re-indexing core and the lookup of the operation: Verus proves that VectorTileLayer::add_from_layer appends every feature of the added layer in order with its id, geometry type and geometry bytes, that the property set its new tag ids denote in the receiving layer's tables equals the set the old ids denoted in the source layer's tables (PropertyManager::encode_tag_ids / decode_tag_ids against the MVT 2.1 section 4.4 reading of tag ids), and that the features already present keep theirs (tables only grow at the end); that merge_tiles produces one layer per distinct layer name, each the first source layer of that name with every later one added in source order; and that from_vectortiles_merged::get_tile_data yields a tile exactly when some source has one, merging the source tiles decoded with their source's compression in source order, declared uncompressed.",
         "Trusted: BTreeMap stand-in (finite map; into_iter yields every pair once), derive(Clone) field-wise, A-merge-1 (tables have fewer than 2^30 entries), source contract, codec axioms. Not decided: the order of the layers in the output, the stream path, VectorTile to_blob/from_blob composition.")
NA = {
 'C07': 'std::path / OS path resolution semantics decide the property; no contract on repository code can express it (Kani probe through real std::path timed out) — DESIGN §5',
 'C12': 'quantifies over crash points of an I/O sequence inside async closures; no function contract reaches it — DESIGN §5',
 'C13': 'quantifies over thread schedules and the kernel file offset; Kani has no threads, code does not use Verus permission types — DESIGN §5',
 'C14': 'quantifies over completion orders of tokio tasks inside futures combinators — DESIGN §5',
 'C17': 'String/char/fmt/float-formatting code: Verus has no str theory, Kani single-char probe timed out — DESIGN §5',
 'C18': 'nom parser combinators: semantics lives in the library, not in function bodies that can carry contracts — DESIGN §5',
}
EXTRA_TEXT = {}
try:
    from tools.manifest_texts import TEXT as T2, NA as NA2
    TEXT.update(T2); NA.update(NA2)
except Exception:
    pass

claimed = sorted(PROPS.keys())
checks = []
for p in claimed:
    t, note = TEXT[p]
    cfg = PROPS[p]
    eng = []
    if cfg.get('verus'): eng.append('verus')
    if cfg.get('kani'): eng.append('kani')
    tech = ' + '.join(['contract-based deductive verification (Verus/Z3)'] * bool(cfg.get('verus')) + ['Kani/CBMC harness-level contracts (complete where loops are closed by a constant; else labelled bounded)'] * bool(cfg.get('kani'))) + ' on functions extracted mechanically from /repo on every run'
    checks.append({
        'property_id': p,
        'quick_cmd': f'python3 check.py {p} --tier quick',
        'thorough_cmd': f'python3 check.py {p} --tier thorough',
        'evidence_file': f'/verif/evidence/{p}.json',
        'replay_cmd_template': f'python3 check.py {p} --replay {{path}}',
        'engine': '+'.join(eng),
        'level_claimed': {'category': cfg.get('level', 'proof'), 'text': t, 'design_ref': f'DESIGN.md §3 {p}'},
        'level_note': note,
        'technique': tech,
    })
m = {
 'version': 1,
 'setup_cmd': 'python3 tools/setup.py',
 'hooks': {
  'guard': 'versatiles_verif',
  'enable': 'the proofs need no hook (function text is extracted from /repo\'s working tree on every run). The counterexample-replay crate /verif/replay builds the real crates with RUSTFLAGS --cfg versatiles_verif (set in /verif/replay/.cargo/config.toml), which enables the guarded re-exports verif_hooks_pmtiles / verif_hooks_versatiles in versatiles_container/src/container/{pmtiles,versatiles}/mod.rs (plus an unexpected_cfgs lint entry in versatiles_container/Cargo.toml)',
  'baseline_off_cmd': 'python3 /verif/tools/baseline_check.py /repo',
  'source_commits': ['35fee977e1c5d65f61c93069740524f935915cb3'],
  'add_only': True,
 },
 'engines': [
  {'name': 'verus', 'path': '/usr/local/bin/verus', 'serves_properties': [p for p in claimed if PROPS[p].get('verus')], 'kind_free_text': 'deductive verifier (SMT, modular, unbounded) run on functions extracted mechanically from /repo with injected contracts'},
  {'name': 'kani', 'path': '/root/.cargo/bin/cargo-kani', 'serves_properties': [p for p in claimed if PROPS[p].get('kani')], 'kind_free_text': 'bit-precise model checker (CBMC) used for harness-level contracts on extracted text: complete when every loop is closed by a constant of the type, otherwise labelled bounded'},
 ],
 'checks': checks,
 'notes': 'See DESIGN.md. exit 2 = undecided (anchor lost, unsupported construct, resource limit), never an alarm. known_findings.txt lists fixed defects and known findings.',
 'not_applicable': [{'property_id': k, 'reason': v} for k, v in sorted(NA.items()) if k not in PROPS],
}
json.dump(m, open(os.path.join(os.path.dirname(os.path.dirname(os.path.abspath(__file__))), 'MANIFEST.json'), 'w'), indent=1)
print('claimed', claimed, 'n/a', [x['property_id'] for x in m['not_applicable']])
