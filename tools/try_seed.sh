#!/bin/bash
# usage: tools/try_seed.sh <patch.diff> <prop> [<prop>...]   — apply a seeded change to /repo, run the quick checks, undo
set -u
patch=$1; shift
cd /repo || exit 2
if ! git diff --quiet; then echo "/repo has uncommitted changes"; exit 2; fi
git apply "$patch" || { echo "patch does not apply"; exit 2; }
cd /verif
for p in "$@"; do
  echo "=== $p"; python3 check.py $p --tier ${TIER:-quick} | tail -8; echo "exit=${PIPESTATUS[0]}"
done
git -C /repo checkout -- .
git -C /repo status --short | head -3
