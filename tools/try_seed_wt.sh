#!/bin/bash
# usage: tools/try_seed_wt.sh <worktree with the change applied> <prop> [<prop>...] — run the quick checks against a scratch worktree
# without touching /repo, /verif/work or /verif/evidence (for use while other checks are running)
wt=$1; shift
export VERIF_REPO=$wt VERIF_WORK=/tmp/vwork_seed VERIF_EVIDENCE_DIR=/tmp/vwork_seed/evidence
mkdir -p $VERIF_WORK
cd /verif
for p in "$@"; do
  echo "=== $p"; python3 check.py $p --tier ${TIER:-quick} | tail -6; echo "exit=${PIPESTATUS[0]}"
done
