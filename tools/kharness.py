#!/usr/bin/env python3
"""developer helper: build a Kani unit and run the named harnesses (python3 tools/kharness.py <unit> <harness>... [--jobs N])"""
import sys, os
sys.path.insert(0, os.path.dirname(os.path.dirname(os.path.abspath(__file__))))
from vlib import kani_runner
args = [a for a in sys.argv[1:] if not a.startswith('--')]
jobs = 2
for a in sys.argv[1:]:
    if a.startswith('--jobs='):
        jobs = int(a.split('=')[1])
ku = kani_runner.build_kani_unit(args[0])
print('build', getattr(ku, 'status', None), getattr(ku, 'reason', ''), [h.name for h in ku.harnesses])
hs = [h for h in ku.harnesses if h.name in args[1:]]
res = kani_runner.run_harnesses(ku, hs, jobs=jobs)
for h in hs:
    print(h.name, h.kind, getattr(h, 'status', None), round(getattr(h, "time_s", 0)), getattr(h, "detail", ""))
