// unit pmtiles_dir_dec — PMTiles v3 directory decoder EntriesV3::from_blob against the column layout of the PMTiles v3
// specification ("Directories": number of entries, then the columns tile-id deltas, run lengths, lengths, offset codes, each a
// varint; offset code 0 = "directly after the previous entry", otherwise offset + 1) (C16, C01, C19)
use vstd::prelude::*;
verus! {
//@include common/prelude.vrs
//@include common/byte_io.vrs
//@include common/pbf_spec.vrs
//@include common/pbf_blob.vrs
//@include common/pbf_reader.vrs
//@include common/varint_lemmas.vrs

#[derive(Clone, Copy, PartialEq, Eq, Debug, Structural)]
//@extract struct file="versatiles_core/src/types/byte_range.rs" name="ByteRange"
//@end
#[derive(Clone, Copy, PartialEq, Eq, Debug, Structural)]
//@extract struct file="versatiles_container/src/container/pmtiles/types/entry_v3.rs" name="EntryV3"
//@end
//@extract struct file="versatiles_container/src/container/pmtiles/types/entries_v3.rs" name="EntriesV3"
//@end
impl ValueReaderSlice {
	// ValueReaderSlice::new_le(blob.as_slice()): a reader over the blob's bytes, positioned at 0
	#[verifier::external_body]
	pub fn new_le_from(blob: &Blob) -> (r: ValueReaderSlice) ensures r.wf(), r.cursor.pos == 0, r.cursor.data@ == blob@, r.len == blob@.len() { unimplemented!() }
}

// ---- the layout, written from the PMTiles v3 specification, independent of this code ---------------------------------------
// position of the k-th varint of the directory (the 0-th is the number of entries)
pub open spec fn vpos(d: Seq<u8>, k: int) -> int decreases k {
	if k <= 0 { 0 } else { vpos(d, k - 1) + vlen(d, vpos(d, k - 1)) }
}
// value of the k-th varint
pub open spec fn vval(d: Seq<u8>, k: int) -> u64 { dec_groups(d, vpos(d, k), vlen(d, vpos(d, k)) as nat) }
pub open spec fn dir_n(d: Seq<u8>) -> int { vval(d, 0) as int }
// column 1: tile ids are the running sum of the deltas
pub open spec fn dir_id(d: Seq<u8>, i: int) -> int decreases i + 1 {
	if i < 0 { 0 } else { dir_id(d, i - 1) + vval(d, 1 + i) }
}
// column 2: run lengths (32 bit in this implementation: the stored varint is truncated)
pub open spec fn dir_run(d: Seq<u8>, i: int) -> u32 { vval(d, 1 + dir_n(d) + i) as u32 }
// column 3: lengths
pub open spec fn dir_len(d: Seq<u8>, i: int) -> u64 { vval(d, 1 + 2 * dir_n(d) + i) }
// column 4: offsets; code 0 (not for the first entry) = previous offset + previous length, else code - 1
pub open spec fn dir_off(d: Seq<u8>, i: int) -> int decreases i + 1 {
	if i < 0 { 0 } else {
		let c = vval(d, 1 + 3 * dir_n(d) + i);
		if i > 0 && c == 0 { dir_off(d, i - 1) + dir_len(d, i - 1) } else { c - 1 }
	}
}
pub open spec fn is_dir_entry(d: Seq<u8>, e: EntryV3, i: int) -> bool {
	e.tile_id == dir_id(d, i) && e.run_length == dir_run(d, i) && e.range.length == dir_len(d, i) && e.range.offset == dir_off(d, i)
}

// a directory this reader has to accept: all 4n + 1 varints are complete (at most 10 bytes each), tile ids and offsets stay
// within 64 bit, the first entry carries an explicit offset; n <= 10^10 is this implementation's stated limit
pub open spec fn dir_valid(d: Seq<u8>) -> bool {
	let n = dir_n(d);
	vfits(d, 0, 10) && n <= 10_000_000_000
	&& (forall|k: int| 0 <= k < 4 * n + 1 ==> vfits(d, #[trigger] vpos(d, k), 10))
	&& (forall|i: int| 0 <= i < n ==> (#[trigger] dir_id(d, i)) <= u64::MAX)
	&& (forall|i: int| 0 <= i < n ==> 0 <= (#[trigger] dir_off(d, i)) <= u64::MAX)
}
// a varint read that consumed k bytes (all but the last with the continuation bit) consumed exactly vlen bytes
pub proof fn lemma_vlen(d: Seq<u8>, p: int, k: int)
	requires 0 <= p, 1 <= k, p + k <= d.len(), d[p + k - 1] & 0x80 == 0, forall|j: int| p <= j < p + k - 1 ==> (#[trigger] d[j]) & 0x80 != 0
	ensures vlen(d, p) == k
	decreases k
{
	if k > 1 { lemma_vlen(d, p + 1, k - 1); }
}
pub proof fn lemma_vpos_step(d: Seq<u8>, k: int)
	requires k >= 0
	ensures vpos(d, k + 1) == vpos(d, k) + vlen(d, vpos(d, k))
{ }


// ---- round trip: the reader's decoding rules invert the writer's column layout (lemmas over the two contracts) -------------------
//@include common/pmtiles_dir_spec.vrs
// the concatenated varints of the first k values
pub open spec fn cat(vals: Seq<nat>, k: int) -> Seq<u8> decreases k { if k <= 0 { Seq::empty() } else { cat(vals, k - 1) + enc(vals[k - 1]) } }
pub proof fn lemma_cat_prefix(vals: Seq<nat>, k: int, m: int)
	requires 0 <= k <= m
	ensures cat(vals, k).len() <= cat(vals, m).len(), forall|j: int| 0 <= j < cat(vals, k).len() ==> cat(vals, m)[j] == cat(vals, k)[j]
	decreases m - k
{ if k < m { lemma_cat_prefix(vals, k, m - 1); } }
// parsing a byte string that starts with cat(vals, m): the k-th varint sits at offset |cat(vals, k)| and carries vals[k]
pub proof fn lemma_cat_parse(d: Seq<u8>, vals: Seq<nat>, m: int, k: int)
	requires 0 <= k <= m <= vals.len(), cat(vals, m).len() <= d.len(), forall|j: int| 0 <= j < cat(vals, m).len() ==> d[j] == cat(vals, m)[j],
		forall|i: int| 0 <= i < m ==> (#[trigger] vals[i]) <= u64::MAX,
	ensures vpos(d, k) == cat(vals, k).len(), k < m ==> vfits(d, vpos(d, k), 10) && vval(d, k) == vals[k]
	decreases k
{
	if k > 0 { lemma_cat_parse(d, vals, m, k - 1); }
	if k < m {
		let p = cat(vals, k).len() as int;
		lemma_cat_prefix(vals, k + 1, m);
		assert(cat(vals, k + 1) == cat(vals, k) + enc(vals[k]));
		assert forall|j: int| 0 <= j < enc(vals[k]).len() implies d[p + j] == #[trigger] enc(vals[k])[j] by {
			assert(cat(vals, k + 1)[p + j] == enc(vals[k])[j]);
		}
		if k > 0 {
			// the position of varint k follows from varint k - 1
			let q = cat(vals, k - 1).len() as int;
			lemma_cat_prefix(vals, k, m);
			assert(cat(vals, k) == cat(vals, k - 1) + enc(vals[k - 1]));
			assert forall|j: int| 0 <= j < enc(vals[k - 1]).len() implies d[q + j] == #[trigger] enc(vals[k - 1])[j] by { assert(cat(vals, k)[q + j] == enc(vals[k - 1])[j]); }
			lemma_varint_at_u64(d, q, vals[k - 1]);
		}
		lemma_varint_at_u64(d, p, vals[k]);
	} else if k > 0 {
		let q = cat(vals, k - 1).len() as int;
		assert(cat(vals, k) == cat(vals, k - 1) + enc(vals[k - 1]));
		assert forall|j: int| 0 <= j < enc(vals[k - 1]).len() implies d[q + j] == #[trigger] enc(vals[k - 1])[j] by { assert(cat(vals, k)[q + j] == enc(vals[k - 1])[j]); }
		lemma_varint_at_u64(d, q, vals[k - 1]);
	}
}

// the 4n + 1 values the writer's layout stores, in order
pub open spec fn dir_vals(s: Seq<EntryV3>) -> Seq<nat> {
	let n = s.len() as int;
	Seq::new((4 * n + 1) as nat, |k: int|
		if k == 0 { n as nat }
		else if k <= n { (s[k - 1].tile_id - (if k >= 2 { s[k - 2].tile_id } else { 0 })) as nat }
		else if k <= 2 * n { s[k - n - 1].run_length as nat }
		else if k <= 3 * n { s[k - 2 * n - 1].range.length as nat }
		else { off_code(s, k - 3 * n - 1) })
}
pub proof fn lemma_col_ids(s: Seq<EntryV3>, k: int)
	requires 0 <= k <= s.len()
	ensures cat(dir_vals(s), 1 + k) =~= enc(s.len()) + col_ids(s, k)
	decreases k
{
	let vals = dir_vals(s);
	if k == 0 { assert(cat(vals, 1) == cat(vals, 0) + enc(vals[0])); assert(cat(vals, 0) =~= Seq::<u8>::empty()); }
	else { lemma_col_ids(s, k - 1); assert(cat(vals, 1 + k) == cat(vals, k) + enc(vals[k])); }
}
pub proof fn lemma_col_runs(s: Seq<EntryV3>, k: int)
	requires 0 <= k <= s.len()
	ensures cat(dir_vals(s), 1 + s.len() + k) =~= enc(s.len()) + col_ids(s, s.len() as int) + col_runs(s, k)
	decreases k
{
	let vals = dir_vals(s); let n = s.len() as int;
	if k == 0 { lemma_col_ids(s, n); }
	else { lemma_col_runs(s, k - 1); assert(cat(vals, 1 + n + k) == cat(vals, n + k) + enc(vals[n + k])); }
}
pub proof fn lemma_col_lens(s: Seq<EntryV3>, k: int)
	requires 0 <= k <= s.len()
	ensures cat(dir_vals(s), 1 + 2 * s.len() + k) =~= enc(s.len()) + col_ids(s, s.len() as int) + col_runs(s, s.len() as int) + col_lens(s, k)
	decreases k
{
	let vals = dir_vals(s); let n = s.len() as int;
	if k == 0 { lemma_col_runs(s, n); }
	else { lemma_col_lens(s, k - 1); assert(cat(vals, 1 + 2 * n + k) == cat(vals, 2 * n + k) + enc(vals[2 * n + k])); }
}
pub proof fn lemma_col_offs(s: Seq<EntryV3>, k: int)
	requires 0 <= k <= s.len()
	ensures cat(dir_vals(s), 1 + 3 * s.len() + k) =~= enc(s.len()) + col_ids(s, s.len() as int) + col_runs(s, s.len() as int) + col_lens(s, s.len() as int) + col_offs(s, k)
	decreases k
{
	let vals = dir_vals(s); let n = s.len() as int;
	if k == 0 { lemma_col_lens(s, n); }
	else { lemma_col_offs(s, k - 1); assert(cat(vals, 1 + 3 * n + k) == cat(vals, 3 * n + k) + enc(vals[3 * n + k])); }
}
pub open spec fn dir_writable(s: Seq<EntryV3>) -> bool { s.len() <= 10_000_000_000 && sorted(s) && ranges_ok(s) }
pub proof fn lemma_dir_parse(s: Seq<EntryV3>, k: int)
	requires dir_writable(s), 0 <= k < 4 * s.len() + 1
	ensures vfits(directory_bytes(s), vpos(directory_bytes(s), k), 10), vval(directory_bytes(s), k) == dir_vals(s)[k]
{
	let n = s.len() as int; let vals = dir_vals(s); let d = directory_bytes(s);
	lemma_col_offs(s, n);
	assert(d =~= cat(vals, 4 * n + 1));
	assert forall|i: int| 0 <= i < 4 * n + 1 implies (#[trigger] vals[i]) <= u64::MAX by {
		if 1 <= i <= n && i >= 2 { assert(s[i - 2].tile_id <= s[i - 1].tile_id); }
	}
	lemma_cat_parse(d, vals, 4 * n + 1, k);
}
pub proof fn lemma_dir_ids(s: Seq<EntryV3>, i: int)
	requires dir_writable(s), -1 <= i < s.len()
	ensures dir_id(directory_bytes(s), i) == (if i >= 0 { s[i].tile_id as int } else { 0 })
	decreases i + 1
{
	if i >= 0 { lemma_dir_ids(s, i - 1); lemma_dir_parse(s, 1 + i); if i >= 1 { assert(s[i - 1].tile_id <= s[i].tile_id); } }
}
pub proof fn lemma_dir_offs(s: Seq<EntryV3>, i: int)
	requires dir_writable(s), 0 <= i < s.len()
	ensures dir_off(directory_bytes(s), i) == s[i].range.offset, dir_len(directory_bytes(s), i) == s[i].range.length, dir_n(directory_bytes(s)) == s.len()
	decreases i
{
	let n = s.len() as int;
	lemma_dir_parse(s, 0);
	lemma_dir_parse(s, 1 + 2 * n + i);
	lemma_dir_parse(s, 1 + 3 * n + i);
	if i > 0 { lemma_dir_offs(s, i - 1); }
}
// round trip of the directory codec: what serialize_entries writes (directory_bytes, proved in unit pmtiles_dir) is a valid directory
// for from_blob, and the decoding rules give back every entry field for field
pub proof fn lemma_dir_roundtrip(s: Seq<EntryV3>)
	requires dir_writable(s)
	ensures dir_valid(directory_bytes(s)), dir_n(directory_bytes(s)) == s.len(),
		forall|i: int| 0 <= i < s.len() ==> is_dir_entry(directory_bytes(s), #[trigger] s[i], i),
{
	let n = s.len() as int; let d = directory_bytes(s);
	lemma_dir_parse(s, 0);
	assert(vpos(d, 0) == 0);
	assert forall|k: int| 0 <= k < 4 * n + 1 implies vfits(d, #[trigger] vpos(d, k), 10) by { lemma_dir_parse(s, k); }
	assert forall|i: int| 0 <= i < n implies is_dir_entry(d, #[trigger] s[i], i) by { lemma_dir_ids(s, i); lemma_dir_offs(s, i); lemma_dir_parse(s, 1 + n + i); }
	assert forall|i: int| 0 <= i < n implies (#[trigger] dir_id(d, i)) <= u64::MAX by { lemma_dir_ids(s, i); }
	assert forall|i: int| 0 <= i < n implies 0 <= (#[trigger] dir_off(d, i)) <= u64::MAX by { lemma_dir_offs(s, i); }
}
// corollary: whatever from_blob returns for the bytes serialize_entries wrote (it cannot be Err: dir_valid) is the sequence that was written
pub proof fn lemma_dir_roundtrip_result(s: Seq<EntryV3>, r: Seq<EntryV3>)
	requires dir_writable(s), r.len() == dir_n(directory_bytes(s)), forall|i: int| 0 <= i < r.len() ==> is_dir_entry(directory_bytes(s), #[trigger] r[i], i)
	ensures r =~= s
{
	lemma_dir_roundtrip(s);
	assert forall|i: int| 0 <= i < s.len() implies r[i] == s[i] by { assert(is_dir_entry(directory_bytes(s), s[i], i)); assert(is_dir_entry(directory_bytes(s), r[i], i)); }
}
impl ByteRange {
//@extract fn file="versatiles_core/src/types/byte_range.rs" scope="impl ByteRange" name="empty"
//@ret r
//@spec
		ensures r.offset == 0, r.length == 0
//@end
}
impl EntryV3 {
//@extract fn file="versatiles_container/src/container/pmtiles/types/entry_v3.rs" scope="impl EntryV3" name="new"
//@ret r
//@spec
		ensures r.tile_id == tile_id, r.range == range, r.run_length == run_length
//@end
}
impl EntriesV3 {
//@extract fn file="versatiles_container/src/container/pmtiles/types/entries_v3.rs" scope="impl EntriesV3" name="from_blob"
//@rewrite "ValueReaderSlice::new_le(data.as_slice())" => "ValueReaderSlice::new_le_from(data)" R7
//@rewrite "for entry in entries.iter_mut() { entry.run_length =" => "for vi in 0..entries.len() { entries[vi].run_length =" R7
//@rewrite "for entry in entries.iter_mut() { entry.range.length =" => "for vi in 0..entries.len() { entries[vi].range.length =" R7
//@ret r
//@spec
		// total on arbitrary bytes (C19); every accepted directory is decoded by the column rules of the specification (C16, C01)
		ensures r is Ok ==> r.unwrap().entries@.len() == dir_n(data@)
			&& forall|i: int| 0 <= i < r.unwrap().entries@.len() ==> is_dir_entry(data@, #[trigger] r.unwrap().entries@[i], i),
			// every valid directory is accepted
			r is Err ==> !dir_valid(data@),
//@at "let num_entries ="
		let ghost d = data@;
//@after "let num_entries = reader.read_varint()? as usize;"
		proof { lemma_vlen(d, 0, reader.cursor.pos as int); assert(vpos(d, 1) == vpos(d, 0) + vlen(d, vpos(d, 0))); assert(num_entries == dir_n(d)); }
//@loop 1 iter=it
			invariant reader.wf(), reader.cursor.data@ == d, d == data@, num_entries == dir_n(d),
				entries@.len() == it.index@, it.index@ <= num_entries,
				reader.cursor.pos == vpos(d, 1 + it.index@),
				last_id == dir_id(d, it.index@ - 1),
				forall|j: int| 0 <= j < entries@.len() ==> (#[trigger] entries@[j]).tile_id == dir_id(d, j),
//@loopstart 1
			let ghost p = reader.cursor.pos as int;
			let ghost k0 = entries@.len() as int;
//@after "let diff = reader.read_varint()?;"
			proof { lemma_vlen(d, p, reader.cursor.pos - p); lemma_vpos_step(d, 1 + k0); assert(diff == vval(d, 1 + k0)); assert(dir_id(d, k0) == last_id + diff); }
//@loop 2 iter=it
			invariant it.iter.end == num_entries, reader.wf(), reader.cursor.data@ == d, d == data@, num_entries == dir_n(d), entries@.len() == num_entries, vi <= num_entries,
				reader.cursor.pos == vpos(d, 1 + num_entries + vi),
				forall|j: int| 0 <= j < entries@.len() ==> (#[trigger] entries@[j]).tile_id == dir_id(d, j),
				forall|j: int| 0 <= j < vi ==> (#[trigger] entries@[j]).run_length == dir_run(d, j),
//@loopstart 2
			let ghost p = reader.cursor.pos as int;
//@loopend 2
			proof { lemma_vlen(d, p, reader.cursor.pos - p); lemma_vpos_step(d, 1 + num_entries + vi); }
//@loop 3 iter=it
			invariant it.iter.end == num_entries, reader.wf(), reader.cursor.data@ == d, d == data@, num_entries == dir_n(d), entries@.len() == num_entries, vi <= num_entries,
				reader.cursor.pos == vpos(d, 1 + 2 * num_entries + vi),
				forall|j: int| 0 <= j < entries@.len() ==> (#[trigger] entries@[j]).tile_id == dir_id(d, j) && entries@[j].run_length == dir_run(d, j),
				forall|j: int| 0 <= j < vi ==> (#[trigger] entries@[j]).range.length == dir_len(d, j),
//@loopstart 3
			let ghost p = reader.cursor.pos as int;
//@loopend 3
			proof { lemma_vlen(d, p, reader.cursor.pos - p); lemma_vpos_step(d, 1 + 2 * num_entries + vi); }
//@loop 4
			invariant reader.wf(), reader.cursor.data@ == d, d == data@, num_entries == dir_n(d), entries@.len() == num_entries, i <= num_entries,
				reader.cursor.pos == vpos(d, 1 + 3 * num_entries + i),
				forall|j: int| 0 <= j < entries@.len() ==> (#[trigger] entries@[j]).tile_id == dir_id(d, j) && entries@[j].run_length == dir_run(d, j) && entries@[j].range.length == dir_len(d, j),
				forall|j: int| 0 <= j < i ==> (#[trigger] entries@[j]).range.offset == dir_off(d, j),
//@loopstart 4
			let ghost p = reader.cursor.pos as int;
//@after "let tmp = reader.read_varint()?;"
			proof { lemma_vlen(d, p, reader.cursor.pos - p); lemma_vpos_step(d, 1 + 3 * num_entries + i); assert(tmp == vval(d, 1 + 3 * num_entries + i));
				if i > 0 && tmp == 0 { assert(dir_off(d, i as int) == entries@[i - 1].range.offset + entries@[i - 1].range.length); } else { assert(dir_off(d, i as int) == tmp - 1); } }
//@end
}
} // verus!
fn main() {}
