// unit zigzag (Kani, complete: loop-free, full 64-bit domain) — the real text of ValueReader::read_svarint and
// ValueWriter::write_svarint (protobuf sint64 zigzag coding) over a one-value stand-in for the varint layer (the varint loop itself is
// under contract in the Verus units that include common/pbf_reader.vrs / pbf_writer.vrs). It is at the same time the Kani twin of the
// Verus obligations `*::read_svarint` / `*::write_svarint`: when a rewritten body loses the Verus proof hint, this harness still decides
// the contract and supplies the failing value (C11: integer properties survive decode/re-encode; C19; C01).
#![allow(dead_code, unused_imports, unused_variables, unused_mut)]

#[derive(Debug, Clone, Copy, PartialEq, Eq)]
pub struct VErr;
pub fn verr() -> VErr { VErr }

// R6 stand-ins: the varint layer carries exactly one value
pub struct Rd { pub v: u64 }
pub struct Wr { pub out: Option<u64> }
impl Rd {
	pub fn read_varint(&mut self) -> Result<u64, VErr> { Ok(self.v) }
//@extract fn file="versatiles_core/src/io/value_reader.rs" scope="trait ValueReader<'a, E: ByteOrder + 'a>" name="read_svarint"
//@end
}
impl Wr {
	pub fn write_varint(&mut self, value: u64) -> Result<(), VErr> { self.out = Some(value); Ok(()) }
//@extract fn file="versatiles_core/src/io/value_writer.rs" scope="trait ValueWriter<E: ByteOrder>" name="write_svarint"
//@end
}

// protobuf encoding guide, "signed integers": n >= 0 -> 2n, n < 0 -> -2n - 1 (written without any shift, independent of the code)
pub fn spec_zig(i: i64) -> u64 { if i >= 0 { 2 * (i as u64) } else { 2 * ((-(i + 1)) as u64) + 1 } }
pub fn spec_unzig(v: u64) -> i64 { if v % 2 == 0 { (v / 2) as i64 } else { -1 - ((v / 2) as i64) } }

#[cfg(kani)]
mod proofs {
	use super::*;
	// harness: kind=complete why="loop-free; every u64 code" tier=quick props=C11,C19,C01 fn=ValueReader::read_svarint timeout=900 twin=varint_pbf::read_svarint,vector_tile_layer::read_svarint,vector_tile_layer_enc::read_svarint,vector_tile_merge::read_svarint,vector_tile_feature::read_svarint,pmtiles_dir_dec::read_svarint
	#[kani::proof]
	fn zigzag_decode_every_code() {
		let v: u64 = kani::any();
		let mut rd = Rd { v };
		assert!(rd.read_svarint() == Ok(spec_unzig(v)));
	}
	// harness: kind=complete why="loop-free; every i64 value" tier=quick props=C11,C19,C01 fn=ValueWriter::write_svarint,ValueReader::read_svarint timeout=900 twin=varint_pbf::write_svarint,vector_tile_layer_enc::write_svarint,vector_tile_merge::write_svarint,vector_tile_feature::write_svarint
	#[kani::proof]
	fn zigzag_encode_every_value_and_back() {
		let i: i64 = kani::any();
		let mut wr = Wr { out: None };
		assert!(wr.write_svarint(i) == Ok(()));
		assert!(wr.out == Some(spec_zig(i)));
		let mut rd = Rd { v: wr.out.unwrap() };
		assert!(rd.read_svarint() == Ok(i));
	}
	// harness: kind=canary expect=fail tier=quick props=C11,C19,C01 timeout=600
	#[kani::proof]
	fn zigzag_canary_must_fail() {
		let v: u64 = kani::any();
		let mut rd = Rd { v };
		assert!(rd.read_svarint() == Ok((v / 2) as i64));
	}
}
