// unit convert_cli — versatiles/src/tools/convert.rs::get_bbox_pyramid: CLI options -> requested pyramid (C06, C19)
// The split/filter/map/parse/collect chain that turns the --bbox string into numbers is havoc'd (R9): what follows is
// verified for EVERY vector of numbers, so the obligations at the real call sites (check before intersect_geo_bbox) are decided.
use vstd::prelude::*;
use std::mem::swap;
use std::ops::{Div, Rem};
verus! {
//@include common/prelude.vrs
//@include common/tile_bbox.vrs
//@include common/transform.vrs
//@include common/pbf_blob.vrs
//@include common/compression.vrs
//@include common/pyramid_abs.vrs
#[verifier::external_body] pub fn vhavoc<T>() -> T { unimplemented!() }

//@extract struct file="versatiles/src/tools/convert.rs" name="Subcommand"
//@end
// `GeoBBox::try_from(Vec<f64>)`: Err unless exactly 4 numbers (versatiles_core geo_bbox.rs)
//@extract fn file="versatiles_core/src/types/geo_bbox.rs" scope="impl TryFrom<Vec<f64>> for GeoBBox" name="try_from" as="geo_bbox_try_from"
//@rewrite "Result<Self, VErr>" => "Result<GeoBBox, VErr>"
//@ret r
//@spec
	ensures r is Ok <==> input@.len() == 4, r is Ok ==> r.unwrap() == GeoBBox(input@[0], input@[1], input@[2], input@[3])
//@end

//@extract fn file="versatiles/src/tools/convert.rs" scope="top" name="get_bbox_pyramid"
//@havoc "let values: Vec<f64> ="
//@rewrite "GeoBBox::try_from(values)" => "geo_bbox_try_from(values)" R7
//@ret r
//@spec
	ensures
		// no selection options: no restriction
		(arguments.min_zoom is None && arguments.max_zoom is None && arguments.bbox is None) ==> (r is Ok && r.unwrap() is None),
		// otherwise a well-formed pyramid restricted to the zoom range (and, with --bbox, to a VALID geographic box: an invalid
		// one is an Err here, never a panic inside intersect_geo_bbox)
		r is Ok && r.unwrap() is Some ==> r.unwrap().unwrap().wf()
			&& (forall|c: TileCoord3| #[trigger] r.unwrap().unwrap().has(c) ==> c.valid()
				&& (match arguments.min_zoom { Some(m) => c.z >= m, None => true }) && (match arguments.max_zoom { Some(m) => c.z <= m, None => true })),
		// without --bbox the selection is exactly the zoom range
		r is Ok && r.unwrap() is Some && arguments.bbox is None ==> (forall|c: TileCoord3| c.valid() ==> (#[trigger] r.unwrap().unwrap().has(c) <==>
				((match arguments.min_zoom { Some(m) => c.z >= m, None => true }) && (match arguments.max_zoom { Some(m) => c.z <= m, None => true })))),
//@at "if let Some(b) = arguments.bbox_border"
		let ghost before_border = bbox_pyramid;
//@at "Ok(Some(bbox_pyramid))"
	proof {
		assert forall|c: TileCoord3| #[trigger] bbox_pyramid.has(c) implies c.valid() by { bbox_pyramid.lemma_has_valid(c); }
		assert forall|c: TileCoord3| c.valid() implies pow2(c.z as nat) > c.x && pow2(c.z as nat) > c.y by { }
	}
//@end
} // verus!
fn main() {}
