// unit pyramid_real — the real TileBBoxPyramid ([TileBBox; 32]) methods whose loops Verus can ingest after literal loop rewrites,
// proved against the SAME per-level contracts that the Verus units of the pipeline stages assume in common/pyramid_abs.vrs
// (there: assumed and referred to the Kani unit `pyramid`; here: discharged for all inputs, unbounded) (C15, C03, C06, C09)
use vstd::prelude::*;
use std::mem::swap;
use std::ops::{Div, Rem};
verus! {
//@include common/prelude.vrs
//@include common/tile_bbox.vrs
//@include common/transform.vrs

//@extract struct file="versatiles_core/src/types/geo_bbox.rs" name="GeoBBox"
//@end
// `geo_valid(g)`: GeoBBox::check accepts g. `geo_box(g, z)`: the tile box TileBBox::from_geo(z, g) returns.
// Proved in the Kani unit `geo` for the real bodies: check(g) is Ok ==> from_geo(z, g) is Ok, well-formed, of level z, for every z <= 31.
pub uninterp spec fn geo_valid(g: GeoBBox) -> bool;
pub uninterp spec fn geo_box(g: GeoBBox, z: int) -> TileBBox;
impl TileBBox {
	#[verifier::external_body]
	pub fn from_geo(level: u8, bbox: &GeoBBox) -> (r: Result<TileBBox, VErr>)
		ensures (level <= 31 && geo_valid(*bbox)) ==> (r is Ok && r.unwrap() == geo_box(*bbox, level as int) && r.unwrap().wf() && r.unwrap().level == level)
	{ unimplemented!() }
}
//@extract const file="versatiles_core/src/types/tile_bbox_pyramid.rs" name="MAX_ZOOM_LEVEL"
//@end
//@extract struct file="versatiles_core/src/types/tile_bbox_pyramid.rs" name="TileBBoxPyramid"
//@end
impl TileBBoxPyramid {
	pub open spec fn level(&self, z: int) -> TileBBox { self.level_bbox@[z] }
	// (same predicate as in common/pyramid_abs.vrs; phrased over the array so that it triggers on element terms)
	pub open spec fn wf(&self) -> bool { forall|z: int| 0 <= z < 32 ==> (#[trigger] self.level_bbox@[z]).wf() && self.level_bbox@[z].level == z }
	pub open spec fn has(&self, c: TileCoord3) -> bool { c.z < 32 && self.level(c.z as int).has(c.x as int, c.y as int) }

//@extract fn file="versatiles_core/src/types/tile_bbox_pyramid.rs" scope="impl TileBBoxPyramid" name="intersect_geo_bbox"
//@rewrite "for (z, tile_bbox) in self.level_bbox.iter_mut().enumerate() { tile_bbox" => "for z in 0..self.level_bbox.len() { self.level_bbox[z]" R7 optional
//@spec
		requires old(self).wf(), geo_valid(*geo_bbox)
		ensures final(self).wf(), forall|z: int, x: int, y: int| #![trigger final(self).level(z).has(x, y)] 0 <= z < 32 ==> (final(self).level(z).has(x, y) <==> (old(self).level(z).has(x, y) && geo_box(*geo_bbox, z).has(x, y)))
//@loop 1
			invariant geo_valid(*geo_bbox),
				forall|k: int| 0 <= k < 32 ==> (#[trigger] self.level_bbox@[k]).wf() && self.level_bbox@[k].level == k,
				forall|k: int| z <= k < 32 ==> #[trigger] self.level_bbox@[k] == old(self).level_bbox@[k],
				forall|k: int, x: int, y: int| #![trigger self.level_bbox@[k].has(x, y)] 0 <= k < z ==> (self.level_bbox@[k].has(x, y) <==> (old(self).level_bbox@[k].has(x, y) && geo_box(*geo_bbox, k).has(x, y))),
//@end
//@extract fn file="versatiles_core/src/types/tile_bbox_pyramid.rs" scope="impl TileBBoxPyramid" name="add_border"
//@rewrite "for bbox in self.level_bbox.iter_mut() { bbox" => "for vi in 0..self.level_bbox.len() { self.level_bbox[vi]" R7 optional
//@spec
		requires old(self).wf()
		ensures final(self).wf(), forall|z: int, x: int, y: int| #![trigger final(self).level(z).has(x, y)] 0 <= z < 32 && old(self).level(z).has(x, y) ==> final(self).level(z).has(x, y),
			// an empty level stays empty
			forall|z: int, x: int, y: int| #![trigger final(self).level(z).has(x, y)] 0 <= z < 32 && final(self).level(z).has(x, y) ==> !old(self).level(z).empty(),
//@loop 1
			invariant
				forall|k: int| 0 <= k < 32 ==> (#[trigger] self.level_bbox@[k]).wf() && self.level_bbox@[k].level == k,
				forall|k: int| vi <= k < 32 ==> #[trigger] self.level_bbox@[k] == old(self).level_bbox@[k],
				forall|k: int, x: int, y: int| #![trigger self.level_bbox@[k].has(x, y)] 0 <= k < vi && old(self).level_bbox@[k].has(x, y) ==> self.level_bbox@[k].has(x, y),
				forall|k: int, x: int, y: int| #![trigger self.level_bbox@[k].has(x, y)] 0 <= k < vi && self.level_bbox@[k].has(x, y) ==> !old(self).level_bbox@[k].empty(),
//@end
//@extract fn file="versatiles_core/src/types/tile_bbox_pyramid.rs" scope="impl TileBBoxPyramid" name="get_level_bbox"
//@ret r
//@spec
		requires level < 32
		ensures *r == self.level(level as int)
//@end
//@extract fn file="versatiles_core/src/types/tile_bbox_pyramid.rs" scope="impl TileBBoxPyramid" name="intersect"
//@rewrite "for (level, bbox) in self.level_bbox.iter_mut().enumerate() {" => "for level in 0..self.level_bbox.len() {" R7 optional
//@rewrite "bbox.intersect_bbox(other_bbox).unwrap();" => "self.level_bbox[level].intersect_bbox(other_bbox).unwrap();" R7 optional
//@spec
		requires old(self).wf(), other_bbox_pyramid.wf()
		ensures final(self).wf(), forall|z: int, x: int, y: int| #![trigger final(self).level(z).has(x, y)] 0 <= z < 32 ==> (final(self).level(z).has(x, y) <==> (old(self).level(z).has(x, y) && other_bbox_pyramid.level(z).has(x, y)))
//@loop 1
			invariant other_bbox_pyramid.wf(),
				forall|k: int| 0 <= k < 32 ==> (#[trigger] self.level_bbox@[k]).wf() && self.level_bbox@[k].level == k,
				forall|k: int| level <= k < 32 ==> #[trigger] self.level_bbox@[k] == old(self).level_bbox@[k],
				forall|k: int, x: int, y: int| #![trigger self.level_bbox@[k].has(x, y)] 0 <= k < level ==> (self.level_bbox@[k].has(x, y) <==> (old(self).level_bbox@[k].has(x, y) && other_bbox_pyramid.level_bbox@[k].has(x, y))),
//@end
//@extract fn file="versatiles_core/src/types/tile_bbox_pyramid.rs" scope="impl TileBBoxPyramid" name="set_level_bbox"
//@spec
		requires old(self).wf(), bbox.wf()
		ensures final(self).wf(), final(self).level(bbox.level as int) == bbox,
			forall|z: int| 0 <= z < 32 && z != bbox.level ==> #[trigger] final(self).level(z) == old(self).level(z),
//@end
//@extract fn file="versatiles_core/src/types/tile_bbox_pyramid.rs" scope="impl TileBBoxPyramid" name="include_coord"
//@spec
		requires old(self).wf(), coord.valid()
		ensures final(self).wf(), final(self).has(*coord),
			forall|z: int, x: int, y: int| #![trigger final(self).level(z).has(x, y)] 0 <= z < 32 && old(self).level(z).has(x, y) ==> final(self).level(z).has(x, y),
			forall|z: int| 0 <= z < 32 && z != coord.z ==> #[trigger] final(self).level(z) == old(self).level(z),
//@end
//@extract fn file="versatiles_core/src/types/tile_bbox_pyramid.rs" scope="impl TileBBoxPyramid" name="include_bbox"
//@spec
		requires old(self).wf(), bbox.wf()
		ensures final(self).wf(),
			forall|z: int, x: int, y: int| #![trigger final(self).level(z).has(x, y)] 0 <= z < 32 && (old(self).level(z).has(x, y) || (z == bbox.level && bbox.has(x, y))) ==> final(self).level(z).has(x, y),
			forall|z: int| 0 <= z < 32 && z != bbox.level ==> #[trigger] final(self).level(z) == old(self).level(z),
//@end
//@extract fn file="versatiles_core/src/types/tile_bbox_pyramid.rs" scope="impl TileBBoxPyramid" name="set_zoom_min"
//@rewrite "for (index, bbox) in self.level_bbox.iter_mut().enumerate() {" => "for index in 0..self.level_bbox.len() {" R7 optional
//@rewrite "bbox.set_empty();" => "self.level_bbox[index].set_empty();" R7 optional
//@spec
		requires old(self).wf()
		ensures final(self).wf(), forall|z: int, x: int, y: int| #![trigger final(self).level(z).has(x, y)] 0 <= z < 32 ==> (final(self).level(z).has(x, y) <==> (old(self).level(z).has(x, y) && z >= zoom_level_min))
//@loop 1
			invariant
				forall|k: int| 0 <= k < 32 ==> (#[trigger] self.level_bbox@[k]).wf() && self.level_bbox@[k].level == k,
				forall|k: int| index <= k < 32 ==> #[trigger] self.level_bbox@[k] == old(self).level_bbox@[k],
				forall|k: int, x: int, y: int| #![trigger self.level_bbox@[k].has(x, y)] 0 <= k < index ==> (self.level_bbox@[k].has(x, y) <==> (old(self).level_bbox@[k].has(x, y) && k >= zoom_level_min)),
//@end
//@extract fn file="versatiles_core/src/types/tile_bbox_pyramid.rs" scope="impl TileBBoxPyramid" name="set_zoom_max"
//@rewrite "for (index, bbox) in self.level_bbox.iter_mut().enumerate() {" => "for index in 0..self.level_bbox.len() {" R7 optional
//@rewrite "bbox.set_empty();" => "self.level_bbox[index].set_empty();" R7 optional
//@spec
		requires old(self).wf()
		ensures final(self).wf(), forall|z: int, x: int, y: int| #![trigger final(self).level(z).has(x, y)] 0 <= z < 32 ==> (final(self).level(z).has(x, y) <==> (old(self).level(z).has(x, y) && z <= zoom_level_max))
//@loop 1
			invariant
				forall|k: int| 0 <= k < 32 ==> (#[trigger] self.level_bbox@[k]).wf() && self.level_bbox@[k].level == k,
				forall|k: int| index <= k < 32 ==> #[trigger] self.level_bbox@[k] == old(self).level_bbox@[k],
				forall|k: int, x: int, y: int| #![trigger self.level_bbox@[k].has(x, y)] 0 <= k < index ==> (self.level_bbox@[k].has(x, y) <==> (old(self).level_bbox@[k].has(x, y) && k <= zoom_level_max)),
//@end
	// R6 stand-in for `iter_levels` (= `self.level_bbox.iter().filter(|bbox| !bbox.is_empty())`, core::iter::Filter, trusted):
	// the non-empty levels, in ascending order, each exactly once
	#[verifier::external_body]
	pub fn vlevels(&self) -> (r: Vec<TileBBox>)
		ensures forall|i: int| 0 <= i < r@.len() ==> 0 <= (#[trigger] r@[i]).level < 32 && r@[i] == self.level_bbox@[r@[i].level as int] && !r@[i].empty(),
			forall|z: int| 0 <= z < 32 && !(#[trigger] self.level_bbox@[z]).empty() ==> exists|i: int| 0 <= i < r@.len() && #[trigger] r@[i] == self.level_bbox@[z],
	{ unimplemented!() }
//@extract fn file="versatiles_core/src/types/tile_bbox_pyramid.rs" scope="impl TileBBoxPyramid" name="include_bbox_pyramid"
//@rewrite "for bbox in pyramid.iter_levels() {" => "let vlv = pyramid.vlevels(); for bbox in vlv.iter() {" R6
//@spec
		requires old(self).wf(), pyramid.wf()
		ensures final(self).wf(),
			forall|z: int, x: int, y: int| #![trigger old(self).level(z).has(x, y)] #![trigger pyramid.level(z).has(x, y)] 0 <= z < 32 && (old(self).level(z).has(x, y) || pyramid.level(z).has(x, y)) ==> final(self).level(z).has(x, y)
//@loop 1 iter=it
			invariant pyramid.wf(),
				forall|i: int| 0 <= i < vlv@.len() ==> 0 <= (#[trigger] vlv@[i]).level < 32 && vlv@[i] == pyramid.level_bbox@[vlv@[i].level as int],
				forall|k: int| 0 <= k < 32 ==> (#[trigger] self.level_bbox@[k]).wf() && self.level_bbox@[k].level == k,
				forall|k: int, x: int, y: int| #![trigger self.level_bbox@[k].has(x, y)] #![trigger old(self).level_bbox@[k].has(x, y)] 0 <= k < 32 && old(self).level_bbox@[k].has(x, y) ==> self.level_bbox@[k].has(x, y),
				forall|i: int, x: int, y: int| #![trigger vlv@[i].has(x, y)] 0 <= i < it.index@ && vlv@[i].has(x, y) ==> self.level_bbox@[vlv@[i].level as int].has(x, y),
//@loopend 1
			proof { bbox.lemma_empty(); }
//@end
}
} // verus!
fn main() {}
