// unit pmtiles_runs (Kani, twin only) — a counterexample finder for the obligations of the Verus unit pmtiles_reader::parse_directories
// ("every tile id of every run lies inside the computed coverage", C03/C16): the real text of parse_directories runs on a directory
// of at most 2 run entries whose ids lie on the zoom levels 0..2. It proves nothing (the directory decoder and the Hilbert decoder are
// replaced by cheap stand-ins); whatever it finds is replayed on the real reader (verif_replay pmtiles_run_coverage).
#![allow(dead_code, unused_imports, unused_variables, unused_mut)]
use std::array::from_fn;
use std::mem::swap;

#[derive(Debug, Clone, Copy, PartialEq, Eq)]
pub struct VErr;
pub fn verr() -> VErr { VErr }
pub fn vassert(c: bool) { assert!(c); }
pub fn vpanic<A>() -> A { panic!() }
pub fn pow2u32(e: u32) -> u32 { 1u32 << e }
//@rewrite "2u32.pow(level as u32)" => "pow2u32(level as u32)" R7

//@extract const file="versatiles_core/src/types/tile_bbox_pyramid.rs" name="MAX_ZOOM_LEVEL"
//@end
#[derive(Clone, Copy, PartialEq, Eq, Debug)]
//@extract struct file="versatiles_core/src/types/tile_coords.rs" name="TileCoord3"
//@end
#[derive(Clone, PartialEq, Eq, Debug)]
//@extract struct file="versatiles_core/src/types/tile_bbox.rs" name="TileBBox"
//@end
#[derive(Clone)]
//@extract struct file="versatiles_core/src/types/tile_bbox_pyramid.rs" name="TileBBoxPyramid"
//@end
#[derive(Clone, Copy, PartialEq, Eq, Debug)]
//@extract struct file="versatiles_core/src/types/byte_range.rs" name="ByteRange"
//@end
#[derive(Clone, Copy, PartialEq, Eq, Debug)]
//@extract struct file="versatiles_container/src/container/pmtiles/types/entry_v3.rs" name="EntryV3"
//@end
#[derive(Clone, Copy, PartialEq, Eq, Debug)]
//@extract enum file="versatiles_core/src/types/tile_compression.rs" name="TileCompression"
//@end

impl TileBBox {
//@extract fn file="versatiles_core/src/types/tile_bbox.rs" scope="impl TileBBox" name="new_empty"
//@end
//@extract fn file="versatiles_core/src/types/tile_bbox.rs" scope="impl TileBBox" name="is_empty"
//@end
//@extract fn file="versatiles_core/src/types/tile_bbox.rs" scope="impl TileBBox" name="contains3"
//@end
//@extract fn file="versatiles_core/src/types/tile_bbox.rs" scope="impl TileBBox" name="include_coord"
//@end
}
impl TileBBoxPyramid {
//@extract fn file="versatiles_core/src/types/tile_bbox_pyramid.rs" scope="impl TileBBoxPyramid" name="new_empty"
//@end
//@extract fn file="versatiles_core/src/types/tile_bbox_pyramid.rs" scope="impl TileBBoxPyramid" name="include_coord"
//@end
//@extract fn file="versatiles_core/src/types/tile_bbox_pyramid.rs" scope="impl TileBBoxPyramid" name="contains_coord"
//@end
}

// R6 stand-ins (twin only): a directory blob carries its (at most 2) entries directly; the leaf section and the codecs are never reached
// (run entries only); tile ids 0..=20 are the zoom levels 0..2 — the table is the output of `verif_replay print_tile_ids 21` (the real
// tile_id_to_coord)
#[derive(Clone, Copy)]
pub struct Blob { pub e: [EntryV3; 2], pub n: usize }
impl Blob { pub fn read_range(&self, range: &ByteRange) -> Result<Blob, VErr> { Err(VErr) } }
pub fn decompress(blob: Blob, c: &TileCompression) -> Result<Blob, VErr> { Err(VErr) }
pub struct EntriesV3 { pub entries: [EntryV3; 2], pub n: usize }
impl EntriesV3 {
	pub fn from_blob(data: &Blob) -> Result<EntriesV3, VErr> { Ok(EntriesV3 { entries: data.e, n: data.n }) }
	pub fn iter(&self) -> std::slice::Iter<'_, EntryV3> { self.entries[..self.n].iter() }
}
const ID_TABLE: [(u8, u32, u32); 21] = [(0, 0, 0), (1, 0, 0), (1, 0, 1), (1, 1, 1), (1, 1, 0), (2, 0, 0), (2, 1, 0), (2, 1, 1), (2, 0, 1), (2, 0, 2), (2, 0, 3), (2, 1, 3), (2, 1, 2), (2, 2, 2), (2, 2, 3), (2, 3, 3), (2, 3, 2), (2, 3, 1), (2, 2, 1), (2, 2, 0), (2, 3, 0)];
pub fn tile_id_to_coord(tileid: u64) -> Result<TileCoord3, VErr> {
	if tileid > 20 { return Err(VErr); }
	let (z, x, y) = ID_TABLE[tileid as usize];
	Ok(TileCoord3 { x, y, z })
}

//@extract fn file="versatiles_container/src/container/pmtiles/reader.rs" scope="top" name="parse_directories" anydepth="1"
//@end

#[cfg(kani)]
mod proofs {
	use super::*;
	// harness: kind=twin tier=quick props=C03,C16 fn=parse_directories timeout=1500 mem=16 twin=pmtiles_reader::parse_directories
	#[kani::proof]
	#[kani::unwind(34)]
	fn tw_run_coverage() {
		let tile_id: u64 = kani::any(); let run: u32 = kani::any();
		kani::assume(run >= 1 && run <= 5 && tile_id <= 20 && tile_id + (run as u64) <= 21);
		let e = EntryV3 { tile_id, range: ByteRange { offset: 0, length: 1 }, run_length: run };
		let dir = Blob { e: [e, e], n: 1 };
		let mut p = TileBBoxPyramid::new_empty();
		let r = parse_directories(&mut p, &dir, &dir, &TileCompression::Uncompressed, 0);
		assert!(r.is_ok());
		let id: u64 = kani::any(); kani::assume(id >= tile_id && id < tile_id + run as u64);
		assert!(p.contains_coord(&tile_id_to_coord(id).unwrap()));
	}
}
