// unit default_stream — versatiles_core/src/types/tiles_reader.rs: the per-coordinate step of the DEFAULT
// TilesReaderTrait::get_bbox_tile_stream (the stream of every reader that does not override it: PMTiles, tar, directory, the
// pipeline reader; "default stream = lookup loop over the box", C02). Lifted closure (R10), async erased (R5).
// Not in this unit: bbox.iter_coords() (grid law: Kani unit tile_bbox_iter) and TileStream::from_coord_vec_async (buffered futures).
use vstd::prelude::*;
use std::mem::swap;
use std::ops::{Div, Rem, Shr};
verus! {
//@include common/prelude.vrs
//@include common/tile_bbox.vrs
//@include common/pbf_blob.vrs

// Result::unwrap_or (std; no vstd specification in this release): the value, or the default on Err
pub assume_specification<T, E> [std::result::Result::<T, E>::unwrap_or] (r: std::result::Result<T, E>, d: T) -> (o: T)
	ensures o == (match r { Ok(v) => v, Err(_) => d });

// R6 stand-in for `Self` behind Arc<Mutex<&Self>>: any reader, described by what a single-tile lookup returns
#[verifier::external_body] pub struct AbsReader { }
impl AbsReader {
	pub uninterp spec fn fails(&self, c: TileCoord3) -> bool;
	pub uninterp spec fn tile(&self, c: TileCoord3) -> Option<Seq<u8>>;
	#[verifier::external_body]
	pub fn get_tile_data(&self, coord: &TileCoord3) -> (r: Result<Option<Blob>, VErr>)
		ensures r is Err <==> self.fails(*coord),
			r is Ok ==> (r.unwrap() is Some <==> self.tile(*coord) is Some),
			r is Ok && r.unwrap() is Some ==> r.unwrap().unwrap()@ == self.tile(*coord).unwrap()
	{ unimplemented!() }
//@extract closure file="versatiles_core/src/types/tiles_reader.rs" scope="trait TilesReaderTrait: Debug + Send + Sync + Unpin" name="get_bbox_tile_stream" head="move |coord|" sig="pub fn stream_item(&self, coord: TileCoord3) -> Option<(TileCoord3, Blob)>" pre=""
//@rewrite "let mutex = mutex.clone();" => "" R7
//@rewrite "mutex .lock() .get_tile_data(&coord)" => "self.get_tile_data(&coord)" R6
//@rewrite ".map(|blob_option| blob_option.map(|blob| (coord, blob)))" => ".map(|blob_option: Option<Blob>| -> (vr: Option<(TileCoord3, Blob)>) ensures vr == (match blob_option { Some(vb) => Some((coord, vb)), None => None::<(TileCoord3, Blob)> }) { blob_option.map(|blob: Blob| -> (vq: (TileCoord3, Blob)) ensures vq == (coord, blob) { (coord, blob) }) })" R7
//@ret r
//@spec
		// C02: the item delivered for a coordinate is exactly what the single-tile lookup returns for it, labelled with that very
		// coordinate; a coordinate without a tile (or whose lookup fails) contributes nothing
		ensures r is Some <==> (!self.fails(coord) && self.tile(coord) is Some),
			r is Some ==> r.unwrap().0 == coord && r.unwrap().1@ == self.tile(coord).unwrap(),
//@end
}
} // verus!
fn main() {}
