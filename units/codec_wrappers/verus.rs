// unit codec_wrappers — versatiles_core/src/utils/compression.rs: compress_gzip, decompress_gzip, compress_brotli,
// compress_brotli_fast, decompress_brotli. In every other unit these five functions are stand-ins with an ASSUMED contract
// (common/blob_codec.vrs: "Ok => decoding the output gives the input"). Here the real wrapper bodies are verified against exactly
// those clauses, relative to the contracts of the library entry points they call (flate2's read adapters, brotli's stream
// functions): what is passed in, what is collected, what is returned — C04, C05, C08, C01.
use vstd::prelude::*;
verus! {
//@include common/prelude.vrs
//@include common/pbf_blob.vrs
pub uninterp spec fn dec_gzip(d: Seq<u8>) -> Option<Seq<u8>>;      // trusted: flate2
pub uninterp spec fn dec_brotli(d: Seq<u8>) -> Option<Seq<u8>>;    // trusted: brotli
impl Blob {
	pub fn as_slice(&self) -> (r: &[u8]) ensures r@ == self@ { self.v.as_slice() }
}
// ---- library stand-ins (R6; trusted): flate2::read::{GzEncoder, GzDecoder} over a byte slice, read to the end
#[verifier::external_body] pub struct GzLevel { }
#[verifier::external_body] pub fn gz_best() -> GzLevel { unimplemented!() }
// flate2's GzEncoder exists as a read adapter (wraps the input, the compressed stream is read from it: what the code uses) and as a
// write adapter (wraps the sink, input is written into it, `finish` returns the sink); both are modelled so that a switch between
// them stays decidable. `fed()`: the uncompressed bytes the encoder has been given so far.
pub trait GzArg { spec fn as_input(&self) -> Seq<u8>; }
impl<'a> GzArg for &'a [u8] { open spec fn as_input(&self) -> Seq<u8> { self@ } }
impl GzArg for Vec<u8> { open spec fn as_input(&self) -> Seq<u8> { Seq::<u8>::empty() } }
#[verifier::external_body] #[verifier::reject_recursive_types(T)] pub struct GzEncoder<T> { t: T }
impl<T: GzArg> GzEncoder<T> {
	pub uninterp spec fn fed(&self) -> Seq<u8>;
	#[verifier::external_body]
	pub fn new(r: T, level: GzLevel) -> (e: GzEncoder<T>) ensures e.fed() == r.as_input() { unimplemented!() }
}
impl<'a> GzEncoder<&'a [u8]> {
	// std::io::Read::read_to_end on the read adapter: appends the complete gzip stream of the wrapped input
	#[verifier::external_body]
	pub fn read_to_end(&mut self, buf: &mut Vec<u8>) -> (r: Result<usize, VErr>)
		ensures r is Ok ==> exists|o: Seq<u8>| final(buf)@ == old(buf)@ + o && #[trigger] dec_gzip(o) == Some(old(self).fed())
	{ unimplemented!() }
}
impl GzEncoder<Vec<u8>> {
	// std::io::Write::write: accepts SOME prefix of the data and says how long it was
	#[verifier::external_body]
	pub fn write(&mut self, data: &[u8]) -> (r: Result<usize, VErr>)
		ensures r is Ok ==> r.unwrap() <= data@.len() && final(self).fed() == old(self).fed() + data@.subrange(0, r.unwrap() as int)
	{ unimplemented!() }
	#[verifier::external_body]
	pub fn write_all(&mut self, data: &[u8]) -> (r: Result<(), VErr>)
		ensures r is Ok ==> final(self).fed() == old(self).fed() + data@
	{ unimplemented!() }
	#[verifier::external_body]
	pub fn finish(self) -> (r: Result<Vec<u8>, VErr>)
		ensures r is Ok ==> dec_gzip(r.unwrap()@) == Some(self.fed())
	{ unimplemented!() }
}
#[verifier::external_body] pub struct GzDecoder { }
impl GzDecoder {
	pub uninterp spec fn input(&self) -> Seq<u8>;
	#[verifier::external_body]
	pub fn new(r: &[u8]) -> (e: GzDecoder) ensures e.input() == r@ { unimplemented!() }
	#[verifier::external_body]
	pub fn read_to_end(&mut self, buf: &mut Vec<u8>) -> (r: Result<usize, VErr>)
		ensures r is Ok ==> exists|o: Seq<u8>| final(buf)@ == old(buf)@ + o && dec_gzip(old(self).input()) == Some(#[trigger] id_seq(o))
	{ unimplemented!() }
}
pub open spec fn id_seq(o: Seq<u8>) -> Seq<u8> { o }
// ---- brotli::{BrotliCompress, BrotliDecompress} over a Cursor on the input slice and a Vec as the sink
#[verifier::external_body] pub struct BrotliEncoderParams { }
#[verifier::external_body] pub fn brotli_params(quality: i32, lgwin: i32, size_hint: usize) -> BrotliEncoderParams { unimplemented!() }
#[verifier::external_body] pub struct Cursor { }
impl Cursor {
	pub uninterp spec fn data(&self) -> Seq<u8>;
	#[verifier::external_body]
	pub fn new(r: &[u8]) -> (c: Cursor) ensures c.data() == r@ { unimplemented!() }
}
#[verifier::external_body]
#[allow(non_snake_case)]
pub fn BrotliCompress(input: &mut Cursor, output: &mut Vec<u8>, params: &BrotliEncoderParams) -> (r: Result<usize, VErr>)
	ensures r is Ok ==> exists|o: Seq<u8>| final(output)@ == old(output)@ + o && #[trigger] dec_brotli(o) == Some(old(input).data())
{ unimplemented!() }
#[verifier::external_body]
#[allow(non_snake_case)]
pub fn BrotliDecompress(input: &mut Cursor, output: &mut Vec<u8>) -> (r: Result<(), VErr>)
	ensures r is Ok ==> exists|o: Seq<u8>| final(output)@ == old(output)@ + o && dec_brotli(old(input).data()) == Some(#[trigger] id_seq(o))
{ unimplemented!() }

//@rewrite "flate2::Compression::best()" => "gz_best()" R6
//@rewrite "Blob::from(" => "Blob::from_vec(" R6
//@extract fn file="versatiles_core/src/utils/compression.rs" scope="top" name="compress_gzip"
//@ret r
//@spec
		ensures r is Ok ==> dec_gzip(r.unwrap()@) == Some(blob@)
//@start
	proof { assert forall|o: Seq<u8>| Seq::<u8>::empty() + o =~= o by { } }
//@end
//@extract fn file="versatiles_core/src/utils/compression.rs" scope="top" name="decompress_gzip"
//@ret r
//@spec
		ensures r is Ok ==> dec_gzip(blob@) == Some(r.unwrap()@)
//@start
	proof { assert forall|o: Seq<u8>| Seq::<u8>::empty() + o =~= o by { } }
//@end
//@extract fn file="versatiles_core/src/utils/compression.rs" scope="top" name="compress_brotli"
//@prerewrite "BrotliEncoderParams { quality: 10, lgwin: 19, size_hint: blob.len() as usize, ..Default::default() }" => "brotli_params(10, 19, blob.len() as usize)"
//@ret r
//@spec
		ensures r is Ok ==> dec_brotli(r.unwrap()@) == Some(blob@)
//@start
	proof { assert forall|o: Seq<u8>| Seq::<u8>::empty() + o =~= o by { } }
//@end
//@extract fn file="versatiles_core/src/utils/compression.rs" scope="top" name="compress_brotli_fast"
//@prerewrite "BrotliEncoderParams { quality: 3, lgwin: 16, size_hint: blob.len() as usize, ..Default::default() }" => "brotli_params(3, 16, blob.len() as usize)"
//@ret r
//@spec
		ensures r is Ok ==> dec_brotli(r.unwrap()@) == Some(blob@)
//@start
	proof { assert forall|o: Seq<u8>| Seq::<u8>::empty() + o =~= o by { } }
//@end
//@extract fn file="versatiles_core/src/utils/compression.rs" scope="top" name="decompress_brotli"
//@ret r
//@spec
		ensures r is Ok ==> dec_brotli(blob@) == Some(r.unwrap()@)
//@start
	proof { assert forall|o: Seq<u8>| Seq::<u8>::empty() + o =~= o by { } }
//@end
} // verus!
fn main() {}
