// unit converter — versatiles_container/src/container/converter.rs (C06, C02, C04, C05)
use vstd::prelude::*;
use std::mem::swap;
use std::ops::{Div, Rem};
verus! {
//@include common/prelude.vrs
//@include common/tile_bbox.vrs
//@include common/transform.vrs
//@include common/pbf_blob.vrs
//@include common/compression.vrs
//@include common/tile_converter.vrs
//@include common/pyramid_abs.vrs
//@include common/source_abs.vrs

impl TileConverter {
	// trusted: process_stream applies the pipeline to every blob of the stream (map_blob_parallel, C14) and
	// the external codecs do not fail on the blobs of the stream (a failure panics: streams have no error channel)
	#[verifier::external_body]
	pub fn process_stream(&self, stream: TileStream) -> (r: TileStream)
		ensures
			forall|c: TileCoord3, b: Seq<u8>| r.items().contains((c, b)) ==> exists|s: Seq<u8>| #[trigger] stream.items().contains((c, s)) && pipe_rel(self.pipeline@, s, b),
			forall|c: TileCoord3, s: Seq<u8>| #[trigger] stream.items().contains((c, s)) ==> exists|b: Seq<u8>| #[trigger] r.items().contains((c, b)) && pipe_rel(self.pipeline@, s, b),
	{ unimplemented!() }
}

//@extract struct file="versatiles_container/src/container/converter.rs" name="TilesConverterParameters"
//@end
//@extract struct file="versatiles_container/src/container/converter.rs" name="TilesConvertReader"
//@rewrite "Box<dyn TilesReaderTrait>" => "AbsSource"
//@end

impl TilesConvertReader {
	pub open spec fn f(&self) -> bool { self.converter_parameters.flip_y }
	pub open spec fn s(&self) -> bool { self.converter_parameters.swap_xy }
	pub open spec fn requested(&self, c: TileCoord3) -> bool {
		match self.converter_parameters.bbox_pyramid { Some(p) => p.has(c), None => true } }
	pub open spec fn src_comp(&self) -> TileCompression { self.reader.params().tile_compression }
	pub open spec fn declared(&self) -> TileCompression { self.reader_parameters.tile_compression }
	// what the property asks of the output at c (C06 + C04): the source tile at T^-1(c), same payload
	pub open spec fn is_output_tile(&self, c: TileCoord3, b: Seq<u8>) -> bool {
		exists|t: Seq<u8>| self.reader.tile_at(t_inv(self.f(), self.s(), c)) == Some(t) && decode(self.declared(), b) == decode(self.src_comp(), t) }
	// coverage part of the invariant (C06/C03): advertised coverage = T(source coverage) ∩ requested
	#[verifier::opaque]
	pub open spec fn inv_cov(&self) -> bool {
		self.reader.src_ok() && self.reader_parameters.bbox_pyramid.wf()
		&& (forall|c: TileCoord3| c.valid() ==> (#[trigger] self.reader_parameters.bbox_pyramid.has(c)
				<==> (self.reader.params().bbox_pyramid.has(t_inv(self.f(), self.s(), c)) && self.requested(c))))
	}
	pub open spec fn inv(&self) -> bool {
		self.inv_cov()
		&& self.tile_recompressor is Some
		&& self.tile_recompressor.unwrap().pipeline@ == pipe_of(self.src_comp(), self.declared(), self.converter_parameters.force_recompress)
		&& self.declared() == (match self.converter_parameters.tile_compression { Some(c) => c, None => self.src_comp() })
		&& self.reader_parameters.tile_format == self.reader.params().tile_format
	}

//@extract fn file="versatiles_container/src/container/converter.rs" scope="impl TilesConvertReader" name="new_from_reader"
//@rewrite "Box<dyn TilesReaderTrait>" => "AbsSource"
//@rewrite ".to_owned()" => ".clone()" R7
//@ret r
//@spec
		requires reader.src_ok(), cp.bbox_pyramid is Some ==> cp.bbox_pyramid.unwrap().wf()
		ensures r is Ok, r.unwrap().inv(), r.unwrap().reader == reader, r.unwrap().converter_parameters == cp
//@at "Ok(TilesConvertReader {"
		proof { reveal(TilesConvertReader::inv_cov); }
//@at "if cp.flip_y"
		let ghost p0 = new_rp.bbox_pyramid;
//@at "if cp.swap_xy"
		let ghost p1 = new_rp.bbox_pyramid;
//@at "if let Some(bbox_pyramid) = &cp.bbox_pyramid"
		let ghost p2 = new_rp.bbox_pyramid;
//@at "new_rp.tile_format = rp.tile_format"
		proof {
			reveal(TilesConvertReader::inv_cov);
			assert forall|c: TileCoord3| c.valid() implies (#[trigger] new_rp.bbox_pyramid.has(c)
				<==> (p0.has(t_inv(cp.flip_y, cp.swap_xy, c)) && (match cp.bbox_pyramid { Some(p) => p.has(c), None => true }))) by {
				lemma_pow2_bound(c.z as nat);
				lemma_t_inverse(cp.flip_y, cp.swap_xy, c);
				let z = c.z as int; let x = c.x as int; let y = c.y as int; let m = pow2(c.z as nat) - 1;
				let ci = t_inv(cp.flip_y, cp.swap_xy, c);
				assert(p0.level(z).wf() && p1.level(z).wf() && p2.level(z).wf());
				assert(p0.level(z).max == m);
				// after the optional swap: p2(x, y) <==> p1(sx, sy) with (sx, sy) the swapped pair
				let sx = if cp.swap_xy { y } else { x }; let sy = if cp.swap_xy { x } else { y };
				assert(p2.level(z).has(x, y) <==> p1.level(z).has(sx, sy));
				let fy = if cp.flip_y { m - sy } else { sy };
				assert(p1.level(z).has(sx, sy) <==> p0.level(z).has(sx, fy));
				assert(ci.z == c.z && ci.x as int == sx && ci.y as int == fy);
				assert(new_rp.bbox_pyramid.level(z).has(x, y) <==> (p2.level(z).has(x, y) && (match cp.bbox_pyramid { Some(p) => p.level(z).has(x, y), None => true })));
			}
		}
//@end
//@extract fn file="versatiles_container/src/container/converter.rs" scope="impl TilesReaderTrait for TilesConvertReader" name="get_parameters"
//@ret r
//@spec
		ensures *r == self.reader_parameters
//@end
//@extract fn file="versatiles_container/src/container/converter.rs" scope="impl TilesReaderTrait for TilesConvertReader" name="get_tile_data"
//@ret r
//@spec
		// no precondition on the coordinate: any (z, x, y) may arrive over HTTP
		requires self.inv()
		ensures r is Ok ==> (match r.unwrap() {
			Some(b) => coord.valid() && self.is_output_tile(*coord, b@),
			None => !coord.valid() || self.reader.tile_at(t_inv(self.f(), self.s(), *coord)) is None }),
//@at "let mut coord = *coord;"
		proof { if coord.z <= 31 { lemma_pow2_bound(coord.z as nat); } }
		let ghost c0 = *coord;
//@at "let mut blob = self.reader.get_tile_data(&coord)?;"
		proof { lemma_t_inverse(self.f(), self.s(), c0); assert(coord == t_inv(self.f(), self.s(), c0)); }
//@after "blob = Some(tile_recompressor.process_blob(b)?);"
				proof { lemma_pipe_payload(self.src_comp(), self.declared(), self.converter_parameters.force_recompress,
					self.reader.tile_at(t_inv(self.f(), self.s(), c0)).unwrap(), blob.unwrap()@); }
//@end
//@extract fn file="versatiles_container/src/container/converter.rs" scope="impl TilesReaderTrait for TilesConvertReader" name="get_bbox_tile_stream"
//@ret r
//@spec
		requires self.inv(), bbox.wf()
		ensures
			// nothing from outside the box, and every streamed tile is the lookup's tile (C02, C06)
			forall|c: TileCoord3, b: Seq<u8>| r.items().contains((c, b)) ==> (bbox.has3(c) && self.is_output_tile(c, b)),
			// every tile a lookup would return inside the box is streamed
			forall|c: TileCoord3| bbox.has3(c) && self.reader.tile_at(t_inv(self.f(), self.s(), c)) is Some
				==> exists|b: Seq<u8>| #[trigger] r.items().contains((c, b)) && self.is_output_tile(c, b),
//@at "let mut bbox = bbox.clone();"
		let ghost bbox0 = bbox;
//@at "if self.converter_parameters.flip_y { bbox.flip_y(); }"
		let ghost bbox1 = bbox;
//@at "let mut stream = self.reader.get_bbox_tile_stream(bbox);"
		let ghost bbox_src = bbox;
		proof { lemma_box_transform(bbox0, bbox1, bbox_src, self.f(), self.s()); }
//@after "let mut stream = self.reader.get_bbox_tile_stream(bbox);"
		let ghost s0 = stream;
//@closure "move |mut coord|"
		move |mut coord: TileCoord3| -> (out: TileCoord3)
				requires coord.valid()
				ensures out == t_fwd(flip_y, swap_xy, coord)
//@at "if flip_y || swap_xy"
		proof { assert forall|w: TileCoord3| #[trigger] bbox_src.has3(w) implies w.valid() by { bbox_src.lemma_has3_valid(w); } }
//@at "if let Some(tile_recompressor) = &self.tile_recompressor"
		let ghost s1 = stream;
		proof {
			if flip_y || swap_xy {
				assert forall|c: TileCoord3, b: Seq<u8>| s1.items().contains((c, b)) implies exists|s: TileCoord3| #[trigger] s0.items().contains((s, b)) && c == t_fwd(flip_y, swap_xy, s) by { }
				assert forall|s: TileCoord3, b: Seq<u8>| #[trigger] s0.items().contains((s, b)) implies s1.items().contains((t_fwd(flip_y, swap_xy, s), b)) by { }
			}
			lemma_stream_relabel(s0.items(), s1.items(), self.reader, bbox_src, bbox0, self.f(), self.s());
		}
//@at "stream }"
		proof { lemma_stream_recompress(*self, s1.items(), stream.items(), bbox0); }
//@end
}


// geometry of the requested box: swap, then flip of the box is the pre-image of the box under T
pub proof fn lemma_box_transform(b0: TileBBox, b1: TileBBox, b2: TileBBox, f: bool, s: bool)
	requires b0.wf(), b1.wf(), b2.wf(), b1.same_frame(&b0), b2.same_frame(&b0),
		s ==> (forall|x: int, y: int| b1.has(x, y) <==> b0.has(y, x)), !s ==> b1 == b0,
		f ==> (forall|x: int, y: int| b2.has(x, y) <==> b1.has(x, b1.max - y)), !f ==> b2 == b1,
	ensures forall|c: TileCoord3| c.valid() ==> (#[trigger] b2.has3(c) <==> b0.has3(t_fwd(f, s, c)))
{
	assert forall|c: TileCoord3| c.valid() implies (#[trigger] b2.has3(c) <==> b0.has3(t_fwd(f, s, c))) by {
		lemma_pow2_bound(c.z as nat); lemma_t_inverse(f, s, c);
		if c.z == b0.level {
			let x = c.x as int; let y = c.y as int; let m = b0.max as int;
			let fy = if f { m - y } else { y };
			assert(b2.has(x, y) <==> b1.has(x, fy));
			let sx = if s { fy } else { x }; let sy = if s { x } else { fy };
			assert(b1.has(x, fy) <==> b0.has(sx, sy));
			let t = t_fwd(f, s, c);
			assert(t.x as int == sx && t.y as int == sy && t.z == c.z);
		}
	}
}

// the source's stream of the pre-image box, relabelled with T, is exactly the lookups inside the requested box
pub proof fn lemma_stream_relabel(s0: Set<(TileCoord3, Seq<u8>)>, s1: Set<(TileCoord3, Seq<u8>)>, src: AbsSource, bsrc: TileBBox, b0: TileBBox, f: bool, s: bool)
	requires bsrc.wf(), b0.wf(),
		forall|c: TileCoord3, b: Seq<u8>| s0.contains((c, b)) <==> (bsrc.has3(c) && src.tile_at(c) == Some(b)),
		forall|c: TileCoord3| c.valid() ==> (#[trigger] bsrc.has3(c) <==> b0.has3(t_fwd(f, s, c))),
		(f || s) ==> (forall|c: TileCoord3, b: Seq<u8>| s1.contains((c, b)) ==> exists|w: TileCoord3| #[trigger] s0.contains((w, b)) && c == t_fwd(f, s, w)),
		(f || s) ==> (forall|w: TileCoord3, b: Seq<u8>| #[trigger] s0.contains((w, b)) ==> s1.contains((t_fwd(f, s, w), b))),
		!(f || s) ==> s1 == s0,
	ensures forall|c: TileCoord3, b: Seq<u8>| s1.contains((c, b)) <==> (b0.has3(c) && src.tile_at(t_inv(f, s, c)) == Some(b))
{
	assert forall|c: TileCoord3, b: Seq<u8>| s1.contains((c, b)) <==> (b0.has3(c) && src.tile_at(t_inv(f, s, c)) == Some(b)) by {
		if s1.contains((c, b)) {
			if f || s {
				let w = choose|w: TileCoord3| #[trigger] s0.contains((w, b)) && c == t_fwd(f, s, w);
				assert(bsrc.has3(w)); bsrc.lemma_has3_valid(w); lemma_t_inverse(f, s, w);
			} else {
				assert(bsrc.has3(c)); bsrc.lemma_has3_valid(c); lemma_t_inverse(f, s, c);
			}
		}
		if b0.has3(c) && src.tile_at(t_inv(f, s, c)) == Some(b) {
			b0.lemma_has3_valid(c); lemma_t_inverse(f, s, c);
			let w = t_inv(f, s, c);
			assert(bsrc.has3(w)); assert(s0.contains((w, b)));
			if f || s { assert(s1.contains((t_fwd(f, s, w), b))); }
		}
	}
}

// recompressing every blob of the relabelled stream gives the output tiles of the property statement
pub proof fn lemma_stream_recompress(r: TilesConvertReader, s1: Set<(TileCoord3, Seq<u8>)>, out: Set<(TileCoord3, Seq<u8>)>, b0: TileBBox)
	requires r.tile_recompressor is Some,
		r.tile_recompressor.unwrap().pipeline@ == pipe_of(r.src_comp(), r.declared(), r.converter_parameters.force_recompress),
		forall|c: TileCoord3, b: Seq<u8>| s1.contains((c, b)) <==> (b0.has3(c) && r.reader.tile_at(t_inv(r.f(), r.s(), c)) == Some(b)),
		forall|c: TileCoord3, b: Seq<u8>| out.contains((c, b)) ==> exists|t: Seq<u8>| #[trigger] s1.contains((c, t)) && pipe_rel(r.tile_recompressor.unwrap().pipeline@, t, b),
		forall|c: TileCoord3, t: Seq<u8>| #[trigger] s1.contains((c, t)) ==> exists|b: Seq<u8>| #[trigger] out.contains((c, b)) && pipe_rel(r.tile_recompressor.unwrap().pipeline@, t, b),
	ensures
		forall|c: TileCoord3, b: Seq<u8>| out.contains((c, b)) ==> (b0.has3(c) && r.is_output_tile(c, b)),
		forall|c: TileCoord3| b0.has3(c) && r.reader.tile_at(t_inv(r.f(), r.s(), c)) is Some ==> exists|b: Seq<u8>| #[trigger] out.contains((c, b)) && r.is_output_tile(c, b),
{
	let p = r.tile_recompressor.unwrap().pipeline@;
	assert forall|c: TileCoord3, b: Seq<u8>| out.contains((c, b)) implies (b0.has3(c) && r.is_output_tile(c, b)) by {
		let t = choose|t: Seq<u8>| #[trigger] s1.contains((c, t)) && pipe_rel(p, t, b);
		lemma_pipe_payload(r.src_comp(), r.declared(), r.converter_parameters.force_recompress, t, b);
	}
	assert forall|c: TileCoord3| b0.has3(c) && r.reader.tile_at(t_inv(r.f(), r.s(), c)) is Some
		implies exists|b: Seq<u8>| #[trigger] out.contains((c, b)) && r.is_output_tile(c, b) by {
		let t = r.reader.tile_at(t_inv(r.f(), r.s(), c)).unwrap();
		assert(s1.contains((c, t)));
		let b = choose|b: Seq<u8>| #[trigger] out.contains((c, b)) && pipe_rel(p, t, b);
		lemma_pipe_payload(r.src_comp(), r.declared(), r.converter_parameters.force_recompress, t, b);
	}
}

// C02 for the converting reader: stream(b) = { (c, lookup(c)) : c in b } — a restatement of the two contracts above
pub proof fn lemma_converter_preserves_c02(r: TilesConvertReader, bbox: TileBBox, items: Set<(TileCoord3, Seq<u8>)>)
	requires r.inv(), bbox.wf(),
		forall|c: TileCoord3, b: Seq<u8>| items.contains((c, b)) ==> (bbox.has3(c) && r.is_output_tile(c, b)),
		forall|c: TileCoord3| bbox.has3(c) && r.reader.tile_at(t_inv(r.f(), r.s(), c)) is Some ==> exists|b: Seq<u8>| #[trigger] items.contains((c, b)) && r.is_output_tile(c, b),
	ensures forall|c: TileCoord3| bbox.has3(c) ==> ((exists|b: Seq<u8>| items.contains((c, b))) <==> r.reader.tile_at(t_inv(r.f(), r.s(), c)) is Some)
{
	assert forall|c: TileCoord3| bbox.has3(c) implies ((exists|b: Seq<u8>| items.contains((c, b))) <==> r.reader.tile_at(t_inv(r.f(), r.s(), c)) is Some) by {
		if exists|b: Seq<u8>| items.contains((c, b)) { let b = choose|b: Seq<u8>| items.contains((c, b)); assert(r.is_output_tile(c, b)); }
	}
}
} // verus!
fn main() {}
