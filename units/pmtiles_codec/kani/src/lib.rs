// unit pmtiles_codec (Kani) — PMTiles v3: Hilbert tile ids (one complete harness per zoom level), the 127-byte header
// codec against the published field offsets, and the directory decoder against an independent decoder written from the
// specification (bounded in the number of entries). C01, C16, C19.
#![allow(dead_code, unused_imports, unused_variables, unused_mut)]
use std::cmp::Ordering;

#[derive(Debug, Clone, Copy, PartialEq, Eq)]
pub struct VErr;
pub fn verr() -> VErr { VErr }
pub fn vassert(c: bool) { assert!(c); }
pub fn vpanic<A>() -> A { panic!() }
pub fn vformat() -> String { String::new() }
impl VErr { pub fn to_string(&self) -> String { String::new() } }

// ---- R6 stand-ins for the byte I/O environment (Blob, ValueReaderSlice<LittleEndian>, ValueWriterBlob<LittleEndian>):
// fixed-capacity byte arrays; little-endian fixed-width integers (byteorder crate, trusted)
pub const BCAP: usize = 128;
#[derive(Clone, Copy, Debug)]
pub struct Blob { pub data: [u8; BCAP], pub n: usize }
impl Blob {
	pub fn as_slice(&self) -> &[u8] { &self.data[..self.n] }
	pub fn len(&self) -> u64 { self.n as u64 }
}
pub struct ValueReaderSlice<'a> { pub data: &'a [u8], pub pos: usize }
impl<'a> ValueReaderSlice<'a> {
	pub fn new_le(slice: &'a [u8]) -> Self { ValueReaderSlice { data: slice, pos: 0 } }
	pub fn set_position(&mut self, p: u64) -> Result<(), VErr> { if p >= self.data.len() as u64 { return Err(VErr); } self.pos = p as usize; Ok(()) }
	pub fn read_u8(&mut self) -> Result<u8, VErr> { if self.pos < self.data.len() { let b = self.data[self.pos]; self.pos += 1; Ok(b) } else { Err(VErr) } }
	pub fn read_u64(&mut self) -> Result<u64, VErr> { let mut v: u64 = 0; let mut i = 0; while i < 8 { v |= (self.read_u8()? as u64) << (8 * i); i += 1; } Ok(v) }
	pub fn read_i32(&mut self) -> Result<i32, VErr> { let mut v: u32 = 0; let mut i = 0; while i < 4 { v |= (self.read_u8()? as u32) << (8 * i); i += 1; } Ok(v as i32) }
//@extract fn file="versatiles_core/src/io/value_reader.rs" scope="trait ValueReader<'a, E: ByteOrder + 'a>" name="read_varint"
//@rewrite "self.get_reader().read_u8()" => "self.read_u8()" R7
//@end
}
pub struct ValueWriterBlob { pub data: [u8; BCAP], pub n: usize }
impl ValueWriterBlob {
	pub fn new_le() -> Self { ValueWriterBlob { data: [0u8; BCAP], n: 0 } }
	pub fn write_u8(&mut self, b: u8) -> Result<(), VErr> { assert!(self.n < BCAP, "stand-in capacity"); self.data[self.n] = b; self.n += 1; Ok(()) }
	pub fn write_slice(&mut self, s: &[u8]) -> Result<(), VErr> { let mut i = 0; while i < s.len() { self.write_u8(s[i])?; i += 1; } Ok(()) }
	pub fn write_u64(&mut self, v: u64) -> Result<(), VErr> { let mut i = 0; while i < 8 { self.write_u8((v >> (8 * i)) as u8)?; i += 1; } Ok(()) }
	pub fn write_i32(&mut self, v: i32) -> Result<(), VErr> { let mut i = 0; while i < 4 { self.write_u8(((v as u32) >> (8 * i)) as u8)?; i += 1; } Ok(()) }
	pub fn into_blob(self) -> Blob { Blob { data: self.data, n: self.n } }
//@extract fn file="versatiles_core/src/io/value_writer.rs" scope="trait ValueWriter<E: ByteOrder>" name="write_varint"
//@rewrite "self.get_writer().write_all(&[((value as u8) & 0x7F) | 0x80])" => "self.write_u8(((value as u8) & 0x7F) | 0x80)" R7
//@rewrite "self.get_writer().write_all(&[value as u8])" => "self.write_u8(value as u8)" R7
//@end
}

#[derive(Clone, Copy, PartialEq, Eq, Debug)]
#[cfg_attr(kani, derive(kani::Arbitrary))]
//@extract struct file="versatiles_core/src/types/byte_range.rs" name="ByteRange"
//@end
impl ByteRange {
//@extract fn file="versatiles_core/src/types/byte_range.rs" scope="impl ByteRange" name="new"
//@end
//@extract fn file="versatiles_core/src/types/byte_range.rs" scope="impl ByteRange" name="empty"
//@end
}
#[derive(Clone, Copy, PartialEq, Eq, Debug)]
//@extract struct file="versatiles_core/src/types/tile_coords.rs" name="TileCoord3"
//@end
impl TileCoord3 {
//@extract fn file="versatiles_core/src/types/tile_coords.rs" scope="impl TileCoord3" name="new"
//@end
}

// ---- Hilbert tile ids
//@extract fn file="versatiles_container/src/container/pmtiles/types/tile_id.rs" scope="top" name="coord_to_tile_id"
//@end
//@extract fn file="versatiles_container/src/container/pmtiles/types/tile_id.rs" scope="top" name="rotate"
//@end
//@extract fn file="versatiles_container/src/container/pmtiles/types/tile_id.rs" scope="top" name="tile_id_to_coord"
//@end

// ---- header
#[derive(Clone, Copy, Debug, PartialEq)]
#[cfg_attr(kani, derive(kani::Arbitrary))]
//@extract enum file="versatiles_container/src/container/pmtiles/types/tile_compression.rs" name="PMTilesCompression"
//@end
impl PMTilesCompression {
//@extract fn file="versatiles_container/src/container/pmtiles/types/tile_compression.rs" scope="impl PMTilesCompression" name="from_u8"
//@end
}
#[derive(Clone, Copy, Debug, PartialEq)]
#[cfg_attr(kani, derive(kani::Arbitrary))]
//@extract enum file="versatiles_container/src/container/pmtiles/types/tile_type.rs" name="PMTilesType"
//@end
impl PMTilesType {
//@extract fn file="versatiles_container/src/container/pmtiles/types/tile_type.rs" scope="impl PMTilesType" name="from_u8"
//@end
}
#[derive(Debug, PartialEq)]
#[cfg_attr(kani, derive(kani::Arbitrary))]
//@extract struct file="versatiles_container/src/container/pmtiles/types/header_v3.rs" name="HeaderV3"
//@end
impl HeaderV3 {
//@extract fn file="versatiles_container/src/container/pmtiles/types/header_v3.rs" scope="impl HeaderV3" name="serialize"
//@end
//@extract fn file="versatiles_container/src/container/pmtiles/types/header_v3.rs" scope="impl HeaderV3" name="deserialize"
//@end
//@extract fn file="versatiles_container/src/container/pmtiles/types/header_v3.rs" scope="impl HeaderV3" name="len"
//@end
}

// ---- directory decoder
#[derive(Debug, Clone, Copy, PartialEq, Eq)]
//@extract struct file="versatiles_container/src/container/pmtiles/types/entry_v3.rs" name="EntryV3"
//@end
impl EntryV3 {
//@extract fn file="versatiles_container/src/container/pmtiles/types/entry_v3.rs" scope="impl EntryV3" name="new"
//@end
}
#[derive(Debug, PartialEq)]
//@extract struct file="versatiles_container/src/container/pmtiles/types/entries_v3.rs" name="EntriesV3"
//@end
impl EntriesV3 {
//@extract fn file="versatiles_container/src/container/pmtiles/types/entries_v3.rs" scope="impl EntriesV3" name="from_blob"
//@end
//@extract fn file="versatiles_container/src/container/pmtiles/types/entries_v3.rs" scope="impl EntriesV3" name="find_tile"
//@end
}

#[cfg(kani)]
mod proofs {
	use super::*;

	// reference algorithm of the PMTiles v3 specification (zxy_to_tileid), written from the spec text: id = sum of 4^i for
	// i < z, plus the position of (x, y) on the Hilbert curve of order z
	fn spec_zxy_to_tileid(z: u8, x: u32, y: u32) -> u64 {
		let mut acc: u64 = 0; let mut i: u8 = 0;
		while i < z { acc += 1u64 << (2 * i as u32); i += 1; }
		let n: u64 = 1u64 << z;
		let (mut xx, mut yy) = (x as u64, y as u64);
		let mut d: u64 = 0;
		let mut s: u64 = n / 2;
		while s > 0 {
			let rx: u64 = if (xx & s) > 0 { 1 } else { 0 };
			let ry: u64 = if (yy & s) > 0 { 1 } else { 0 };
			d += s * s * ((3 * rx) ^ ry);
			if ry == 0 { if rx == 1 { xx = s - 1 - (xx & (s - 1)); yy = s - 1 - (yy & (s - 1)); } else { xx &= s - 1; yy &= s - 1; } let t = xx; xx = yy; yy = t; }
			else { xx &= s - 1; yy &= s - 1; }
			s /= 2;
		}
		acc + d
	}
	fn hilbert_roundtrip_at(z: u8) {
		let x: u32 = kani::any(); let y: u32 = kani::any();
		let n = 1u64 << z;
		let first: u64 = ((1u64 << (2 * z as u32)) - 1) / 3;    // ids of zoom z start after the sum of 4^i, i < z
		match coord_to_tile_id(x, y, z) {
			Ok(id) => {
				assert!((x as u64) < n && (y as u64) < n);
				assert!(id >= first && id - first < n * n);         // ids of a zoom level form the contiguous block the spec assigns to it
				match tile_id_to_coord(id) { Ok(c) => assert!(c.x == x && c.y == y && c.z == z), Err(_) => assert!(false) }
			}
			Err(_) => assert!((x as u64) >= n || (y as u64) >= n),
		}
	}
	// (the other direction follows by counting: encode is injective into the block of exactly n*n ids of the zoom level, hence
	//  bijective, so decode(encode(c)) = c for all c implies encode(decode(id)) = id for every id of the block.)
	// harness: kind=complete why="x, y and the id fully symbolic at the fixed zoom 0; loops bounded by the zoom (<= 32 iterations)" tier=thorough props=C01,C16,C19 fn=coord_to_tile_id,tile_id_to_coord,rotate timeout=2400
	#[kani::proof]
	#[kani::unwind(34)]
	fn hilbert_z00() { hilbert_roundtrip_at(0); }
	// harness: kind=complete why="x, y and the id fully symbolic at the fixed zoom 1; loops bounded by the zoom (<= 32 iterations)" tier=thorough props=C01,C16,C19 fn=coord_to_tile_id,tile_id_to_coord,rotate timeout=2400
	#[kani::proof]
	#[kani::unwind(34)]
	fn hilbert_z01() { hilbert_roundtrip_at(1); }
	// harness: kind=complete why="x, y and the id fully symbolic at the fixed zoom 2; loops bounded by the zoom (<= 32 iterations)" tier=thorough props=C01,C16,C19 fn=coord_to_tile_id,tile_id_to_coord,rotate timeout=2400
	#[kani::proof]
	#[kani::unwind(34)]
	fn hilbert_z02() { hilbert_roundtrip_at(2); }
	// harness: kind=complete why="x, y and the id fully symbolic at the fixed zoom 3; loops bounded by the zoom (<= 32 iterations)" tier=thorough props=C01,C16,C19 fn=coord_to_tile_id,tile_id_to_coord,rotate timeout=2400
	#[kani::proof]
	#[kani::unwind(34)]
	fn hilbert_z03() { hilbert_roundtrip_at(3); }
	// harness: kind=complete why="x, y and the id fully symbolic at the fixed zoom 4; loops bounded by the zoom (<= 32 iterations)" tier=thorough props=C01,C16,C19 fn=coord_to_tile_id,tile_id_to_coord,rotate timeout=2400
	#[kani::proof]
	#[kani::unwind(34)]
	fn hilbert_z04() { hilbert_roundtrip_at(4); }
	// harness: kind=complete why="x, y and the id fully symbolic at the fixed zoom 5; loops bounded by the zoom (<= 32 iterations)" tier=quick props=C01,C16,C19 fn=coord_to_tile_id,tile_id_to_coord,rotate timeout=2400
	#[kani::proof]
	#[kani::unwind(34)]
	fn hilbert_z05() { hilbert_roundtrip_at(5); }
	// harness: kind=complete why="x, y and the id fully symbolic at the fixed zoom 6; loops bounded by the zoom (<= 32 iterations)" tier=thorough props=C01,C16,C19 fn=coord_to_tile_id,tile_id_to_coord,rotate timeout=2400
	#[kani::proof]
	#[kani::unwind(34)]
	fn hilbert_z06() { hilbert_roundtrip_at(6); }
	// harness: kind=complete why="x, y and the id fully symbolic at the fixed zoom 7; loops bounded by the zoom (<= 32 iterations)" tier=thorough props=C01,C16,C19 fn=coord_to_tile_id,tile_id_to_coord,rotate timeout=2400
	#[kani::proof]
	#[kani::unwind(34)]
	fn hilbert_z07() { hilbert_roundtrip_at(7); }
	// harness: kind=complete why="x, y and the id fully symbolic at the fixed zoom 8; loops bounded by the zoom (<= 32 iterations)" tier=thorough props=C01,C16,C19 fn=coord_to_tile_id,tile_id_to_coord,rotate timeout=2400
	#[kani::proof]
	#[kani::unwind(34)]
	fn hilbert_z08() { hilbert_roundtrip_at(8); }
	// harness: kind=complete why="x, y and the id fully symbolic at the fixed zoom 9; loops bounded by the zoom (<= 32 iterations)" tier=thorough props=C01,C16,C19 fn=coord_to_tile_id,tile_id_to_coord,rotate timeout=2400
	#[kani::proof]
	#[kani::unwind(34)]
	fn hilbert_z09() { hilbert_roundtrip_at(9); }
	// harness: kind=complete why="x, y and the id fully symbolic at the fixed zoom 10; loops bounded by the zoom (<= 32 iterations)" tier=thorough props=C01,C16,C19 fn=coord_to_tile_id,tile_id_to_coord,rotate timeout=2400
	#[kani::proof]
	#[kani::unwind(34)]
	fn hilbert_z10() { hilbert_roundtrip_at(10); }
	// harness: kind=complete why="x, y and the id fully symbolic at the fixed zoom 11; loops bounded by the zoom (<= 32 iterations)" tier=thorough props=C01,C16,C19 fn=coord_to_tile_id,tile_id_to_coord,rotate timeout=2400
	#[kani::proof]
	#[kani::unwind(34)]
	fn hilbert_z11() { hilbert_roundtrip_at(11); }
	// harness: kind=complete why="x, y and the id fully symbolic at the fixed zoom 12; loops bounded by the zoom (<= 32 iterations)" tier=thorough props=C01,C16,C19 fn=coord_to_tile_id,tile_id_to_coord,rotate timeout=2400
	#[kani::proof]
	#[kani::unwind(34)]
	fn hilbert_z12() { hilbert_roundtrip_at(12); }
	// harness: kind=complete why="x, y and the id fully symbolic at the fixed zoom 13; loops bounded by the zoom (<= 32 iterations)" tier=thorough props=C01,C16,C19 fn=coord_to_tile_id,tile_id_to_coord,rotate timeout=2400
	#[kani::proof]
	#[kani::unwind(34)]
	fn hilbert_z13() { hilbert_roundtrip_at(13); }
	// harness: kind=complete why="x, y and the id fully symbolic at the fixed zoom 14; loops bounded by the zoom (<= 32 iterations)" tier=thorough props=C01,C16,C19 fn=coord_to_tile_id,tile_id_to_coord,rotate timeout=2400
	#[kani::proof]
	#[kani::unwind(34)]
	fn hilbert_z14() { hilbert_roundtrip_at(14); }
	// harness: kind=complete why="x, y and the id fully symbolic at the fixed zoom 15; loops bounded by the zoom (<= 32 iterations)" tier=thorough props=C01,C16,C19 fn=coord_to_tile_id,tile_id_to_coord,rotate timeout=2400
	#[kani::proof]
	#[kani::unwind(34)]
	fn hilbert_z15() { hilbert_roundtrip_at(15); }
	// harness: kind=complete why="x, y and the id fully symbolic at the fixed zoom 16; loops bounded by the zoom (<= 32 iterations)" tier=thorough props=C01,C16,C19 fn=coord_to_tile_id,tile_id_to_coord,rotate timeout=2400
	#[kani::proof]
	#[kani::unwind(34)]
	fn hilbert_z16() { hilbert_roundtrip_at(16); }
	// harness: kind=complete why="x, y and the id fully symbolic at the fixed zoom 17; loops bounded by the zoom (<= 32 iterations)" tier=thorough props=C01,C16,C19 fn=coord_to_tile_id,tile_id_to_coord,rotate timeout=2400
	#[kani::proof]
	#[kani::unwind(34)]
	fn hilbert_z17() { hilbert_roundtrip_at(17); }
	// harness: kind=complete why="x, y and the id fully symbolic at the fixed zoom 18; loops bounded by the zoom (<= 32 iterations)" tier=thorough props=C01,C16,C19 fn=coord_to_tile_id,tile_id_to_coord,rotate timeout=2400
	#[kani::proof]
	#[kani::unwind(34)]
	fn hilbert_z18() { hilbert_roundtrip_at(18); }
	// harness: kind=complete why="x, y and the id fully symbolic at the fixed zoom 19; loops bounded by the zoom (<= 32 iterations)" tier=thorough props=C01,C16,C19 fn=coord_to_tile_id,tile_id_to_coord,rotate timeout=2400
	#[kani::proof]
	#[kani::unwind(34)]
	fn hilbert_z19() { hilbert_roundtrip_at(19); }
	// harness: kind=complete why="x, y and the id fully symbolic at the fixed zoom 20; loops bounded by the zoom (<= 32 iterations)" tier=thorough props=C01,C16,C19 fn=coord_to_tile_id,tile_id_to_coord,rotate timeout=2400
	#[kani::proof]
	#[kani::unwind(34)]
	fn hilbert_z20() { hilbert_roundtrip_at(20); }
	// harness: kind=complete why="x, y and the id fully symbolic at the fixed zoom 21; loops bounded by the zoom (<= 32 iterations)" tier=thorough props=C01,C16,C19 fn=coord_to_tile_id,tile_id_to_coord,rotate timeout=2400
	#[kani::proof]
	#[kani::unwind(34)]
	fn hilbert_z21() { hilbert_roundtrip_at(21); }
	// harness: kind=complete why="x, y and the id fully symbolic at the fixed zoom 22; loops bounded by the zoom (<= 32 iterations)" tier=thorough props=C01,C16,C19 fn=coord_to_tile_id,tile_id_to_coord,rotate timeout=2400
	#[kani::proof]
	#[kani::unwind(34)]
	fn hilbert_z22() { hilbert_roundtrip_at(22); }
	// harness: kind=complete why="x, y and the id fully symbolic at the fixed zoom 23; loops bounded by the zoom (<= 32 iterations)" tier=thorough props=C01,C16,C19 fn=coord_to_tile_id,tile_id_to_coord,rotate timeout=2400
	#[kani::proof]
	#[kani::unwind(34)]
	fn hilbert_z23() { hilbert_roundtrip_at(23); }
	// harness: kind=complete why="x, y and the id fully symbolic at the fixed zoom 24; loops bounded by the zoom (<= 32 iterations)" tier=thorough props=C01,C16,C19 fn=coord_to_tile_id,tile_id_to_coord,rotate timeout=2400
	#[kani::proof]
	#[kani::unwind(34)]
	fn hilbert_z24() { hilbert_roundtrip_at(24); }
	// harness: kind=complete why="x, y and the id fully symbolic at the fixed zoom 25; loops bounded by the zoom (<= 32 iterations)" tier=thorough props=C01,C16,C19 fn=coord_to_tile_id,tile_id_to_coord,rotate timeout=2400
	#[kani::proof]
	#[kani::unwind(34)]
	fn hilbert_z25() { hilbert_roundtrip_at(25); }
	// harness: kind=complete why="x, y and the id fully symbolic at the fixed zoom 26; loops bounded by the zoom (<= 32 iterations)" tier=thorough props=C01,C16,C19 fn=coord_to_tile_id,tile_id_to_coord,rotate timeout=2400
	#[kani::proof]
	#[kani::unwind(34)]
	fn hilbert_z26() { hilbert_roundtrip_at(26); }
	// harness: kind=complete why="x, y and the id fully symbolic at the fixed zoom 27; loops bounded by the zoom (<= 32 iterations)" tier=thorough props=C01,C16,C19 fn=coord_to_tile_id,tile_id_to_coord,rotate timeout=2400
	#[kani::proof]
	#[kani::unwind(34)]
	fn hilbert_z27() { hilbert_roundtrip_at(27); }
	// harness: kind=complete why="x, y and the id fully symbolic at the fixed zoom 28; loops bounded by the zoom (<= 32 iterations)" tier=thorough props=C01,C16,C19 fn=coord_to_tile_id,tile_id_to_coord,rotate timeout=2400
	#[kani::proof]
	#[kani::unwind(34)]
	fn hilbert_z28() { hilbert_roundtrip_at(28); }
	// harness: kind=complete why="x, y and the id fully symbolic at the fixed zoom 29; loops bounded by the zoom (<= 32 iterations)" tier=thorough props=C01,C16,C19 fn=coord_to_tile_id,tile_id_to_coord,rotate timeout=2400
	#[kani::proof]
	#[kani::unwind(34)]
	fn hilbert_z29() { hilbert_roundtrip_at(29); }
	// harness: kind=complete why="x, y and the id fully symbolic at the fixed zoom 30; loops bounded by the zoom (<= 32 iterations)" tier=thorough props=C01,C16,C19 fn=coord_to_tile_id,tile_id_to_coord,rotate timeout=2400
	#[kani::proof]
	#[kani::unwind(34)]
	fn hilbert_z30() { hilbert_roundtrip_at(30); }
	// harness: kind=complete why="x, y and the id fully symbolic at the fixed zoom 31; loops bounded by the zoom (<= 32 iterations)" tier=thorough props=C01,C16,C19 fn=coord_to_tile_id,tile_id_to_coord,rotate timeout=2400
	#[kani::proof]
	#[kani::unwind(34)]
	fn hilbert_z31() { hilbert_roundtrip_at(31); }
	// harness: kind=complete why="x, y symbolic, zoom <= 5: agreement with the specification's reference algorithm" tier=quick props=C01,C16 fn=coord_to_tile_id timeout=2400
	#[kani::proof]
	#[kani::unwind(34)]
	fn hilbert_matches_spec_small() {
		let z: u8 = kani::any(); kani::assume(z <= 5);
		let x: u32 = kani::any(); let y: u32 = kani::any();
		kani::assume((x as u64) < (1u64 << z) && (y as u64) < (1u64 << z));
		assert!(coord_to_tile_id(x, y, z) == Ok(spec_zxy_to_tileid(z, x, y)));
	}
	// harness: kind=complete why="any u64: decoding a tile id never panics; ids beyond zoom 31 are errors" tier=thorough props=C19,C16 fn=tile_id_to_coord timeout=3600
	#[kani::proof]
	#[kani::unwind(34)]
	fn tile_id_to_coord_total() {
		let id: u64 = kani::any();
		match tile_id_to_coord(id) { Ok(c) => assert!(c.z <= 31), Err(_) => assert!(id >= ((1u128 << 64) - 1) as u64 / 3) }
	}

	fn le64(b: &[u8], o: usize) -> u64 { let mut v = 0u64; let mut i = 0; while i < 8 { v |= (b[o + i] as u64) << (8 * i); i += 1; } v }
	fn le32(b: &[u8], o: usize) -> i32 { let mut v = 0u32; let mut i = 0; while i < 4 { v |= (b[o + i] as u32) << (8 * i); i += 1; } v as i32 }
	// harness: kind=complete why="fixed-size record (127 bytes), every header value symbolic" tier=quick props=C01,C16 fn=HeaderV3::serialize,HeaderV3::deserialize timeout=2400
	#[kani::proof]
	#[kani::unwind(130)]
	fn header_roundtrip_and_layout() {
		let h: HeaderV3 = kani::any();
		let blob = h.serialize().unwrap();
		let b = blob.as_slice();
		// published layout of the PMTiles v3 header (all integers little-endian)
		assert!(b.len() == 127 && b[0] == b'P' && b[1] == b'M' && b[2] == b'T' && b[3] == b'i' && b[4] == b'l' && b[5] == b'e' && b[6] == b's' && b[7] == 3);
		assert!(le64(b, 8) == h.root_dir.offset && le64(b, 16) == h.root_dir.length && le64(b, 24) == h.metadata.offset && le64(b, 32) == h.metadata.length);
		assert!(le64(b, 40) == h.leaf_dirs.offset && le64(b, 48) == h.leaf_dirs.length && le64(b, 56) == h.tile_data.offset && le64(b, 64) == h.tile_data.length);
		assert!(le64(b, 72) == h.addressed_tiles_count && le64(b, 80) == h.tile_entries_count && le64(b, 88) == h.tile_contents_count);
		assert!(b[96] == h.clustered as u8 && b[97] == h.internal_compression as u8 && b[98] == h.tile_compression as u8 && b[99] == h.tile_type as u8);
		assert!(b[100] == h.min_zoom && b[101] == h.max_zoom && le32(b, 102) == h.min_lon_e7 && le32(b, 106) == h.min_lat_e7 && le32(b, 110) == h.max_lon_e7 && le32(b, 114) == h.max_lat_e7);
		assert!(b[118] == h.center_zoom && le32(b, 119) == h.center_lon_e7 && le32(b, 123) == h.center_lat_e7);
		let back = HeaderV3::deserialize(&blob).unwrap();
		assert!(back == h);
	}
	// harness: kind=complete why="fixed-size record: ALL byte strings of length 127, and all lengths 0..128" tier=quick props=C19,C16 fn=HeaderV3::deserialize,PMTilesCompression::from_u8,PMTilesType::from_u8 timeout=2400
	#[kani::proof]
	#[kani::unwind(130)]
	fn header_deserialize_total() {
		let data: [u8; BCAP] = kani::any();
		let n: usize = kani::any(); kani::assume(n <= BCAP);
		let r = HeaderV3::deserialize(&Blob { data, n });
		if n != 127 { assert!(r.is_err()); }
		if let Ok(h) = r { assert!(n == 127 && data[7] == 3 && h.root_dir.offset == le64(&data, 8) && h.min_zoom == data[100]); }
	}

	// independent decoder of the directory layout, written from the specification
	fn spec_varint(b: &[u8], pos: &mut usize) -> Option<u64> {
		let mut v: u64 = 0; let mut shift = 0u32;
		loop {
			if *pos >= b.len() { return None; }
			let byte = b[*pos]; *pos += 1;
			if shift < 64 { v |= ((byte & 0x7f) as u64) << shift; }
			if byte & 0x80 == 0 { return Some(v); }
			shift += 7;
			if shift >= 70 { return None; }
		}
	}
	const NMAX: usize = 2;
	// harness: kind=bounded bound="directory bytes <= 10, directories announcing at most 2 entries" tier=thorough props=C16,C19,C01 fn=EntriesV3::from_blob,ValueReader::read_varint timeout=3600 mem=40
	#[kani::proof]
	#[kani::unwind(12)]
	fn directory_decode_matches_spec() {
		let mut data = [0u8; BCAP];
		let n: usize = kani::any(); kani::assume(n <= 10);
		let mut i = 0; while i < 10 { data[i] = kani::any(); i += 1; }
		let blob = Blob { data, n };
		// reference decode
		let b = blob.as_slice();
		let mut pos = 0usize;
		let cnt = match spec_varint(b, &mut pos) { Some(c) => c, None => { assert!(EntriesV3::from_blob(&blob).is_err()); return; } };
		kani::assume(cnt <= NMAX as u64);        // the bound: directories announcing at most 3 entries
		let cnt = cnt as usize;
		let r = EntriesV3::from_blob(&blob);     // arbitrary bytes: Ok or Err, never a panic (C19)
		let mut ids = [0u64; NMAX]; let mut runs = [0u32; NMAX]; let mut lens = [0u64; NMAX]; let mut offs = [0u64; NMAX];
		let mut ok = true;
		let mut last: u64 = 0;
		let mut k = 0; while k < NMAX { if k < cnt && ok { match spec_varint(b, &mut pos) { Some(d) => { match last.checked_add(d) { Some(x) => { last = x; ids[k] = x; } None => ok = false } } None => ok = false } } k += 1; }
		k = 0; while k < NMAX { if k < cnt && ok { match spec_varint(b, &mut pos) { Some(d) => runs[k] = d as u32, None => ok = false } } k += 1; }
		k = 0; while k < NMAX { if k < cnt && ok { match spec_varint(b, &mut pos) { Some(d) => lens[k] = d, None => ok = false } } k += 1; }
		k = 0; while k < NMAX { if k < cnt && ok { match spec_varint(b, &mut pos) { Some(d) => {
			if d == 0 { if k == 0 { ok = false } else { match offs[k - 1].checked_add(lens[k - 1]) { Some(x) => offs[k] = x, None => ok = false } } } else { offs[k] = d - 1; } } None => ok = false } } k += 1; }
		match r {
			Err(_) => assert!(!ok),
			Ok(e) => { assert!(ok && e.entries.len() == cnt);
				k = 0; while k < NMAX { if k < cnt { let x = e.entries[k]; assert!(x.tile_id == ids[k] && x.run_length == runs[k] && x.range.length == lens[k] && x.range.offset == offs[k]); } k += 1; }
				// decoded directories are sorted by id, so find_tile's precondition holds for every decoded directory
				k = 1; while k < NMAX { if k < cnt { assert!(e.entries[k - 1].tile_id <= e.entries[k].tile_id); } k += 1; }
				let probe: u64 = kani::any();
				let _ = e.find_tile(probe);   // lookup in any decoded directory: no panic
			}
		}
	}
	// the same comparison for longer directories whose numbers all fit one varint byte (< 128): up to 4 entries, so that
	// "offset 0 = directly after the PREVIOUS entry" is exercised after an entry that points back to shared data
	// harness: kind=bounded bound="directories of at most 4 entries whose varints are single bytes (all values < 128)" tier=thorough props=C16,C01,C19 fn=EntriesV3::from_blob timeout=3600 mem=44
	#[kani::proof]
	#[kani::unwind(18)]
	fn directory_decode_matches_spec_small_values() {
		let mut data = [0u8; BCAP];
		let cnt: usize = kani::any(); kani::assume(cnt <= 4);
		data[0] = cnt as u8;
		let mut i = 0; while i < 16 { let b: u8 = kani::any(); kani::assume(b < 0x80); data[1 + i] = b; i += 1; }
		let n: usize = kani::any(); kani::assume(n <= 17);
		let blob = Blob { data, n };
		let r = EntriesV3::from_blob(&blob);
		// reference (PMTiles v3 spec): columns of cnt ids (deltas), run lengths, lengths, offsets (0 = previous offset + previous length, else value - 1)
		let complete = n >= 1 + 4 * cnt;
		let mut ok = complete;
		let mut ids = [0u64; 4]; let mut offs = [0u64; 4];
		let mut last = 0u64;
		let mut k = 0; while k < 4 { if k < cnt && complete { last += data[1 + k] as u64; ids[k] = last; } k += 1; }
		k = 0; while k < 4 { if k < cnt && complete { let d = data[1 + 3 * cnt + k] as u64;
			if d == 0 { if k == 0 { ok = false; } else { offs[k] = offs[k - 1] + data[1 + 2 * cnt + (k - 1)] as u64; } } else { offs[k] = d - 1; } } k += 1; }
		match r {
			Err(_) => assert!(!ok),
			Ok(e) => { assert!(ok && e.entries.len() == cnt);
				k = 0; while k < 4 { if k < cnt { let x = e.entries[k];
					assert!(x.tile_id == ids[k] && x.run_length == data[1 + cnt + k] as u32 && x.range.length == data[1 + 2 * cnt + k] as u64 && x.range.offset == offs[k]); } k += 1; } }
		}
	}
	// harness: kind=canary expect=fail tier=quick props=C01,C16,C19 timeout=1200
	#[kani::proof]
	#[kani::unwind(34)]
	fn pmtiles_canary_must_fail() {
		let x: u32 = kani::any(); let y: u32 = kani::any();
		if let Ok(id) = coord_to_tile_id(x, y, 3) { if let Ok(c) = tile_id_to_coord(id) { assert!(c.x == y); } }   // wrong on purpose
	}
}
