// unit versatiles_stream — versatiles_container/src/container/versatiles/reader.rs: the per-block closure of get_bbox_tile_stream
// (lifted, R10): which tiles of a block are read, and how they are grouped into chunked range reads (C02, C01). Every selected index
// entry ends up in exactly one chunk, in file order, and lies inside its chunk's byte range; a block the container does not have
// contributes nothing (no panic).
use vstd::prelude::*;
use std::mem::swap;
use std::ops::{Div, Rem, Shr};
use std::sync::Arc;
verus! {
//@include common/prelude.vrs
//@include common/tile_bbox.vrs
//@include common/transform.vrs

#[derive(Clone, Copy, PartialEq, Eq, Debug, Structural)]
//@extract struct file="versatiles_core/src/types/byte_range.rs" name="ByteRange"
//@end
impl ByteRange {
//@extract fn file="versatiles_core/src/types/byte_range.rs" scope="impl ByteRange" name="new"
//@ret r
//@spec
		ensures r.offset == offset, r.length == length
//@end
}
//@extract struct file="versatiles_container/src/container/versatiles/types/block_definition.rs" name="BlockDefinition"
//@end
// trusted: #[derive(Clone)] / to_owned is field-wise
impl Clone for BlockDefinition { fn clone(&self) -> (r: Self) ensures r == *self {
	BlockDefinition { offset: self.offset, global_bbox: self.global_bbox.clone(), tiles_coverage: self.tiles_coverage.clone(), tiles_range: self.tiles_range, index_range: self.index_range } } }
impl BlockDefinition {
	// what BlockDefinition::from_blob / ::new establish (Kani unit versatiles_codec)
	pub open spec fn ok(&self) -> bool { self.global_bbox.wf() && !self.global_bbox.empty() && self.global_bbox.level == self.offset.z }
//@extract fn file="versatiles_container/src/container/versatiles/types/block_definition.rs" scope="impl BlockDefinition" name="get_global_bbox"
//@ret r
//@spec
		ensures *r == self.global_bbox
//@end
	pub fn to_owned(&self) -> (r: BlockDefinition) ensures r == *self { self.clone() }
}
// R6: BlockIndex (HashMap lookup, unit block_index) -> a partial map from block coordinate to block definition
#[verifier::external_body] pub struct AbsBlockIndex { }
impl AbsBlockIndex {
	pub uninterp spec fn block_at(&self, c: TileCoord3) -> Option<BlockDefinition>;
	#[verifier::external_body]
	pub fn get_block(&self, coord: &TileCoord3) -> (r: Option<&BlockDefinition>)
		ensures match r { Some(b) => self.block_at(*coord) == Some(*b) && b.ok() && b.offset == *coord, None => self.block_at(*coord) is None }
	{ unimplemented!() }
}
// R6: the decoded tile index of a block (unit tile_index): one byte range per tile of the block, row-major
#[verifier::external_body] pub struct TileIndex { }
impl TileIndex { pub uninterp spec fn ranges(&self) -> Seq<ByteRange>; }
pub struct VersaTilesReader { pub block_index: AbsBlockIndex }
impl VersaTilesReader {
	// the lookup of the block's index (unit versatiles_reader); assumption A-vstream-1: it does not fail inside the stream (the stream
	// has no error channel; the real code unwraps)
	#[verifier::external_body]
	pub fn get_block_tile_index(&self, block: &BlockDefinition) -> (r: Result<Arc<TileIndex>, VErr>) ensures r is Ok { unimplemented!() }
}
// the index entries of a block that a request selects: those whose coordinate lies in the requested part and whose tile is non-empty,
// in index order (trusted: Iterator::{enumerate, map, filter, collect}); assumption A-vstream-2: their byte ranges lie inside a file of
// less than 2^62 bytes (valid container)
pub uninterp spec fn block_entries(idx: TileIndex, block_bbox: TileBBox, used: TileBBox) -> Seq<(TileCoord3, ByteRange)>;
#[verifier::external_body]
pub fn vtile_ranges(idx: &Arc<TileIndex>, block_bbox: &TileBBox, used: &TileBBox) -> (r: Vec<(TileCoord3, ByteRange)>)
	ensures r@ == block_entries(**idx, *block_bbox, *used),
		forall|i: int| 0 <= i < r@.len() ==> (#[trigger] r@[i]).1.offset + r@[i].1.length <= 0x3fff_ffff_ffff_ffff && used.has3(r@[i].0) && r@[i].1.length > 0,
{ unimplemented!() }
pub open spec fn sorted_by_offset(s: Seq<(TileCoord3, ByteRange)>) -> bool { forall|i: int, j: int| 0 <= i <= j < s.len() ==> s[i].1.offset <= s[j].1.offset }
// trusted: slice::sort_by_key — a permutation, ordered by the key
#[verifier::external_body]
pub fn vsort_by_offset(v: &mut Vec<(TileCoord3, ByteRange)>)
	ensures sorted_by_offset(final(v)@), final(v)@.to_multiset() == old(v)@.to_multiset(), final(v)@.len() == old(v)@.len(),
		forall|i: int| #![trigger final(v)@[i]] 0 <= i < final(v)@.len() ==> exists|j: int| 0 <= j < old(v)@.len() && final(v)@[i] == #[trigger] old(v)@[j],
{ unimplemented!() }

//@extract struct file="versatiles_container/src/container/versatiles/reader.rs" scope="impl TilesReaderTrait for VersaTilesReader > fn get_bbox_tile_stream" name="Chunk"
//@end
pub open spec fn in_chunk(c: Chunk, e: (TileCoord3, ByteRange)) -> bool { c.range.offset <= e.1.offset && e.1.offset + e.1.length <= c.range.offset + c.range.length }
impl Chunk {
	// every tile of the chunk lies inside the chunk's byte range (what the later slicing `range.offset - chunk.range.offset` relies on)
	pub open spec fn ok(&self) -> bool { self.range.offset + self.range.length <= 0x3fff_ffff_ffff_ffff && forall|i: int| 0 <= i < self.tiles@.len() ==> in_chunk(*self, #[trigger] self.tiles@[i]) }
//@extract fn file="versatiles_container/src/container/versatiles/reader.rs" scope="impl TilesReaderTrait for VersaTilesReader > fn get_bbox_tile_stream > impl Chunk" name="new"
//@ret r
//@spec
		ensures r.tiles@.len() == 0, r.range.offset == start, r.range.length == 0
//@end
//@extract fn file="versatiles_container/src/container/versatiles/reader.rs" scope="impl TilesReaderTrait for VersaTilesReader > fn get_bbox_tile_stream > impl Chunk" name="push"
//@spec
		requires old(self).ok(), entry.1.offset >= old(self).range.offset, entry.1.offset + entry.1.length <= 0x3fff_ffff_ffff_ffff,
		ensures final(self).ok(), final(self).tiles@ == old(self).tiles@.push(entry), final(self).range.offset == old(self).range.offset,
			final(self).range.length >= old(self).range.length,
//@end
//@extract fn file="versatiles_container/src/container/versatiles/reader.rs" scope="impl TilesReaderTrait for VersaTilesReader > fn get_bbox_tile_stream > impl Chunk" name="len"
//@ret r
//@spec
		ensures r == self.tiles@.len()
//@end
}
// the tiles of the first k chunks, in order
pub open spec fn chunk_tiles(cs: Seq<Chunk>, k: int) -> Seq<(TileCoord3, ByteRange)> decreases k { if k <= 0 { Seq::empty() } else { chunk_tiles(cs, k - 1) + cs[k - 1].tiles@ } }

pub proof fn lemma_chunk_tiles_prefix(cs: Seq<Chunk>, c: Chunk, k: int)
	requires 0 <= k <= cs.len()
	ensures chunk_tiles(cs.push(c), k) == chunk_tiles(cs, k)
	decreases k
{ if k > 0 { lemma_chunk_tiles_prefix(cs, c, k - 1); assert(cs.push(c)[k - 1] == cs[k - 1]); } }
pub proof fn lemma_chunk_tiles_push(cs: Seq<Chunk>, c: Chunk)
	ensures chunk_tiles(cs.push(c), cs.len() as int + 1) == chunk_tiles(cs, cs.len() as int) + c.tiles@
{ lemma_chunk_tiles_prefix(cs, c, cs.len() as int); assert(cs.push(c)[cs.len() as int] == c); }
impl VersaTilesReader {
//@extract closure file="versatiles_container/src/container/versatiles/reader.rs" scope="impl TilesReaderTrait for VersaTilesReader" name="get_bbox_tile_stream" head="|block_coord: TileCoord3|" sig="pub fn block_chunks(&self, bbox: TileBBox, block_coord: TileCoord3) -> Vec<Chunk>" pre="const MAX_CHUNK_SIZE|const MAX_CHUNK_GAP"
//@prerewrite "tile_index .iter() .enumerate() .map(|(index, range)| (tiles_bbox_block.get_coord3_by_index(index as u32).unwrap(), *range)) .filter(|(coord, range)| tiles_bbox_used.contains3(coord) && (range.length > 0)) .collect()" => "vtile_ranges(&tile_index, tiles_bbox_block, &tiles_bbox_used)"
//@rewrite "tile_ranges.sort_by_key(|e| e.1.offset);" => "vsort_by_offset(&mut tile_ranges);" R6
//@rewrite "for entry in tile_ranges {" => "for vi in 0..tile_ranges.len() { let entry = tile_ranges[vi];" R7
//@ret r
//@spec
		// (the block coordinates come from the requested box scaled down by 256: same zoom level)
		requires bbox.wf(), block_coord.z == bbox.level,
		ensures
			// a block the container does not have contributes nothing (and does not panic)
			self.block_index.block_at(block_coord) is None ==> r@.len() == 0,
			// otherwise: the chunks hold exactly the selected index entries (a permutation of them, in file order), every chunk is non-empty
			// and every tile lies inside its chunk's byte range
			self.block_index.block_at(block_coord) is Some ==> (exists|idx: TileIndex, used: TileBBox, s: Seq<(TileCoord3, ByteRange)>|
				#![trigger block_entries(idx, self.block_index.block_at(block_coord).unwrap().global_bbox, used), sorted_by_offset(s)]
				(forall|x: int, y: int| used.has(x, y) <==> (bbox.has(x, y) && self.block_index.block_at(block_coord).unwrap().global_bbox.has(x, y)))
				&& s.to_multiset() == block_entries(idx, self.block_index.block_at(block_coord).unwrap().global_bbox, used).to_multiset() && sorted_by_offset(s)
				&& chunk_tiles(r@, r@.len() as int) == s),
			forall|k: int| 0 <= k < r@.len() ==> (#[trigger] r@[k]).ok(),
//@at "if tile_ranges.is_empty()"
				let ghost ents = tile_ranges@;
				let ghost gb = *tiles_bbox_block;
				proof { assert(self.block_index.block_at(block_coord).unwrap().global_bbox == gb);
					if tile_ranges@.len() == 0 { assert(sorted_by_offset(tile_ranges@)); assert(chunk_tiles(Seq::<Chunk>::empty(), 0) =~= tile_ranges@);
						assert(tile_ranges@.to_multiset() == block_entries(*tile_index, gb, tiles_bbox_used).to_multiset()); } }
//@at "let mut chunks: Vec<Chunk> = Vec::new();"
				let ghost mut f: int = 0;
				proof { assert(chunk_tiles(Seq::<Chunk>::empty(), 0) =~= Seq::<(TileCoord3, ByteRange)>::empty()); assert forall|i: int| 0 <= i < tile_ranges@.len() implies (#[trigger] tile_ranges@[i]).1.offset + tile_ranges@[i].1.length <= 0x3fff_ffff_ffff_ffff by {
					let j = choose|j: int| 0 <= j < ents.len() && tile_ranges@[i] == #[trigger] ents[j]; } }
//@loop 1
					invariant sorted_by_offset(tile_ranges@), tile_ranges@.len() > 0,
						forall|i: int| 0 <= i < tile_ranges@.len() ==> (#[trigger] tile_ranges@[i]).1.offset + tile_ranges@[i].1.length <= 0x3fff_ffff_ffff_ffff,
						chunk.ok(), 0 <= f < tile_ranges@.len(), f <= vi, chunk.range.offset == tile_ranges@[f].1.offset,
						chunk_tiles(chunks@, chunks@.len() as int) + chunk.tiles@ == tile_ranges@.subrange(0, vi as int),
						forall|k: int| 0 <= k < chunks@.len() ==> (#[trigger] chunks@[k]).ok(),
//@loopstart 1
					let ghost cs0 = chunks@; let ghost ct0 = chunk.tiles@;
					proof { assert(tile_ranges@[f].1.offset <= tile_ranges@[vi as int].1.offset); }
//@loopend 1
					// (anchor-free since seed C01-r9: "a chunk was closed in this iteration" is read off the chunk list, not off a statement)
					proof { if chunks@.len() > cs0.len() { f = vi as int; lemma_chunk_tiles_push(cs0, chunks@[chunks@.len() - 1]); assert(chunks@ =~= cs0.push(chunks@[chunks@.len() - 1])); } }
					proof { assert(tile_ranges@.subrange(0, vi + 1) =~= tile_ranges@.subrange(0, vi as int).push(tile_ranges@[vi as int])); }
//@at "if chunk.len() > 0"
				let ghost cs1 = chunks@;
				proof { assert(tile_ranges@.subrange(0, tile_ranges@.len() as int) =~= tile_ranges@); }
//@after "if chunk.len() > 0 { chunks.push(chunk); }"
				proof {
					if cs1.len() < chunks@.len() { lemma_chunk_tiles_push(cs1, chunks@[chunks@.len() - 1]); assert(chunks@ =~= cs1.push(chunks@[chunks@.len() - 1])); }
					assert(chunk_tiles(chunks@, chunks@.len() as int) =~= tile_ranges@);
					assert(sorted_by_offset(tile_ranges@));
					assert(tile_ranges@.to_multiset() == block_entries(*tile_index, gb, tiles_bbox_used).to_multiset());
				}
//@end
}
} // verus!
fn main() {}
