// unit overlay — versatiles_pipeline operations/read/from_overlayed.rs: build (parameter part) and get_tile_data (C08, C03)
use vstd::prelude::*;
use std::mem::swap;
use std::ops::{Div, Rem};
verus! {
//@include common/prelude.vrs
//@include common/tile_bbox.vrs
//@include common/transform.vrs
//@include common/pbf_blob.vrs
//@include common/compression.vrs
//@include common/pyramid_abs.vrs
//@include common/source_abs.vrs


// ---- stand-ins for the per-cell stream (R6/R11) ----------------------------------------------------------------------
impl Clone for Blob { fn clone(&self) -> (r: Self) ensures r@ == self@ { Blob { v: self.v.clone() } } }
#[verifier::opaque]
pub open spec fn flat_sub(tiles: Seq<Option<(TileCoord3, Blob)>>, v: Seq<(TileCoord3, Blob)>) -> bool {
	forall|i: int| #![trigger v[i]] 0 <= i < v.len() ==> exists|k: int| 0 <= k < tiles.len() && #[trigger] tiles[k] == Some(v[i])
}
#[verifier::opaque]
pub open spec fn flat_sup(tiles: Seq<Option<(TileCoord3, Blob)>>, v: Seq<(TileCoord3, Blob)>) -> bool {
	forall|k: int| 0 <= k < tiles.len() && (#[trigger] tiles[k]) is Some ==> exists|i: int| 0 <= i < v.len() && tiles[k] == Some(#[trigger] v[i])
}
// v holds exactly the Some entries of tiles
pub open spec fn flat_rel(tiles: Seq<Option<(TileCoord3, Blob)>>, v: Seq<(TileCoord3, Blob)>) -> bool { flat_sub(tiles, v) && flat_sup(tiles, v) }
pub open spec fn vec_rel(v: Seq<(TileCoord3, Blob)>, s: TileStream) -> bool {
	forall|c: TileCoord3, b: Seq<u8>| s.items().contains((c, b)) <==> exists|i: int| 0 <= i < v.len() && (#[trigger] v[i]).0 == c && v[i].1@ == b
}
// trusted (tile_stream.rs): for_each_sync visits every item of the stream exactly once, one after the other, in some order
#[verifier::external_body]
pub struct ItemIter { }
impl ItemIter {
	pub uninterp spec fn seq(&self) -> Seq<(TileCoord3, Seq<u8>)>;
	pub uninterp spec fn pos(&self) -> int;
	#[verifier::external_body]
	pub fn next(&mut self) -> (r: Option<(TileCoord3, Blob)>)
		ensures final(self).seq() == old(self).seq(), 0 <= final(self).pos() <= final(self).seq().len(),
			match r {
				Some(it) => old(self).pos() < old(self).seq().len() && (it.0, it.1@) == old(self).seq()[old(self).pos()] && final(self).pos() == old(self).pos() + 1,
				None => old(self).pos() >= old(self).seq().len() && final(self).pos() == old(self).pos(),
			}
	{ unimplemented!() }
}
impl TileStream {
	#[verifier::external_body]
	pub fn into_item_iter(self) -> (r: ItemIter)
		ensures r.pos() == 0, forall|c: TileCoord3, b: Seq<u8>| r.seq().contains((c, b)) <==> self.items().contains((c, b))
	{ unimplemented!() }
	// trusted (tile_stream.rs): from_vec streams exactly the elements of the vector
	#[verifier::external_body]
	pub fn from_vec(vec: Vec<(TileCoord3, Blob)>) -> (r: TileStream)
		ensures vec_rel(vec@, r)
	{ unimplemented!() }
}
// R6: `tiles.into_iter().flatten().collect()` -> vflatten(tiles): the Some entries, in order (core::iter::Flatten over Option, trusted)
#[verifier::external_body]
pub fn vflatten(tiles: Vec<Option<(TileCoord3, Blob)>>) -> (r: Vec<(TileCoord3, Blob)>)
	ensures flat_rel(tiles@, r@)
{ unimplemented!() }
// assumption A-overlay-1: a tile of a source decodes under the compression its source declares, i.e. `recompress` does not
// fail inside the stream (the real code panics on `.unwrap()` there; the single-tile lookup returns Err instead)
#[verifier::external_body]
pub fn vcodec_ok(r: Result<Blob, VErr>) -> (b: Blob) ensures r is Ok, b == r.unwrap() { unimplemented!() }

// a coordinate of a box is determined by its row-major index
pub proof fn lemma_index_unique(b: TileBBox, i: int)
	requires b.wf(), 0 <= i < b.w() * b.h()
	ensures forall|x: int, y: int| #![trigger b.has(x, y)] b.has(x, y) && (y - b.y_min) * b.w() + (x - b.x_min) == i ==> x == b.x_min + i % b.w() && y == b.y_min + i / b.w()
{
	assert forall|x: int, y: int| #![trigger b.has(x, y)] b.has(x, y) && (y - b.y_min) * b.w() + (x - b.x_min) == i implies x == b.x_min + i % b.w() && y == b.y_min + i / b.w() by {
		lemma_coord_index_inverse(b, x, y);
	}
}
#[verifier::external_body] pub struct VPLNode { }
#[verifier::external_body] pub struct PipelineFactory { }
// R9 stand-in: an unconstrained value of the declared type
#[verifier::external_body] pub fn vhavoc<T>() -> T { unimplemented!() }
//@rewrite "Box<dyn OperationTrait>" => "AbsSource"

// R6: Vec<VPLPipeline> -> opaque (the nested pipelines are built by the havoc'd join_all)
#[verifier::external_body] pub struct Args { }
impl Args { #[verifier::external_body] pub fn from_vpl_node(n: &VPLNode) -> (r: Result<Args, VErr>) { unimplemented!() } }
//@extract struct file="versatiles_pipeline/src/operations/read/from_overlayed.rs" name="Operation"
//@end

// the compression the overlay declares (C08): the common compression of its sources, else uncompressed
pub open spec fn common_comp(s: Seq<AbsSource>, n: int) -> TileCompression {
	if forall|j: int| 0 <= j < n ==> (#[trigger] s[j]).params().tile_compression == s[0].params().tile_compression { s[0].params().tile_compression } else { TileCompression::Uncompressed }
}

impl Operation {
	pub open spec fn declared(&self) -> TileCompression { self.parameters.tile_compression }
	// statement of C08: the tile of the first source in list order that has one, re-encoded to the declared compression
	pub open spec fn is_overlay_tile(&self, c: TileCoord3, r: Option<Seq<u8>>) -> bool {
		match r {
			None => forall|i: int| 0 <= i < self.sources@.len() ==> (#[trigger] self.sources@[i]).tile_at(c) is None,
			Some(b) => exists|i: int| 0 <= i < self.sources@.len()
				&& (forall|j: int| 0 <= j < i ==> (#[trigger] self.sources@[j]).tile_at(c) is None)
				&& (#[trigger] self.sources@[i]).tile_at(c) is Some
				&& decode(self.declared(), b) == decode(self.sources@[i].params().tile_compression, self.sources@[i].tile_at(c).unwrap()),
		}
	}

//@extract fn file="versatiles_pipeline/src/operations/read/from_overlayed.rs" scope="impl ReadOperationTrait for Operation" name="build"
//@rewrite "BoxFuture<'_, Result<AbsSource, anyhow::Error>>" => "Result<Operation, VErr>"
//@rewrite "where Self: Sized + OperationTrait," => ""
//@rewrite "Ok(Box::new(Self {" => "Ok((Self {"
//@rewrite "}) as AbsSource)" => "}))"
//@havoc "let sources =" type="Vec<AbsSource>"
//@ret r
//@spec
		ensures r is Ok ==> ({ let op = r.unwrap(); let s = op.sources@;
			s.len() >= 2
			&& (forall|i: int| 0 <= i < s.len() ==> (#[trigger] s[i]).params().tile_format == op.parameters.tile_format)
			&& op.parameters.tile_compression == common_comp(s, s.len() as int)
			&& op.parameters.bbox_pyramid.wf()
			// advertised coverage contains the coverage of every source (C03; the per-level bounding union is proved in unit pyramid)
			&& (forall|i: int, z: int, x: int, y: int| 0 <= i < s.len() && 0 <= z < 32 && (#[trigger] s[i].params().bbox_pyramid.level(z).has(x, y)) ==> op.parameters.bbox_pyramid.level(z).has(x, y)) }),
//@loop 1 iter=it
				invariant pyramid.wf(),
					sources@.len() >= 2,
					forall|j: int| 0 <= j < it.index@ ==> (#[trigger] sources@[j]).params().tile_format == tile_format,
					tile_compression == common_comp(sources@, it.index@ as int),
					forall|j: int, z: int, x: int, y: int| 0 <= j < it.index@ && 0 <= z < 32 && (#[trigger] sources@[j].params().bbox_pyramid.level(z).has(x, y)) ==> pyramid.level(z).has(x, y),
//@at "let parameters = TilesReaderParameters::new"
			proof { assert(sources@.take(sources@.len() as int) =~= sources@); }
//@end
//@extract fn file="versatiles_pipeline/src/operations/read/from_overlayed.rs" scope="impl OperationTrait for Operation" name="get_parameters"
//@ret r
//@spec
		ensures *r == self.parameters
//@end
//@extract fn file="versatiles_pipeline/src/operations/read/from_overlayed.rs" scope="impl OperationTrait for Operation" name="get_tile_data"
//@ret r
//@spec
		ensures r is Ok ==> self.is_overlay_tile(*coord, match r.unwrap() { Some(b) => Some(b@), None => None })
//@loop 1 iter=it
			invariant forall|j: int| 0 <= j < it.index@ ==> (#[trigger] self.sources@[j]).tile_at(*coord) is None,
//@end

	// ---- the per-cell stream of get_tile_stream (C02, C08): the closure that get_tile_stream maps over iter_bbox_grid(32) ----
	pub open spec fn coord_of(bbox: TileBBox, i: int) -> TileCoord3 {
		TileCoord3 { x: (bbox.x_min + i % bbox.w()) as u32, y: (bbox.y_min + i / bbox.w()) as u32, z: bbox.level }
	}
	// the first k sources decide the tile at c to be b
	pub open spec fn first_of(&self, k: int, c: TileCoord3, b: Seq<u8>) -> bool {
		exists|i: int| 0 <= i < k
			&& (forall|j: int| 0 <= j < i ==> (#[trigger] self.sources@[j]).tile_at(c) is None)
			&& (#[trigger] self.sources@[i]).tile_at(c) is Some
			&& decode(self.declared(), b) == decode(self.sources@[i].params().tile_compression, self.sources@[i].tile_at(c).unwrap())
	}
	pub open spec fn none_of(&self, k: int, c: TileCoord3) -> bool {
		forall|j: int| 0 <= j < k ==> (#[trigger] self.sources@[j]).tile_at(c) is None
	}
	pub open spec fn slots_ok(&self, bbox: TileBBox, tiles: Seq<Option<(TileCoord3, Blob)>>, k: int) -> bool {
		tiles.len() == bbox.w() * bbox.h()
		&& forall|i: int| 0 <= i < tiles.len() ==> match #[trigger] tiles[i] {
			Some(e) => e.0 == Self::coord_of(bbox, i) && self.first_of(k, e.0, e.1@),
			None => self.none_of(k, Self::coord_of(bbox, i)),
		}
	}

	// the slots while the stream of source k (requested for the box `bl` of the still empty slots) is being consumed:
	// filled slots are decided by the first k + 1 sources; an empty slot has no tile in the first k sources, lies in `bl`,
	// and its coordinate has not been delivered yet
	pub open spec fn slots_mid(&self, bbox: TileBBox, tiles: Seq<Option<(TileCoord3, Blob)>>, k: int, bl: TileBBox, s: Seq<(TileCoord3, Seq<u8>)>, pos: int) -> bool {
		tiles.len() == bbox.w() * bbox.h()
		&& forall|i: int| 0 <= i < tiles.len() ==> match #[trigger] tiles[i] {
			Some(e) => e.0 == Self::coord_of(bbox, i) && self.first_of(k + 1, e.0, e.1@),
			None => self.none_of(k, Self::coord_of(bbox, i)) && bl.has3(Self::coord_of(bbox, i))
				&& forall|q: int| 0 <= q < pos ==> (#[trigger] s[q]).0 != Self::coord_of(bbox, i),
		}
	}
	pub open spec fn cell_post(&self, bbox: TileBBox, r: TileStream) -> bool {
		// every delivered tile lies in the cell and is what the lookup delivers: first source in list order, declared compression
		&&& forall|c: TileCoord3, b: Seq<u8>| #[trigger] r.items().contains((c, b)) ==> bbox.has3(c) && self.is_overlay_tile(c, Some(b))
		// every coordinate of the cell for which some source has a tile is delivered
		&&& forall|c: TileCoord3| #[trigger] bbox.has3(c) && !self.is_overlay_tile(c, None) ==> exists|b: Seq<u8>| #[trigger] r.items().contains((c, b))
		// at most one tile per coordinate
		&&& forall|c: TileCoord3, b1: Seq<u8>, b2: Seq<u8>| #[trigger] r.items().contains((c, b1)) && #[trigger] r.items().contains((c, b2)) ==> b1 == b2
	}
	pub proof fn lemma_first_mono(&self, bbox: TileBBox, tiles: Seq<Option<(TileCoord3, Blob)>>, k: int)
		requires self.slots_ok(bbox, tiles, k)
		ensures forall|i: int| 0 <= i < tiles.len() && (#[trigger] tiles[i]) is Some ==> self.first_of(k + 1, tiles[i].unwrap().0, tiles[i].unwrap().1@)
	{
		assert forall|i: int| 0 <= i < tiles.len() && (#[trigger] tiles[i]) is Some implies self.first_of(k + 1, tiles[i].unwrap().0, tiles[i].unwrap().1@) by {
			let e = tiles[i].unwrap();
			assert(self.first_of(k, e.0, e.1@));
			let w = choose|w: int| 0 <= w < k
				&& (forall|j: int| 0 <= j < w ==> (#[trigger] self.sources@[j]).tile_at(e.0) is None)
				&& (#[trigger] self.sources@[w]).tile_at(e.0) is Some
				&& decode(self.declared(), e.1@) == decode(self.sources@[w].params().tile_compression, self.sources@[w].tile_at(e.0).unwrap());
			assert(0 <= w < k + 1);
		}
	}
	pub proof fn lemma_stream_done(&self, bbox: TileBBox, tiles: Seq<Option<(TileCoord3, Blob)>>, k: int, bl: TileBBox, s: Seq<(TileCoord3, Seq<u8>)>, pos: int)
		requires 0 <= k < self.sources@.len(), pos >= s.len(), self.slots_mid(bbox, tiles, k, bl, s, pos),
			forall|c: TileCoord3, b: Seq<u8>| s.contains((c, b)) <==> (bl.has3(c) && self.sources@[k].tile_at(c) == Some(b)),
		ensures self.slots_ok(bbox, tiles, k + 1)
	{
		assert forall|i: int| 0 <= i < tiles.len() && (#[trigger] tiles[i]) is None implies self.none_of(k + 1, Self::coord_of(bbox, i)) by {
			let c = Self::coord_of(bbox, i);
			if self.sources@[k].tile_at(c) is Some {
				let t = self.sources@[k].tile_at(c).unwrap();
				assert(s.contains((c, t)));
				let q = choose|q: int| 0 <= q < s.len() && s[q] == (c, t);
				assert(s[q].0 != c);
			}
		}
	}
	pub proof fn lemma_cell_final_1(&self, bbox: TileBBox, tiles: Seq<Option<(TileCoord3, Blob)>>, v: Seq<(TileCoord3, Blob)>, s: TileStream, c: TileCoord3, b: Seq<u8>)
		requires bbox.wf(), self.slots_ok(bbox, tiles, self.sources@.len() as int), flat_rel(tiles, v), vec_rel(v, s), s.items().contains((c, b))
		ensures bbox.has3(c) && self.is_overlay_tile(c, Some(b))
	{
		let n = self.sources@.len() as int;
		reveal(flat_sub);
		let i = choose|i: int| 0 <= i < v.len() && (#[trigger] v[i]).0 == c && v[i].1@ == b;
		let k = choose|k: int| 0 <= k < tiles.len() && #[trigger] tiles[k] == Some(v[i]);
		lemma_index_coord_inverse(bbox, k);
		assert(tiles[k].unwrap().0 == Self::coord_of(bbox, k));
		assert(self.first_of(n, c, b));
	}
	pub proof fn lemma_cell_final_2(&self, bbox: TileBBox, tiles: Seq<Option<(TileCoord3, Blob)>>, v: Seq<(TileCoord3, Blob)>, s: TileStream, c: TileCoord3)
		requires bbox.wf(), self.slots_ok(bbox, tiles, self.sources@.len() as int), flat_rel(tiles, v), vec_rel(v, s), bbox.has3(c), !self.is_overlay_tile(c, None)
		ensures exists|b: Seq<u8>| #[trigger] s.items().contains((c, b))
	{
		let n = self.sources@.len() as int;
		reveal(flat_sup);
		lemma_coord_index_inverse(bbox, c.x as int, c.y as int);
		let k = (c.y - bbox.y_min) * bbox.w() + (c.x - bbox.x_min);
		assert(Self::coord_of(bbox, k) == c);
		if tiles[k] is None { assert(self.none_of(n, c)); assert(false); }
		let e = tiles[k].unwrap();
		let i = choose|i: int| 0 <= i < v.len() && tiles[k] == Some(#[trigger] v[i]);
		assert(v[i].0 == c && v[i].1@ == e.1@);
		assert(s.items().contains((c, e.1@)));
	}
	pub proof fn lemma_cell_final_3(&self, bbox: TileBBox, tiles: Seq<Option<(TileCoord3, Blob)>>, v: Seq<(TileCoord3, Blob)>, s: TileStream, c: TileCoord3, b1: Seq<u8>, b2: Seq<u8>)
		requires bbox.wf(), self.slots_ok(bbox, tiles, self.sources@.len() as int), flat_rel(tiles, v), vec_rel(v, s), s.items().contains((c, b1)), s.items().contains((c, b2))
		ensures b1 == b2
	{
		reveal(flat_sub);
		let i1 = choose|i: int| 0 <= i < v.len() && (#[trigger] v[i]).0 == c && v[i].1@ == b1;
		let i2 = choose|i: int| 0 <= i < v.len() && (#[trigger] v[i]).0 == c && v[i].1@ == b2;
		let k1 = choose|k: int| 0 <= k < tiles.len() && #[trigger] tiles[k] == Some(v[i1]);
		let k2 = choose|k: int| 0 <= k < tiles.len() && #[trigger] tiles[k] == Some(v[i2]);
		lemma_index_coord_inverse(bbox, k1); lemma_index_coord_inverse(bbox, k2);
		assert(tiles[k1].unwrap().0 == Self::coord_of(bbox, k1));
		assert(tiles[k2].unwrap().0 == Self::coord_of(bbox, k2));
		assert(k1 == k2);
	}
	pub proof fn lemma_cell_final(&self, bbox: TileBBox, tiles: Seq<Option<(TileCoord3, Blob)>>, v: Seq<(TileCoord3, Blob)>, s: TileStream)
		requires bbox.wf(), self.slots_ok(bbox, tiles, self.sources@.len() as int), flat_rel(tiles, v), vec_rel(v, s)
		ensures self.cell_post(bbox, s)
	{
		assert forall|c: TileCoord3, b: Seq<u8>| #[trigger] s.items().contains((c, b)) implies bbox.has3(c) && self.is_overlay_tile(c, Some(b)) by { self.lemma_cell_final_1(bbox, tiles, v, s, c, b); }
		assert forall|c: TileCoord3| #[trigger] bbox.has3(c) && !self.is_overlay_tile(c, None) implies exists|b: Seq<u8>| #[trigger] s.items().contains((c, b)) by { self.lemma_cell_final_2(bbox, tiles, v, s, c); }
		assert forall|c: TileCoord3, b1: Seq<u8>, b2: Seq<u8>| #[trigger] s.items().contains((c, b1)) && #[trigger] s.items().contains((c, b2)) implies b1 == b2 by { self.lemma_cell_final_3(bbox, tiles, v, s, c, b1, b2); }
	}
	pub proof fn lemma_cell_final_all(&self, bbox: TileBBox, tiles: Seq<Option<(TileCoord3, Blob)>>)
		requires bbox.wf(), self.slots_ok(bbox, tiles, self.sources@.len() as int)
		ensures forall|v: Seq<(TileCoord3, Blob)>, s: TileStream| #![trigger flat_rel(tiles, v), vec_rel(v, s)] flat_rel(tiles, v) && vec_rel(v, s) ==> self.cell_post(bbox, s)
	{
		assert forall|v: Seq<(TileCoord3, Blob)>, s: TileStream| #![trigger flat_rel(tiles, v), vec_rel(v, s)] flat_rel(tiles, v) && vec_rel(v, s) implies self.cell_post(bbox, s) by {
			self.lemma_cell_final(bbox, tiles, v, s);
		}
	}
//@extract closure file="versatiles_pipeline/src/operations/read/from_overlayed.rs" scope="impl OperationTrait for Operation" name="get_tile_stream" head="move |bbox| async move" sig="pub fn cell_stream(&self, bbox: TileBBox) -> TileStream" pre="let output_compression" foreach="1"
//@rewrite "for source in self.sources.iter() {" => "let mut vsrc_i: usize = 0; while vsrc_i < self.sources.len() { let source = &self.sources[vsrc_i]; vsrc_i += 1;" R7
//@rewrite "for (index, t) in tiles.iter().enumerate() {" => "for index in 0..tiles.len() { let t = &tiles[index];" R7
//@rewrite "blob = recompress(blob," => "blob = vcodec_ok(recompress(blob,"
//@rewrite "output_compression).unwrap();" => "output_compression));"
//@rewrite "tiles.into_iter().flatten().collect()" => "vflatten(tiles)"
//@ret r
//@spec
		// a cell of iter_bbox_grid(32): at most 32 x 32 tiles (grid law: Kani unit tile_bbox_iter)
		requires bbox.wf(), bbox.w() <= 32, bbox.h() <= 32,
		ensures self.cell_post(bbox, r),
//@start
		proof { assert(bbox.w() * bbox.h() <= 1024) by (nonlinear_arith) requires 0 <= bbox.w() <= 32, 0 <= bbox.h() <= 32; }
//@loop 1
				invariant bbox.wf(), bbox.w() <= 32, bbox.h() <= 32, bbox.w() * bbox.h() <= 1024,
					*output_compression == self.declared(),
					vsrc_i <= self.sources@.len(),
					self.slots_ok(bbox, tiles@, vsrc_i as int),
				decreases self.sources@.len() - vsrc_i,
//@loop 2
					invariant bbox.wf(), bbox.w() * bbox.h() <= 1024, tiles@.len() == bbox.w() * bbox.h(),
						bbox_left.wf(), bbox_left.same_frame(&bbox),
						forall|a: int, b: int| bbox_left.has(a, b) ==> bbox.has(a, b),
						forall|i: int| 0 <= i < index && (#[trigger] tiles@[i]) is None ==> bbox_left.has3(Self::coord_of(bbox, i)),
//@loopstart 2
						let ghost bl0 = bbox_left;
						proof { lemma_index_unique(bbox, index as int); }
//@loopend 2
						proof { bl0.lemma_empty();
							if !bl0.empty() { assert(bl0.has(bl0.x_min as int, bl0.y_min as int)); assert(bl0.has(bl0.x_max as int, bl0.y_max as int)); } }
//@at "let mut vfe_iter"
				let ghost bl = bbox_left;
				let ghost k = vsrc_i as int - 1;
				proof { self.lemma_first_mono(bbox, tiles@, k); }
//@loop 3
					invariant bbox.wf(), bbox.w() * bbox.h() <= 1024, *output_compression == self.declared(),
						0 <= k < self.sources@.len(), *source == self.sources@[k],
						0 <= vfe_iter.pos() <= vfe_iter.seq().len(),
						forall|c: TileCoord3, b: Seq<u8>| vfe_iter.seq().contains((c, b)) <==> (bl.has3(c) && source.tile_at(c) == Some(b)),
						forall|a: int, b: int| bl.has(a, b) ==> bbox.has(a, b),
						bl.level == bbox.level,
						self.slots_mid(bbox, tiles@, k, bl, vfe_iter.seq(), vfe_iter.pos()),
					ensures vfe_iter.pos() >= vfe_iter.seq().len(),
					decreases vfe_iter.seq().len() - vfe_iter.pos(),
//@start
		let ghost mut blob0: Seq<u8> = Seq::empty();
//@at "let index ="
						proof { blob0 = blob@;
							assert(vfe_iter.seq()[vfe_iter.pos() - 1] == (coord, blob0));
							assert(vfe_iter.seq().contains((coord, blob0))); }
//@at "if tiles[index].is_none()"
						proof { lemma_coord_index_inverse(bbox, coord.x as int, coord.y as int);
							// the slot of a delivered tile is the slot of its coordinate in the cell
							assert(Self::coord_of(bbox, index as int) == coord);
							assert forall|i: int| 0 <= i < bbox.w() * bbox.h() && Self::coord_of(bbox, i) == coord implies i == index by { lemma_index_coord_inverse(bbox, i); } }
//@after "tiles[index] = Some((coord, blob));"
							proof { assert(self.first_of(k + 1, coord, blob@)) by {
								assert(self.sources@[k].tile_at(coord) == Some(blob0)); } }
//@at "continue;"
					proof { self.lemma_first_mono(bbox, tiles@, vsrc_i as int - 1);
						assert forall|i: int| 0 <= i < tiles@.len() implies (#[trigger] tiles@[i]) is Some by {
							if tiles@[i] is None { assert(bbox_left.has3(Self::coord_of(bbox, i))); } } }
//@loopend 1
				proof { self.lemma_stream_done(bbox, tiles@, k, bl, vfe_iter.seq(), vfe_iter.pos()); }
//@at "TileStream::from_vec(vflatten(tiles))"
			proof { self.lemma_cell_final_all(bbox, tiles@); }
//@end
}
} // verus!
fn main() {}
