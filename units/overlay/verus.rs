// unit overlay — versatiles_pipeline operations/read/from_overlayed.rs: build (parameter part) and get_tile_data (C08, C03)
use vstd::prelude::*;
use std::mem::swap;
use std::ops::{Div, Rem};
verus! {
//@include common/prelude.vrs
//@include common/tile_bbox.vrs
//@include common/transform.vrs
//@include common/pbf_blob.vrs
//@include common/compression.vrs
//@include common/pyramid_abs.vrs
//@include common/source_abs.vrs

#[verifier::external_body] pub struct VPLNode { }
#[verifier::external_body] pub struct PipelineFactory { }
// R9 stand-in: an unconstrained value of the declared type
#[verifier::external_body] pub fn vhavoc<T>() -> T { unimplemented!() }
//@rewrite "Box<dyn OperationTrait>" => "AbsSource"

// R6: Vec<VPLPipeline> -> opaque (the nested pipelines are built by the havoc'd join_all)
#[verifier::external_body] pub struct Args { }
impl Args { #[verifier::external_body] pub fn from_vpl_node(n: &VPLNode) -> (r: Result<Args, VErr>) { unimplemented!() } }
//@extract struct file="versatiles_pipeline/src/operations/read/from_overlayed.rs" name="Operation"
//@end

// the compression the overlay declares (C08): the common compression of its sources, else uncompressed
pub open spec fn common_comp(s: Seq<AbsSource>, n: int) -> TileCompression {
	if forall|j: int| 0 <= j < n ==> (#[trigger] s[j]).params().tile_compression == s[0].params().tile_compression { s[0].params().tile_compression } else { TileCompression::Uncompressed }
}

impl Operation {
	pub open spec fn declared(&self) -> TileCompression { self.parameters.tile_compression }
	// statement of C08: the tile of the first source in list order that has one, re-encoded to the declared compression
	pub open spec fn is_overlay_tile(&self, c: TileCoord3, r: Option<Seq<u8>>) -> bool {
		match r {
			None => forall|i: int| 0 <= i < self.sources@.len() ==> (#[trigger] self.sources@[i]).tile_at(c) is None,
			Some(b) => exists|i: int| 0 <= i < self.sources@.len()
				&& (forall|j: int| 0 <= j < i ==> (#[trigger] self.sources@[j]).tile_at(c) is None)
				&& (#[trigger] self.sources@[i]).tile_at(c) is Some
				&& decode(self.declared(), b) == decode(self.sources@[i].params().tile_compression, self.sources@[i].tile_at(c).unwrap()),
		}
	}

//@extract fn file="versatiles_pipeline/src/operations/read/from_overlayed.rs" scope="impl ReadOperationTrait for Operation" name="build"
//@rewrite "BoxFuture<'_, Result<AbsSource, anyhow::Error>>" => "Result<Operation, VErr>"
//@rewrite "where Self: Sized + OperationTrait," => ""
//@rewrite "Ok(Box::new(Self {" => "Ok((Self {"
//@rewrite "}) as AbsSource)" => "}))"
//@havoc "let sources =" type="Vec<AbsSource>"
//@ret r
//@spec
		ensures r is Ok ==> ({ let op = r.unwrap(); let s = op.sources@;
			s.len() >= 2
			&& (forall|i: int| 0 <= i < s.len() ==> (#[trigger] s[i]).params().tile_format == op.parameters.tile_format)
			&& op.parameters.tile_compression == common_comp(s, s.len() as int)
			&& op.parameters.bbox_pyramid.wf()
			// advertised coverage contains the coverage of every source (C03; the per-level bounding union is proved in unit pyramid)
			&& (forall|i: int, z: int, x: int, y: int| 0 <= i < s.len() && 0 <= z < 32 && (#[trigger] s[i].params().bbox_pyramid.level(z).has(x, y)) ==> op.parameters.bbox_pyramid.level(z).has(x, y)) }),
//@loop 1 iter=it
				invariant pyramid.wf(),
					sources@.len() >= 2,
					forall|j: int| 0 <= j < it.index@ ==> (#[trigger] sources@[j]).params().tile_format == tile_format,
					tile_compression == common_comp(sources@, it.index@ as int),
					forall|j: int, z: int, x: int, y: int| 0 <= j < it.index@ && 0 <= z < 32 && (#[trigger] sources@[j].params().bbox_pyramid.level(z).has(x, y)) ==> pyramid.level(z).has(x, y),
//@at "let parameters = TilesReaderParameters::new"
			proof { assert(sources@.take(sources@.len() as int) =~= sources@); }
//@end
//@extract fn file="versatiles_pipeline/src/operations/read/from_overlayed.rs" scope="impl OperationTrait for Operation" name="get_parameters"
//@ret r
//@spec
		ensures *r == self.parameters
//@end
//@extract fn file="versatiles_pipeline/src/operations/read/from_overlayed.rs" scope="impl OperationTrait for Operation" name="get_tile_data"
//@ret r
//@spec
		ensures r is Ok ==> self.is_overlay_tile(*coord, match r.unwrap() { Some(b) => Some(b@), None => None })
//@loop 1 iter=it
			invariant forall|j: int| 0 <= j < it.index@ ==> (#[trigger] self.sources@[j]).tile_at(*coord) is None,
//@end
}
} // verus!
fn main() {}
