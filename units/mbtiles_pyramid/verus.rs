// unit mbtiles_pyramid — versatiles_container/src/container/mbtiles/reader.rs: MBTilesReader::get_bbox_pyramid, the coverage computed
// from MIN/MAX queries with the "estimate on three columns, then refine" scheme (C03, C01, C16; arbitrary table content: C19).
// R6: the SQLite connection is a stand-in whose table content is a set of (zoom, column, row) triples; every SQL snippet the function
// sends is translated by a literal table (below) to a stand-in query with the meaning SQLite gives that snippet (MIN/MAX over the rows
// matching the WHERE clause; NULL, i.e. no matching row, is an Err of row.get::<i32>). Snippets outside the table: ANCHOR-LOST (exit 2).
use vstd::prelude::*;
use std::mem::swap;
use std::ops::{Div, Rem};
verus! {
//@include common/prelude.vrs
//@include common/tile_bbox.vrs
//@include common/transform.vrs
//@include common/pyramid_abs.vrs
//@include common/pbf_blob.vrs
//@include common/compression.vrs
//@include common/source_abs.vrs

pub assume_specification [i32::pow] (b: i32, e: u32) -> (r: i32)
	requires b == 2, e < 31      // 2^31 does not fit an i32: overflow panic (debug) / wrap (release)
	ensures r == pow2(e as nat);

// R6: the progress bar (versatiles_core::progress) is a side effect only
#[verifier::external_body] pub struct ProgressBar { }
impl ProgressBar {
	#[verifier::external_body] pub fn inc(&mut self, n: u64) { }
	#[verifier::external_body] pub fn finish(&mut self) { }
}
#[verifier::external_body] pub fn get_progress_bar(msg: &str, n: u64) -> ProgressBar { unimplemented!() }

pub proof fn lemma_shl_pow2(z: int) requires 0 <= z <= 31 ensures (1i64 << (z as i64)) == pow2(z as nat)
{
	reveal_with_fuel(pow2, 33);
	assert(1i64 << 0i64 == 1 && 1i64 << 1i64 == 2 && 1i64 << 2i64 == 4 && 1i64 << 3i64 == 8 && 1i64 << 4i64 == 16 && 1i64 << 5i64 == 32 && 1i64 << 6i64 == 64 && 1i64 << 7i64 == 128) by (bit_vector);
	assert(1i64 << 8i64 == 0x100 && 1i64 << 9i64 == 0x200 && 1i64 << 10i64 == 0x400 && 1i64 << 11i64 == 0x800 && 1i64 << 12i64 == 0x1000 && 1i64 << 13i64 == 0x2000 && 1i64 << 14i64 == 0x4000 && 1i64 << 15i64 == 0x8000) by (bit_vector);
	assert(1i64 << 16i64 == 0x1_0000 && 1i64 << 17i64 == 0x2_0000 && 1i64 << 18i64 == 0x4_0000 && 1i64 << 19i64 == 0x8_0000 && 1i64 << 20i64 == 0x10_0000 && 1i64 << 21i64 == 0x20_0000 && 1i64 << 22i64 == 0x40_0000 && 1i64 << 23i64 == 0x80_0000) by (bit_vector);
	assert(1i64 << 24i64 == 0x100_0000 && 1i64 << 25i64 == 0x200_0000 && 1i64 << 26i64 == 0x400_0000 && 1i64 << 27i64 == 0x800_0000 && 1i64 << 28i64 == 0x1000_0000 && 1i64 << 29i64 == 0x2000_0000 && 1i64 << 30i64 == 0x4000_0000 && 1i64 << 31i64 == 0x8000_0000) by (bit_vector);
}

#[derive(Clone, Copy, PartialEq, Eq, Structural)]
pub enum Agg { Min, Max }
#[derive(Clone, Copy, PartialEq, Eq, Structural)]
pub enum Cmp { Le, Ge, Lt, Gt }
pub open spec fn cmp_holds(c: Cmp, a: int, b: int) -> bool { match c { Cmp::Le => a <= b, Cmp::Ge => a >= b, Cmp::Lt => a < b, Cmp::Gt => a > b } }
// r is the MIN resp. MAX of the values satisfying s (an Err, SQL NULL, if none does)
pub open spec fn is_agg(a: Agg, s: spec_fn(int) -> bool, r: Result<i32, VErr>) -> bool {
	match r {
		Ok(v) => s(v as int) && forall|w: int| #[trigger] s(w) ==> (match a { Agg::Min => v <= w, Agg::Max => v >= w }),
		Err(_) => forall|w: int| !#[trigger] s(w),
	}
}
#[verifier::external_body]
pub struct MBTilesReader { }
impl TileStream {
	// trusted (tile_stream.rs): from_vec streams exactly the elements of the vector
	#[verifier::external_body]
	pub fn from_pairs(vec: Vec<(TileCoord3, Blob)>) -> (r: TileStream)
		ensures forall|c: TileCoord3, b: Seq<u8>| r.items().contains((c, b)) <==> exists|i: int| 0 <= i < vec@.len() && (#[trigger] vec@[i]).0 == c && vec@[i].1@ == b
	{ unimplemented!() }
}
// a prepared single-tile query (rusqlite Statement): the bytes of the record (column, row, zoom), Err if there is none (QueryReturnedNoRows)
#[verifier::external_body] pub struct TileQuery { }
impl TileQuery {
	pub uninterp spec fn of(&self) -> MBTilesReader;
	#[verifier::external_body]
	pub fn q_tile(&mut self, c: u32, r: u32, z: u32) -> (res: Result<Vec<u8>, VErr>)
		ensures res is Ok ==> old(self).of().tile_data(z as int, c as int, r as int) == Some(res.unwrap()@)
	{ unimplemented!() }
}
impl MBTilesReader {
	// the content of table `tiles`: (zoom_level, tile_column, tile_row) of every record (INTEGER columns read as i32)
	pub uninterp spec fn has_tile(&self, z: int, c: int, r: int) -> bool;
	pub open spec fn zooms(&self) -> spec_fn(int) -> bool { |z: int| exists|c: int, r: int| self.has_tile(z, c, r) }
	pub open spec fn cols(&self, z: int) -> spec_fn(int) -> bool { |c: int| exists|r: int| self.has_tile(z, c, r) }
	pub open spec fn rows_in_cols(&self, z: int, a: int, b: int, c: int) -> spec_fn(int) -> bool { |r: int| self.has_tile(z, a, r) || self.has_tile(z, b, r) || self.has_tile(z, c, r) }
	pub open spec fn rows_cmp(&self, z: int, cmp: Cmp, v: int) -> spec_fn(int) -> bool { |r: int| cmp_holds(cmp, r, v) && exists|c: int| self.has_tile(z, c, r) }
	// SELECT <agg>(zoom_level) FROM tiles
	#[verifier::external_body]
	pub fn q_zoom(&self, a: Agg) -> (r: Result<i32, VErr>) ensures is_agg(a, self.zooms(), r) { unimplemented!() }
	// SELECT <agg>(tile_column) FROM tiles WHERE zoom_level = z
	#[verifier::external_body]
	pub fn q_col(&self, a: Agg, z: i32) -> (r: Result<i32, VErr>) ensures is_agg(a, self.cols(z as int), r) { unimplemented!() }
	// SELECT <agg>(tile_row) FROM tiles WHERE zoom_level = z AND (tile_column = x0 OR tile_column = xc OR tile_column = x1)
	#[verifier::external_body]
	pub fn q_row_cols(&self, a: Agg, z: i32, x0: i32, xc: i32, x1: i32) -> (r: Result<i32, VErr>) ensures is_agg(a, self.rows_in_cols(z as int, x0 as int, xc as int, x1 as int), r) { unimplemented!() }
	// SELECT <agg>(tile_row) FROM tiles WHERE zoom_level = z AND tile_row <cmp> v
	#[verifier::external_body]
	pub fn q_row_cmp(&self, a: Agg, z: i32, cmp: Cmp, v: i32) -> (r: Result<i32, VErr>) ensures is_agg(a, self.rows_cmp(z as int, cmp, v as int), r) { unimplemented!() }

	// C03 for the MBTiles reader: every record of the table that addresses a tile of the grid lies inside the advertised coverage
	// (MBTiles rows are TMS: row r of level z is y = 2^z - 1 - r)
	pub open spec fn covers_table(&self, p: TileBBoxPyramid) -> bool {
		forall|z: int, c: int, r: int| #![trigger self.has_tile(z, c, r)] self.has_tile(z, c, r) && 0 <= z <= 31 && 0 <= c < pow2(z as nat) && 0 <= r < pow2(z as nat)
			==> p.level(z).has(c, pow2(z as nat) - 1 - r)
	}
	// ---- single-tile lookup: SELECT tile_data FROM tiles WHERE tile_column = ? AND tile_row = ? AND zoom_level = ?  (rows are TMS)
	pub uninterp spec fn tile_data(&self, z: int, c: int, r: int) -> Option<Seq<u8>>;
	#[verifier::external_body]
	pub fn prep_tile_query(&self) -> (r: Result<TileQuery, VErr>) ensures r is Ok ==> r.unwrap().of() == *self { unimplemented!() }
//@extract fn file="versatiles_container/src/container/mbtiles/reader.rs" scope="impl TilesReaderTrait for MBTilesReader" name="get_tile_data"
//@prerewrite "let conn = self.pool.get()?; let mut stmt = conn.prepare(\"SELECT tile_data FROM tiles WHERE tile_column = ? AND tile_row = ? AND zoom_level = ?\")?;" => "let mut stmt = self.prep_tile_query()?;"
//@prerewrite "stmt.query_row([coord.x, max_index - coord.y, coord.z as u32], |row| { row.get::<_, Vec<u8>>(0) })" => "stmt.q_tile(coord.x, max_index - coord.y, coord.z as u32)"
//@rewrite "Blob::from(vec)" => "Blob::from_vec(vec)" R6
//@ret r
//@spec
		// any coordinate TileCoord3::new accepts (z <= 31; x and y are NOT limited to the grid: HTTP requests name them freely):
		// a tile, nothing, or an error — never a panic (C19, C05); a tile is the record at the flipped row (C16, C01)
		requires coord.z <= 31
		ensures r is Ok ==> (match r.unwrap() { Some(b) => coord.valid() && self.tile_data(coord.z as int, coord.x as int, pow2(coord.z as nat) - 1 - coord.y) == Some(b@), None => true }),
//@start
		proof { lemma_pow2_bound(coord.z as nat); }
//@end
	// ---- box stream: SELECT tile_column, tile_row, zoom_level, tile_data FROM tiles WHERE tile_column >= ? AND tile_column <= ? AND
	// tile_row >= ? AND tile_row <= ? AND zoom_level = ?, every record mapped to (column, max_index - row, zoom) (trusted: the SQL text
	// and the row-mapping closure, both part of the replaced expression)
	#[verifier::external_body]
	pub fn q_range(&self, c0: u32, c1: u32, r0: u32, r1: u32, z: u32, max_index: u32) -> (v: Vec<(TileCoord3, Blob)>)
		requires r1 <= max_index
		ensures forall|c: TileCoord3, b: Seq<u8>| (exists|i: int| 0 <= i < v@.len() && (#[trigger] v@[i]).0 == c && v@[i].1@ == b)
			<==> (c.z == z && c0 <= c.x <= c1 && c.y <= max_index && r0 <= max_index - c.y <= r1 && self.tile_data(z as int, c.x as int, max_index - c.y) == Some(b)),
	{ unimplemented!() }
//@extract fn file="versatiles_container/src/container/mbtiles/reader.rs" scope="impl TilesReaderTrait for MBTilesReader" name="get_bbox_tile_stream"
//@prerewrite "let conn = self.pool.get().unwrap(); let mut stmt = conn .prepare( \"SELECT tile_column, tile_row, zoom_level, tile_data FROM tiles WHERE tile_column >= ? AND tile_column <= ? AND tile_row >= ? AND tile_row <= ? AND zoom_level = ?\", ) .unwrap();" => ""
//@prerewrite "stmt .query_map( [ bbox.x_min, bbox.x_max, max_index - bbox.y_max, max_index - bbox.y_min, bbox.level as u32, ], move |row| { let coord = TileCoord3::new( row.get::<_, u32>(0)?, max_index - row.get::<_, u32>(1)?, row.get::<_, u8>(2)?, ) .unwrap(); let blob = Blob::from(row.get::<_, Vec<u8>>(3)?); Ok((coord, blob)) }, ) .unwrap() .filter_map(|r| r.ok()) .collect()" => "self.q_range(bbox.x_min, bbox.x_max, max_index - bbox.y_max, max_index - bbox.y_min, bbox.level as u32, max_index)" optional
// (argument variants a slip could produce: translated too, so that they fail the contract instead of losing the anchor)
//@prerewrite "stmt .query_map( [ bbox.x_min, bbox.x_max, max_index - bbox.y_min, max_index - bbox.y_max, bbox.level as u32, ], move |row| { let coord = TileCoord3::new( row.get::<_, u32>(0)?, max_index - row.get::<_, u32>(1)?, row.get::<_, u8>(2)?, ) .unwrap(); let blob = Blob::from(row.get::<_, Vec<u8>>(3)?); Ok((coord, blob)) }, ) .unwrap() .filter_map(|r| r.ok()) .collect()" => "self.q_range(bbox.x_min, bbox.x_max, max_index - bbox.y_min, max_index - bbox.y_max, bbox.level as u32, max_index)" optional
//@prerewrite "stmt .query_map( [ bbox.x_min, bbox.x_max, bbox.y_min, bbox.y_max, bbox.level as u32, ], move |row| { let coord = TileCoord3::new( row.get::<_, u32>(0)?, max_index - row.get::<_, u32>(1)?, row.get::<_, u8>(2)?, ) .unwrap(); let blob = Blob::from(row.get::<_, Vec<u8>>(3)?); Ok((coord, blob)) }, ) .unwrap() .filter_map(|r| r.ok()) .collect()" => "self.q_range(bbox.x_min, bbox.x_max, bbox.y_min, bbox.y_max, bbox.level as u32, max_index)" optional
//@rewrite "TileStream::from_vec(vec)" => "TileStream::from_pairs(vec)" R6
//@ret r
//@spec
		// C02 for the MBTiles reader: the stream of a box delivers exactly the lookups inside the box (compare get_tile_data above)
		requires bbox.wf()
		ensures forall|c: TileCoord3, b: Seq<u8>| r.items().contains((c, b)) <==> (bbox.has3(c) && self.tile_data(c.z as int, c.x as int, pow2(c.z as nat) - 1 - c.y) == Some(b)),
//@start
		proof { bbox.lemma_empty(); lemma_pow2_bound(bbox.level as nat); }
//@end
//@extract fn file="versatiles_container/src/container/mbtiles/reader.rs" scope="impl MBTilesReader" name="get_bbox_pyramid"
//@prerewrite "self.simple_query(\"MIN(zoom_level)\", \"\")" => "self.q_zoom(Agg::Min)" optional
//@prerewrite "self.simple_query(\"MAX(zoom_level)\", \"\")" => "self.q_zoom(Agg::Max)" optional
//@prerewrite "self.simple_query(\"MIN(tile_column)\", &format!(\"zoom_level = {z}\"))" => "self.q_col(Agg::Min, z)" optional
//@prerewrite "self.simple_query(\"MIN(tile_row)\", &format!(\"{sql_prefix} {columns}\"))" => "self.q_row_cols(Agg::Min, z, x0, xc, x1)" optional
//@prerewrite "self.simple_query(\"MIN(tile_row)\", &format!(\"{sql_prefix} tile_row <= {y0}\"))" => "self.q_row_cmp(Agg::Min, z, Cmp::Le, y0)" optional
//@prerewrite "self.simple_query(\"MIN(tile_row)\", &format!(\"{sql_prefix} tile_row <= {y1}\"))" => "self.q_row_cmp(Agg::Min, z, Cmp::Le, y1)" optional
//@prerewrite "self.simple_query(\"MIN(tile_row)\", &format!(\"{sql_prefix} tile_row >= {y0}\"))" => "self.q_row_cmp(Agg::Min, z, Cmp::Ge, y0)" optional
//@prerewrite "self.simple_query(\"MIN(tile_row)\", &format!(\"{sql_prefix} tile_row >= {y1}\"))" => "self.q_row_cmp(Agg::Min, z, Cmp::Ge, y1)" optional
//@prerewrite "self.simple_query(\"MIN(tile_row)\", &format!(\"{sql_prefix} tile_row < {y0}\"))" => "self.q_row_cmp(Agg::Min, z, Cmp::Lt, y0)" optional
//@prerewrite "self.simple_query(\"MIN(tile_row)\", &format!(\"{sql_prefix} tile_row < {y1}\"))" => "self.q_row_cmp(Agg::Min, z, Cmp::Lt, y1)" optional
//@prerewrite "self.simple_query(\"MIN(tile_row)\", &format!(\"{sql_prefix} tile_row > {y0}\"))" => "self.q_row_cmp(Agg::Min, z, Cmp::Gt, y0)" optional
//@prerewrite "self.simple_query(\"MIN(tile_row)\", &format!(\"{sql_prefix} tile_row > {y1}\"))" => "self.q_row_cmp(Agg::Min, z, Cmp::Gt, y1)" optional
//@prerewrite "self.simple_query(\"MAX(tile_column)\", &format!(\"zoom_level = {z}\"))" => "self.q_col(Agg::Max, z)" optional
//@prerewrite "self.simple_query(\"MAX(tile_row)\", &format!(\"{sql_prefix} {columns}\"))" => "self.q_row_cols(Agg::Max, z, x0, xc, x1)" optional
//@prerewrite "self.simple_query(\"MAX(tile_row)\", &format!(\"{sql_prefix} tile_row <= {y0}\"))" => "self.q_row_cmp(Agg::Max, z, Cmp::Le, y0)" optional
//@prerewrite "self.simple_query(\"MAX(tile_row)\", &format!(\"{sql_prefix} tile_row <= {y1}\"))" => "self.q_row_cmp(Agg::Max, z, Cmp::Le, y1)" optional
//@prerewrite "self.simple_query(\"MAX(tile_row)\", &format!(\"{sql_prefix} tile_row >= {y0}\"))" => "self.q_row_cmp(Agg::Max, z, Cmp::Ge, y0)" optional
//@prerewrite "self.simple_query(\"MAX(tile_row)\", &format!(\"{sql_prefix} tile_row >= {y1}\"))" => "self.q_row_cmp(Agg::Max, z, Cmp::Ge, y1)" optional
//@prerewrite "self.simple_query(\"MAX(tile_row)\", &format!(\"{sql_prefix} tile_row < {y0}\"))" => "self.q_row_cmp(Agg::Max, z, Cmp::Lt, y0)" optional
//@prerewrite "self.simple_query(\"MAX(tile_row)\", &format!(\"{sql_prefix} tile_row < {y1}\"))" => "self.q_row_cmp(Agg::Max, z, Cmp::Lt, y1)" optional
//@prerewrite "self.simple_query(\"MAX(tile_row)\", &format!(\"{sql_prefix} tile_row > {y0}\"))" => "self.q_row_cmp(Agg::Max, z, Cmp::Gt, y0)" optional
//@prerewrite "self.simple_query(\"MAX(tile_row)\", &format!(\"{sql_prefix} tile_row > {y1}\"))" => "self.q_row_cmp(Agg::Max, z, Cmp::Gt, y1)" optional
//@prerewrite "let sql_prefix = format!(\"zoom_level = {z} AND\");" => "" 
//@prerewrite "let columns = format!(\"(tile_column = {x0} OR tile_column = {xc} OR tile_column = {x1})\");" => ""
//@rewrite "for z in z0..=z1 {" => "for vz in (z0 as i64)..(z1 as i64 + 1) { let z = vz as i32;" R7
//@ret r
//@spec
		ensures r is Ok ==> r.unwrap().wf() && self.covers_table(r.unwrap()),
//@at "let mut progress"
		let ghost zmin = z0; let ghost zmax = z1;
		proof {
			// every record with a zoom level in 0..=31 lies between the (clamped) extremes
			assert forall|zz: int, c: int, r: int| #![trigger self.has_tile(zz, c, r)] self.has_tile(zz, c, r) && 0 <= zz <= 31 implies z0 <= zz <= z1 by { assert(self.zooms()(zz)); }
		}
//@loop 1 iter=it
			invariant 0 <= z0, z1 <= 31, bbox_pyramid.wf(),
				forall|zz: int, c: int, r: int| #![trigger self.has_tile(zz, c, r)] self.has_tile(zz, c, r) && z0 <= zz < z0 + it.index@ && 0 <= c < pow2(zz as nat) && 0 <= r < pow2(zz as nat) ==> bbox_pyramid.level(zz).has(c, r),
//@at "let max_value ="
			proof { lemma_pow2_bound(z as nat); assert((1i64 << (z as i64)) == pow2(z as nat)) by { lemma_shl_pow2(z as int); } }
			let ghost before = bbox_pyramid;
//@at "y0 = self.q_row_cmp"
			let ghost e0 = y0; let ghost e1 = y1;
//@loopend 1
			proof {
				assert forall|zz: int, c: int, r: int| #![trigger self.has_tile(zz, c, r)] self.has_tile(zz, c, r) && z0 <= zz < vz + 1 && 0 <= c < pow2(zz as nat) && 0 <= r < pow2(zz as nat) implies bbox_pyramid.level(zz).has(c, r) by {
					if zz == z {
						// columns: the extremes of the level
						assert(self.cols(z as int)(c));
						// rows: the estimate is a row of the level, the refinement the extreme of all rows beyond it
						assert(self.rows_in_cols(z as int, x0 as int, xc as int, x1 as int)(e0 as int));
						assert(self.rows_in_cols(z as int, x0 as int, xc as int, x1 as int)(e1 as int));
						if r <= e0 { assert(self.rows_cmp(z as int, Cmp::Le, e0 as int)(r)); } else { assert(self.rows_cmp(z as int, Cmp::Le, e0 as int)(y0 as int)); }
						if r >= e1 { assert(self.rows_cmp(z as int, Cmp::Ge, e1 as int)(r)); } else { assert(self.rows_cmp(z as int, Cmp::Ge, e1 as int)(y1 as int)); }
						assert(x0 <= c <= x1 && y0 <= r <= y1);
					} else { assert(before.level(zz).has(c, r)); }
				}
			}
//@at "bbox_pyramid.flip_y();"
		let ghost pre_flip = bbox_pyramid;
//@end
}

// ---- write side: MBTilesWriter::add_tiles (INSERT INTO tiles (zoom_level, tile_column, tile_row, tile_data) VALUES (?1, ?2, ?3, ?4))
// R6: the connection pool / transaction are a stand-in whose table content is a finite map (zoom, column, row) -> bytes; a committed
// transaction adds its inserted records (trusted: rusqlite transaction semantics, the SQL text)
// the table key of a coordinate (rows are TMS) and "tile i of the batch is in the table (with the bytes of its last occurrence up to n)"
pub open spec fn tkey(c: TileCoord3) -> (int, int, int) { (c.z as int, c.x as int, pow2(c.z as nat) - 1 - c.y) }
pub open spec fn stored(m: Map<(int, int, int), Seq<u8>>, tiles: Seq<(TileCoord3, Blob)>, n: int, i: int) -> bool {
	m.contains_key(tkey(tiles[i].0)) && exists|j: int| i <= j < n && (#[trigger] tiles[j]).0 == tiles[i].0 && m[tkey(tiles[i].0)] == tiles[j].1@
}
#[verifier::external_body] pub struct MBTilesWriter { }
#[verifier::external_body] pub struct Txn { }
impl Txn {
	pub uninterp spec fn recs(&self) -> Map<(int, int, int), Seq<u8>>;
	#[verifier::external_body]
	pub fn ins_tile(&mut self, z: u8, c: u32, r: u32, blob: &Blob) -> (res: Result<(), VErr>)
		ensures res is Ok ==> final(self).recs() == old(self).recs().insert((z as int, c as int, r as int), blob@), res is Err ==> final(self).recs() == old(self).recs()
	{ unimplemented!() }
}
impl MBTilesWriter {
	pub uninterp spec fn table(&self) -> Map<(int, int, int), Seq<u8>>;
	#[verifier::external_body]
	pub fn begin(&mut self) -> (r: Result<Txn, VErr>) ensures final(self).table() == old(self).table(), r is Ok ==> r.unwrap().recs() == Map::<(int, int, int), Seq<u8>>::empty() { unimplemented!() }
	#[verifier::external_body]
	pub fn commit(&mut self, t: Txn) -> (r: Result<(), VErr>) ensures r is Ok ==> final(self).table() == old(self).table().union_prefer_right(t.recs()) { unimplemented!() }
//@extract fn file="versatiles_container/src/container/mbtiles/writer.rs" scope="impl MBTilesWriter" name="add_tiles"
//@prerewrite "let mut conn = self.pool.get()?; let transaction = conn.transaction()?;" => "let mut transaction = self.begin()?;"
//@prerewrite "transaction.execute( \"INSERT INTO tiles (zoom_level, tile_column, tile_row, tile_data) VALUES (?1, ?2, ?3, ?4)\", params![c.z, c.x, max_index - c.y, blob.as_slice()], )?;" => "transaction.ins_tile(c.z, c.x, max_index - c.y, blob)?;" optional
//@prerewrite "transaction.execute( \"INSERT INTO tiles (zoom_level, tile_column, tile_row, tile_data) VALUES (?1, ?2, ?3, ?4)\", params![c.z, c.x, c.y, blob.as_slice()], )?;" => "transaction.ins_tile(c.z, c.x, c.y, blob)?;" optional
//@prerewrite "transaction.commit()?;" => "self.commit(transaction)?;"
//@rewrite "for (c, blob) in tiles {" => "for vi in 0..tiles.len() { let c = &tiles[vi].0; let blob = &tiles[vi].1;" R7
//@ret r
//@spec
		// the tiles a source streams have coordinates of the grid
		requires forall|i: int| 0 <= i < tiles@.len() ==> (#[trigger] tiles@[i]).0.valid(),
		// every tile is stored at (zoom, column, TMS row): exactly where the reader's lookup and box query look for it (get_tile_data above);
		// if a coordinate occurs more than once, the bytes of a later occurrence
		ensures r is Ok ==> forall|i: int| 0 <= i < tiles@.len() ==> #[trigger] stored(final(self).table(), tiles@, tiles@.len() as int, i),
//@loop 1 iter=it
			invariant forall|i: int| 0 <= i < tiles@.len() ==> (#[trigger] tiles@[i]).0.valid(),
				it.index@ <= tiles@.len(),
				forall|i: int| 0 <= i < it.index@ ==> #[trigger] stored(transaction.recs(), tiles@, it.index@ as int, i),
//@loopstart 1
			proof { assert(tiles@[vi as int].0.valid()); lemma_pow2_bound(tiles@[vi as int].0.z as nat); }
			let ghost r0 = transaction.recs();
//@loopend 1
			proof {
				let cn = tiles@[vi as int].0;
				assert forall|i: int| 0 <= i < vi + 1 implies #[trigger] stored(transaction.recs(), tiles@, vi + 1, i) by {
					let c = tiles@[i].0;
					if tkey(c) == tkey(cn) { assert(c.valid() && cn.valid()); assert(c == cn); assert(i <= vi < vi + 1 && tiles@[vi as int].0 == c && transaction.recs()[tkey(c)] == tiles@[vi as int].1@); }
					else { assert(stored(r0, tiles@, vi as int, i)); let j = choose|j: int| i <= j < vi && (#[trigger] tiles@[j]).0 == c && r0[tkey(c)] == tiles@[j].1@; assert(i <= j < vi + 1 && tiles@[j].0 == c && transaction.recs()[tkey(c)] == tiles@[j].1@); }
				}
			}
//@after "self.commit(transaction)?;"
		proof { assert forall|i: int| 0 <= i < tiles@.len() implies #[trigger] stored(self.table(), tiles@, tiles@.len() as int, i) by {
			assert(stored(transaction.recs(), tiles@, tiles@.len() as int, i)); } }
//@end
}
} // verus!
fn main() {}
