// unit varint_pbf — versatiles_core io::ValueReader / ValueWriter PBF primitives (C11, C19, C01, C16)
// The trait default methods are extracted and flattened (R7) into inherent impls of one reader / writer
// whose environment (Cursor + byteorder behind `&mut dyn SeekRead` / `&mut dyn Write`) is the stand-in AbsCursor / ByteSink.
use vstd::prelude::*;
verus! {
//@include common/prelude.vrs
//@include common/byte_io.vrs

//@include common/pbf_spec.vrs
//@include common/pbf_blob.vrs
//@include common/pbf_reader.vrs
//@include common/pbf_writer.vrs
} // verus!
fn main() {}
