// unit varint_pbf — versatiles_core io::ValueReader / ValueWriter PBF primitives (C11, C19, C01, C16)
// The trait default methods are extracted and flattened (R7) into inherent impls of one reader / writer
// whose environment (Cursor + byteorder behind `&mut dyn SeekRead` / `&mut dyn Write`) is the stand-in AbsCursor / ByteSink.
use vstd::prelude::*;
verus! {
//@include common/prelude.vrs
//@include common/byte_io.vrs

// ---- specifications written from the protobuf encoding documentation (not from this code)
pub open spec fn enc(v: nat) -> Seq<u8> decreases v {
	if v < 128 { seq![v as u8] } else { seq![((v % 128) + 128) as u8] + enc(v / 128) }
}
// sint64 "ZigZag" mapping, the two formulas of the protobuf encoding guide: (n << 1) ^ (n >> 63) and (n >>> 1) ^ -(n & 1)
pub open spec fn zigzag(v: i64) -> u64 { ((v << 1) ^ (v >> 63)) as u64 }
pub open spec fn unzigzag(u: u64) -> i64 { ((u >> 1) as i64) ^ (if u & 1 == 1 { -1i64 } else { 0i64 }) }   // >>> is a logical shift
// value decoded from k bytes starting at p: little-endian base-128 groups (bits beyond 64 are dropped, as protobuf decoders do)
pub open spec fn dec_groups(d: Seq<u8>, p: int, k: nat) -> u64 decreases k {
	if k == 0 { 0u64 } else { dec_groups(d, p, (k - 1) as nat) | (((d[p + k - 1] as u64) & 0x7F) << ((7 * (k - 1)) as u64)) }
}

// ---- reader (R6: ValueReaderSlice<'a, E> -> cursor + len)
pub struct ValueReaderSlice { pub cursor: AbsCursor, pub len: u64 }
impl ValueReaderSlice {
	// (a slice never exceeds isize::MAX bytes: std guarantee, part of the type invariant)
	pub open spec fn wf(&self) -> bool { self.len == self.cursor.data@.len() && self.cursor.pos <= self.len && self.len <= 0x7fff_ffff_ffff_ffff }
	pub open spec fn rest(&self) -> int { self.len - self.cursor.pos }

	pub fn len(&self) -> (r: u64) ensures r == self.len { self.len }                       // verbatim: `self.len`
	pub fn position(&mut self) -> (r: u64) ensures r == old(self).cursor.pos, *final(self) == *old(self) { self.cursor.position() }   // verbatim: `self.cursor.position()`

//@extract fn file="versatiles_core/src/io/value_reader.rs" scope="trait ValueReader<'a, E: ByteOrder + 'a>" name="remaining"
//@ret r
//@spec
		requires old(self).wf()
		ensures r == old(self).rest(), *final(self) == *old(self)
//@end
//@extract fn file="versatiles_core/src/io/value_reader.rs" scope="trait ValueReader<'a, E: ByteOrder + 'a>" name="has_remaining"
//@ret r
//@spec
		requires old(self).wf()
		ensures r == (old(self).rest() > 0), *final(self) == *old(self)
//@end
//@extract fn file="versatiles_core/src/io/value_reader_slice.rs" scope="impl<'a, E: ByteOrder + 'a> ValueReader<'a, E> for ValueReaderSlice<'a, E>" name="set_position"
//@ret r
//@spec
		requires old(self).wf()
		ensures final(self).wf(), final(self).cursor.data@ == old(self).cursor.data@,
			r is Ok <==> position < old(self).len, r is Ok ==> final(self).cursor.pos == position, r is Err ==> *final(self) == *old(self)
//@end
//@extract fn file="versatiles_core/src/io/value_reader.rs" scope="trait ValueReader<'a, E: ByteOrder + 'a>" name="read_varint"
//@rewrite "self.get_reader().read_u8()" => "self.cursor.read_u8()" R7
//@ret r
//@spec
		// arbitrary bytes: Ok or Err, no shift overflow, at most 10 bytes consumed, terminates (C19)
		requires old(self).wf()
		ensures final(self).wf(), final(self).cursor.data@ == old(self).cursor.data@, final(self).len == old(self).len,
			old(self).cursor.pos <= final(self).cursor.pos <= old(self).cursor.pos + 10,
			// decoding rule: k bytes were consumed, all but the last carry the continuation bit, value = their 7-bit groups
			r is Ok ==> ({ let k = final(self).cursor.pos - old(self).cursor.pos; let d = old(self).cursor.data@; let p = old(self).cursor.pos as int;
				1 <= k <= 10 && r.unwrap() == dec_groups(d, p, k as nat)
				&& d[p + k - 1] & 0x80 == 0 && forall|j: int| p <= j < p + k - 1 ==> (#[trigger] d[j]) & 0x80 != 0 }),
//@at "loop {"
		let ghost p0 = self.cursor.pos as int;
		let ghost d = self.cursor.data@;
//@loop 1
			invariant_except_break 0 <= shift <= 63, shift % 7 == 0, self.cursor.pos == p0 + shift / 7,
				value == dec_groups(d, p0, (shift / 7) as nat),
				forall|j: int| p0 <= j < p0 + shift / 7 ==> (#[trigger] d[j]) & 0x80 != 0,
			invariant self.wf(), self.cursor.data@ == d, d == old(self).cursor.data@, p0 == old(self).cursor.pos, self.len == old(self).len,
			ensures p0 + 1 <= self.cursor.pos <= p0 + 10, value == dec_groups(d, p0, (self.cursor.pos - p0) as nat),
				d[self.cursor.pos - 1] & 0x80 == 0, forall|j: int| p0 <= j < self.cursor.pos - 1 ==> (#[trigger] d[j]) & 0x80 != 0,
			decreases 70 - shift
//@after "value |= ((byte as u64) & 0x7F) << shift;"
			proof { assert(7 * (shift / 7) == shift); }
//@end
//@extract fn file="versatiles_core/src/io/value_reader.rs" scope="trait ValueReader<'a, E: ByteOrder + 'a>" name="read_svarint"
//@ret r
//@spec
		requires old(self).wf()
		ensures final(self).wf(), final(self).cursor.data@ == old(self).cursor.data@, final(self).len == old(self).len,
			old(self).cursor.pos <= final(self).cursor.pos <= old(self).cursor.pos + 10,
			r is Ok ==> r.unwrap() == unzigzag(dec_groups(old(self).cursor.data@, old(self).cursor.pos as int, (final(self).cursor.pos - old(self).cursor.pos) as nat)),
//@at "Ok(((value >> 1) as i64)"
		proof { assert((value & 1) == 0 || (value & 1) == 1) by (bit_vector); assert(-1i64 == -(1i64));
			assert((value >> 1) <= 0x7fff_ffff_ffff_ffffu64) by (bit_vector); }
//@end
//@extract fn file="versatiles_core/src/io/value_reader.rs" scope="trait ValueReader<'a, E: ByteOrder + 'a>" name="read_pbf_key"
//@ret r
//@spec
		requires old(self).wf()
		ensures final(self).wf(), final(self).cursor.data@ == old(self).cursor.data@, final(self).len == old(self).len,
			old(self).cursor.pos <= final(self).cursor.pos <= old(self).cursor.pos + 10,
			r is Ok ==> ({ let v = dec_groups(old(self).cursor.data@, old(self).cursor.pos as int, (final(self).cursor.pos - old(self).cursor.pos) as nat);
				r.unwrap().0 == ((v >> 3) as u32) && r.unwrap().1 == (v & 0x07) as u8 && r.unwrap().1 < 8 }),
//@at "Ok(((value >> 3) as u32"
		proof { assert((value & 0x07) < 8) by (bit_vector); }
//@end
//@extract fn file="versatiles_core/src/io/value_reader_slice.rs" scope="impl<'a, E: ByteOrder + 'a> ValueReader<'a, E> for ValueReaderSlice<'a, E>" name="get_sub_reader"
//@rewrite "<'b>(&'b mut self" => "(&mut self" R6
//@rewrite "Result<Box<dyn ValueReader<'b, E> + 'b>, VErr> where E: 'b," => "Result<ValueReaderSlice, VErr>" R6
//@rewrite "Ok(Box::new(ValueReaderSlice { _phantom: PhantomData," => "Ok((ValueReaderSlice {" R6
//@rewrite "Cursor::new( self .cursor .get_ref() .get(start as usize..end as usize) .ok_or(verr())?, ), }))" => "AbsCursor::new_from(opt_ok_or(self.cursor.get_range(start as usize, end as usize))?), }))" R7
//@ret r
//@spec
		requires old(self).wf()
		ensures final(self).wf(), final(self).cursor.data@ == old(self).cursor.data@, final(self).len == old(self).len,
			r is Ok <==> length <= old(self).rest(),
			r is Err ==> final(self).cursor.pos == old(self).cursor.pos,
			r is Ok ==> final(self).cursor.pos == old(self).cursor.pos + length && r.unwrap().wf() && r.unwrap().len == length && r.unwrap().cursor.pos == 0
				&& r.unwrap().cursor.data@ == old(self).cursor.data@.subrange(old(self).cursor.pos as int, old(self).cursor.pos + length),
//@end
//@extract fn file="versatiles_core/src/io/value_reader.rs" scope="trait ValueReader<'a, E: ByteOrder + 'a>" name="get_pbf_sub_reader"
//@rewrite "<'b>(&'b mut self" => "(&mut self" R6
//@rewrite "Result<Box<dyn ValueReader<'b, E> + 'b>, VErr> where E: 'b," => "Result<ValueReaderSlice, VErr>" R6
//@ret r
//@spec
		requires old(self).wf()
		ensures final(self).wf(), final(self).cursor.data@ == old(self).cursor.data@, final(self).len == old(self).len,
			r is Ok ==> r.unwrap().wf() && r.unwrap().cursor.pos == 0 && r.unwrap().len <= old(self).rest(),
//@end
//@extract fn file="versatiles_core/src/io/value_reader.rs" scope="trait ValueReader<'a, E: ByteOrder + 'a>" name="read_pbf_packed_uint32"
//@rewrite "drop(reader);" => "" R7
//@ret r
//@spec
		requires old(self).wf()
		ensures final(self).wf(), final(self).cursor.data@ == old(self).cursor.data@, final(self).len == old(self).len,
			// resource bound (C19): one value per input byte at most
			r is Ok ==> r.unwrap()@.len() <= old(self).rest(),
//@at "let mut values = Vec::new();"
		let ghost sublen = reader.len as int;
//@loop 1
			invariant reader.wf(), reader.len == sublen, values@.len() <= reader.cursor.pos, sublen <= old(self).rest(),
				self.wf(), self.cursor.data@ == old(self).cursor.data@, self.len == old(self).len,
			decreases reader.len - reader.cursor.pos
//@end
//@extract fn file="versatiles_core/src/io/value_reader.rs" scope="trait ValueReader<'a, E: ByteOrder + 'a>" name="read_blob"
//@rewrite "let mut blob = Blob::new_sized(length as usize); self.get_reader().read_exact(blob.as_mut_slice())?;" => "let blob = Blob::from_vec(self.cursor.read_exact_n(length as usize)?);" R7
//@ret r
//@spec
		requires old(self).wf()
		ensures final(self).cursor.data@ == old(self).cursor.data@, final(self).len == old(self).len,
			r is Ok ==> final(self).wf() && final(self).cursor.pos == old(self).cursor.pos + length
				&& r.unwrap()@ == old(self).cursor.data@.subrange(old(self).cursor.pos as int, old(self).cursor.pos + length),
			r is Err ==> final(self).wf(),
//@at "let blob = Blob::from_vec"
		// resource obligation (C19): the announced length is allocated, so it must not exceed the remaining input
		proof { assert(length <= self.len - self.cursor.pos); }
//@end
//@extract fn file="versatiles_core/src/io/value_reader.rs" scope="trait ValueReader<'a, E: ByteOrder + 'a>" name="read_string"
//@rewrite "let mut vec = vec![0u8; length as usize]; self.get_reader().read_exact(&mut vec)?;" => "let vec = self.cursor.read_exact_n(length as usize)?;" R7
//@rewrite "Ok(String::from_utf8(vec)?)" => "Ok(string_from_utf8(vec)?)" R7
//@ret r
//@spec
		requires old(self).wf()
		ensures final(self).cursor.data@ == old(self).cursor.data@, final(self).len == old(self).len,
			r is Ok ==> final(self).wf() && final(self).cursor.pos == old(self).cursor.pos + length
				&& str_bytes(r.unwrap()) == old(self).cursor.data@.subrange(old(self).cursor.pos as int, old(self).cursor.pos + length),
			r is Err ==> final(self).wf(),
//@at "let vec = self.cursor.read_exact_n"
		proof { assert(length <= self.len - self.cursor.pos); }
//@end
//@extract fn file="versatiles_core/src/io/value_reader.rs" scope="trait ValueReader<'a, E: ByteOrder + 'a>" name="read_pbf_string"
//@ret r
//@spec
		requires old(self).wf()
		ensures final(self).wf(), final(self).cursor.data@ == old(self).cursor.data@, final(self).len == old(self).len,
//@end
//@extract fn file="versatiles_core/src/io/value_reader.rs" scope="trait ValueReader<'a, E: ByteOrder + 'a>" name="read_pbf_blob"
//@ret r
//@spec
		requires old(self).wf()
		ensures final(self).wf(), final(self).cursor.data@ == old(self).cursor.data@, final(self).len == old(self).len,
//@end
}

// R6: Blob / String as byte sequences
#[verifier::external_body]
pub struct Blob { v: Vec<u8> }
impl View for Blob { type V = Seq<u8>; uninterp spec fn view(&self) -> Seq<u8>; }
impl Blob {
	#[verifier::external_body]
	pub fn from_vec(v: Vec<u8>) -> (r: Blob) ensures r@ == v@ { unimplemented!() }
}
pub uninterp spec fn str_bytes(s: String) -> Seq<u8>;
// trusted: String::from_utf8 keeps the bytes or fails
#[verifier::external_body]
pub fn string_from_utf8(v: Vec<u8>) -> (r: Result<String, VErr>) ensures r is Ok ==> str_bytes(r.unwrap()) == v@ { unimplemented!() }

// ---- writer (R7: self.get_writer().write_all(&[b]) -> self.sink.put(b))
pub struct ValueWriterBlob { pub sink: ByteSink }
impl ValueWriterBlob {
//@extract fn file="versatiles_core/src/io/value_writer.rs" scope="trait ValueWriter<E: ByteOrder>" name="write_varint"
//@rewrite "self.get_writer().write_all(&[((value as u8) & 0x7F) | 0x80])" => "self.sink.put(((value as u8) & 0x7F) | 0x80)" R7
//@rewrite "self.get_writer().write_all(&[value as u8])" => "self.sink.put(value as u8)" R7
//@ret r
//@spec
		ensures r is Ok, final(self).sink.buf@ == old(self).sink.buf@ + enc(value as nat)
//@at "while value >= 0x80"
		let ghost v0 = value;
		let ghost pre = self.sink.buf@;
//@loop 1
			invariant self.sink.buf@ + enc(value as nat) == pre + enc(v0 as nat)
			decreases value
//@at "self.sink.put(((value as u8) & 0x7F) | 0x80)?;"
			proof {
				assert(((value as u8) & 0x7F) | 0x80 == ((value % 128) + 128) as u8) by (bit_vector);
				assert(value >> 7 == value / 128) by (bit_vector);
				assert(enc(value as nat) == seq![((value as nat % 128) + 128) as u8] + enc(value as nat / 128));
			}
//@after "value >>= 7;"
			proof { assert(self.sink.buf@ + enc(value as nat) =~= pre + enc(v0 as nat)); }
//@after "self.sink.put(value as u8)?;"
		proof { assert(enc(value as nat) == seq![value as u8]); assert(self.sink.buf@ =~= pre + enc(v0 as nat)); }
//@end
//@extract fn file="versatiles_core/src/io/value_writer.rs" scope="trait ValueWriter<E: ByteOrder>" name="write_svarint"
//@ret r
//@spec
		ensures r is Ok, final(self).sink.buf@ == old(self).sink.buf@ + enc(zigzag(value) as nat)
//@end
//@extract fn file="versatiles_core/src/io/value_writer.rs" scope="trait ValueWriter<E: ByteOrder>" name="write_pbf_key"
//@ret r
//@spec
		ensures r is Ok, final(self).sink.buf@ == old(self).sink.buf@ + enc((field_number as nat) * 8 + (wire_type as nat % 8) ) || wire_type >= 8
//@at "self .write_varint"
		proof { assert(wire_type < 8 ==> (((field_number as u64) << 3) | (wire_type as u64)) == (field_number as u64) * 8 + (wire_type as u64)) by (bit_vector); }
//@end
}

// zigzag is a bijection i64 <-> u64 (the sint64 wire encoding)
pub proof fn lemma_zigzag_roundtrip(v: i64) ensures unzigzag(zigzag(v)) == v
{ assert(({ let u = ((v << 1) ^ (v >> 63)) as u64; ((u >> 1) as i64) ^ (if u & 1 == 1 { -1i64 } else { 0i64 }) }) == v) by (bit_vector); }
pub proof fn lemma_unzigzag_roundtrip(u: u64) ensures zigzag(unzigzag(u)) == u
{ assert(({ let v = ((u >> 1) as i64) ^ (if u & 1 == 1 { -1i64 } else { 0i64 }); ((v << 1) ^ (v >> 63)) as u64 }) == u) by (bit_vector); }
// small values: the arithmetic reading of the mapping (0 -> 0, -1 -> 1, 1 -> 2, -2 -> 3, ...)
pub proof fn lemma_zigzag_examples() ensures zigzag(0i64) == 0, zigzag(-1i64) == 1, zigzag(1i64) == 2, zigzag(-2i64) == 3, zigzag(i64::MAX) == u64::MAX - 1, zigzag(i64::MIN) == u64::MAX
{
	assert(((0i64 << 1) ^ (0i64 >> 63)) as u64 == 0u64) by (bit_vector);
	assert(((-1i64 << 1) ^ (-1i64 >> 63)) as u64 == 1u64) by (bit_vector);
	assert(((1i64 << 1) ^ (1i64 >> 63)) as u64 == 2u64) by (bit_vector);
	assert(((-2i64 << 1) ^ (-2i64 >> 63)) as u64 == 3u64) by (bit_vector);
	assert(((0x7fff_ffff_ffff_ffffi64 << 1) ^ (0x7fff_ffff_ffff_ffffi64 >> 63)) as u64 == 0xffff_ffff_ffff_fffeu64) by (bit_vector);
	assert(((-0x8000_0000_0000_0000i64 << 1) ^ (-0x8000_0000_0000_0000i64 >> 63)) as u64 == 0xffff_ffff_ffff_ffffu64) by (bit_vector);
}
} // verus!
fn main() {}
