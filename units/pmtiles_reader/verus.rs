// unit pmtiles_reader — versatiles_container/src/container/pmtiles/reader.rs: calc_bbox_pyramid::parse_directories
// (coverage from the directory walk: C03, C16; termination and arithmetic on arbitrary directories: C19)
use vstd::prelude::*;
use std::mem::swap;
use std::ops::{Div, Rem};
use std::sync::Arc;
verus! {
//@include common/prelude.vrs
//@include common/tile_bbox.vrs
//@include common/transform.vrs
//@include common/pbf_blob.vrs
//@include common/compression.vrs
//@include common/pyramid_abs.vrs
//@include common/source_abs.vrs

#[derive(Clone, Copy, PartialEq, Eq, Debug, Structural)]
//@extract struct file="versatiles_core/src/types/byte_range.rs" name="ByteRange"
//@end
#[derive(Clone, Copy, PartialEq, Eq, Debug, Structural)]
//@extract struct file="versatiles_container/src/container/pmtiles/types/entry_v3.rs" name="EntryV3"
//@end
//@extract struct file="versatiles_container/src/container/pmtiles/types/entries_v3.rs" name="EntriesV3"
//@end

// assumed here, verified elsewhere: the directory decoder (Kani unit pmtiles_codec, bounded) and the Hilbert decoder
// (Kani unit pmtiles_codec, complete per zoom): `id_coord(id)` is the coordinate tile_id_to_coord returns
pub uninterp spec fn id_coord(id: u64) -> TileCoord3;
#[verifier::external_body]
pub fn tile_id_to_coord(tileid: u64) -> (r: Result<TileCoord3, VErr>)
	ensures r is Ok ==> r.unwrap() == id_coord(tileid) && r.unwrap().valid()
{ unimplemented!() }
// `dir_dec(d)`: the entries EntriesV3::from_blob decodes from d (None: rejected). from_blob is a function of the bytes; WHAT it
// decodes is proved in unit pmtiles_dir_dec (column rules of the specification, every valid directory accepted).
pub uninterp spec fn dir_dec(d: Seq<u8>) -> Option<Seq<EntryV3>>;
impl EntriesV3 {
	#[verifier::external_body]
	pub fn from_blob(data: &Blob) -> (r: Result<EntriesV3, VErr>)
		ensures r is Ok ==> dir_dec(data@) == Some(r.unwrap().entries@), r is Err ==> dir_dec(data@) is None
	{ unimplemented!() }
}
impl Blob {
	// Blob::read_range: the bytes of the range, or Err if it is out of bounds
	#[verifier::external_body]
	pub fn read_range(&self, range: &ByteRange) -> (r: Result<Blob, VErr>)
		ensures r is Ok ==> range.offset + range.length <= self@.len() && r.unwrap()@ == self@.subrange(range.offset as int, range.offset + range.length)
	{ unimplemented!() }
}

// every tile id an entry addresses: the run tile_id .. tile_id + run_length - 1 (PMTiles v3 spec)
pub open spec fn run_covered(p: TileBBoxPyramid, e: EntryV3, n: int) -> bool {
	forall|id: u64| e.tile_id <= id < e.tile_id + n ==> p.has(#[trigger] id_coord(id)) }
pub open spec fn grows(old: TileBBoxPyramid, new: TileBBoxPyramid) -> bool {
	forall|z: int, x: int, y: int| #![trigger new.level(z).has(x, y)] 0 <= z < 32 && old.level(z).has(x, y) ==> new.level(z).has(x, y) }

pub proof fn lemma_grows_keeps_runs(a: TileBBoxPyramid, b: TileBBoxPyramid)
	requires grows(a, b)
	ensures forall|e: EntryV3, n: int| run_covered(a, e, n) ==> #[trigger] run_covered(b, e, n), forall|c: TileCoord3| a.has(c) ==> #[trigger] b.has(c)
{
	assert forall|c: TileCoord3| a.has(c) implies #[trigger] b.has(c) by { }
	assert forall|e: EntryV3, n: int| run_covered(a, e, n) implies #[trigger] run_covered(b, e, n) by {
		assert forall|id: u64| e.tile_id <= id < e.tile_id + n implies b.has(#[trigger] id_coord(id)) by { assert(a.has(id_coord(id))); }
	}
}
pub proof fn lemma_grows_trans(a: TileBBoxPyramid, b: TileBBoxPyramid, c: TileBBoxPyramid)
	requires grows(a, b), grows(b, c) ensures grows(a, c) { }

//@extract fn file="versatiles_container/src/container/pmtiles/reader.rs" scope="top" name="parse_directories" anydepth="1"
//@rewrite "entries.iter()" => "entries.entries.iter()" R7
//@ret r
//@spec
	requires old(bbox_pyramid).wf()
	ensures final(bbox_pyramid).wf(), grows(*old(bbox_pyramid), *final(bbox_pyramid)),
	decreases 3 - depth
//@loop 1 iter=it
		invariant bbox_pyramid.wf(), grows(*old(bbox_pyramid), *bbox_pyramid), depth < 3,
			// C03 / C16: after an entry has been processed, every tile id of its run is inside the coverage
			forall|j: int| 0 <= j < it.index@ && (#[trigger] entries.entries@[j]).range.length > 0 && entries.entries@[j].run_length > 0
				==> run_covered(*bbox_pyramid, entries.entries@[j], entries.entries@[j].run_length as int),
//@loopstart 1
			let ghost p_iter = *bbox_pyramid;
//@loopend 1
			proof {
				lemma_grows_keeps_runs(p_iter, *bbox_pyramid);
				assert forall|j: int| 0 <= j < it.index@ + 1 && (#[trigger] entries.entries@[j]).range.length > 0 && entries.entries@[j].run_length > 0
					implies run_covered(*bbox_pyramid, entries.entries@[j], entries.entries@[j].run_length as int) by { }
			}
//@loop 2 iter=it2
					invariant bbox_pyramid.wf(), grows(*old(bbox_pyramid), *bbox_pyramid), grows(p_iter, *bbox_pyramid), depth < 3,
						it2.index@ <= entry.run_length,
						// the coverage includes every id of the run walked so far (C03 / C16: nothing addressed is left out)
						run_covered(*bbox_pyramid, *entry, it2.index@ as int),
//@at "let coord = tile_id_to_coord(tile_id)?;"
						let ghost before = *bbox_pyramid;
//@after "bbox_pyramid.include_coord(&coord);"
						proof {
							assert forall|id: u64| entry.tile_id <= id < entry.tile_id + it2.index@ + 1 implies bbox_pyramid.has(#[trigger] id_coord(id)) by {
								if id < entry.tile_id + it2.index@ { assert(before.has(id_coord(id))); }
							}
						}
//@end

// ---- single-tile lookup (R5: async erased): descent through the root and at most two leaf directories
impl ByteRange {
//@extract fn file="versatiles_core/src/types/byte_range.rs" scope="impl ByteRange" name="get_shifted_forward"
//@ret r
//@spec
		ensures r.length == self.length, r.offset == (if self.offset + offset <= u64::MAX { (self.offset + offset) as u64 } else { u64::MAX })
//@end
}
// `find_spec(s, id)`: the entry find_tile returns; verified against the PMTiles lookup rule (greatest entry id <= tile id, run lengths,
// leaf pointers) in unit pmtiles_dir. `coord_id(c)`: the Hilbert tile id of c (Kani unit pmtiles_codec, complete per zoom).
pub uninterp spec fn find_spec(s: Seq<EntryV3>, id: u64) -> Option<EntryV3>;
pub uninterp spec fn coord_id(c: TileCoord3) -> u64;
impl EntriesV3 {
	#[verifier::external_body]
	pub fn find_tile(&self, tile_id: u64) -> (r: Option<EntryV3>) ensures r == find_spec(self.entries@, tile_id) { unimplemented!() }
}
// coord_to_tile_id: Ok exactly for coordinates of the tile grid
#[verifier::external_body]
pub fn coord_get_tile_id(c: &TileCoord3) -> (r: Result<u64, VErr>) ensures r is Ok <==> c.valid(), r is Ok ==> r.unwrap() == coord_id(*c) { unimplemented!() }
#[verifier::external_body] pub struct AbsFile { }
impl AbsFile {
	pub uninterp spec fn bytes(&self) -> Seq<u8>;
	#[verifier::external_body]
	pub fn read_range(&self, range: &ByteRange) -> (r: Result<Blob, VErr>)
		ensures r is Ok ==> range.offset + range.length <= self.bytes().len() && r.unwrap()@ == self.bytes().subrange(range.offset as int, range.offset + range.length)
	{ unimplemented!() }
}
// R6: Mutex<LimitedCache<ByteRange, Arc<Blob>>> -> AbsLeafCache (C20: get_or_set returns the stored value or what the loader yields)
#[verifier::external_body] pub struct AbsLeafCache { }
#[verifier::external_body] pub struct AbsLeafGuard { }
impl AbsLeafCache { #[verifier::external_body] pub fn lock(&self) -> (g: AbsLeafGuard) { unimplemented!() } }
impl AbsLeafGuard {
	// C20 (unit limited_cache) + rely/guarantee: the value is what the loader yields for this key — either it was just computed, or it was
	// stored earlier under the same key by this same lookup code (the only writer of this cache), hence satisfies the loader's contract
	#[verifier::external_body]
	pub fn get_or_set<F: FnOnce() -> Result<std::sync::Arc<Blob>, VErr>>(&mut self, key: &ByteRange, callback: F) -> (r: Result<std::sync::Arc<Blob>, VErr>)
		requires callback.requires(())
		ensures r is Ok ==> callback.ensures((), r)
	{ unimplemented!() }
}
#[verifier::external_body] pub struct HeaderV3Abs { }
impl HeaderV3Abs { pub uninterp spec fn tile_data_offset(&self) -> u64; #[verifier::external_body] pub fn tile_data_offset_exec(&self) -> (r: u64) ensures r == self.tile_data_offset() { unimplemented!() } }
pub struct PMTilesReader { pub data_reader: AbsFile, pub header: HeaderV3Abs, pub internal_compression: TileCompression, pub leaves_bytes: Blob, pub leaves_cache: AbsLeafCache, pub tilejson: TileJSON, pub parameters: TilesReaderParameters, pub root_bytes_uncompressed: std::sync::Arc<Blob> }
// the PMTiles v3 lookup, written from the specification ("search the root directory; an entry with run_length 0 points to a leaf
// directory stored in the leaf section, compressed with the INTERNAL compression; at most three directory levels")
pub enum PmRes { Tile(ByteRange), Missing, Bad }
impl PMTilesReader {
	pub open spec fn leaf_bytes(&self, range: ByteRange) -> Option<Seq<u8>> {
		if range.offset + range.length <= self.leaves_bytes@.len() { decode(self.internal_compression, self.leaves_bytes@.subrange(range.offset as int, range.offset + range.length)) } else { None }
	}
	pub open spec fn pm_lookup(&self, id: u64, dir: Seq<u8>, fuel: nat) -> PmRes decreases fuel {
		if fuel == 0 { PmRes::Bad } else { match dir_dec(dir) {
			None => PmRes::Bad,
			Some(es) => match find_spec(es, id) {
				None => PmRes::Missing,
				Some(e) => if e.range.length == 0 { PmRes::Missing } else if e.run_length > 0 { PmRes::Tile(e.range) } else {
					match self.leaf_bytes(e.range) { None => PmRes::Bad, Some(l) => self.pm_lookup(id, l, (fuel - 1) as nat) } },
			},
		} }
	}
//@extract fn file="versatiles_container/src/container/pmtiles/reader.rs" scope="impl TilesReaderTrait for PMTilesReader" name="get_tile_data"
//@rewrite "coord.get_tile_id()" => "coord_get_tile_id(coord)" R7
//@rewrite "self.header.tile_data.offset" => "self.header.tile_data_offset_exec()" R6
//@ret r
//@spec
		// any coordinate, any (decodable or not) directories: a tile, nothing, or an error — never a panic; at most 3 directory levels (C19, C16)
		ensures r is Ok && r.unwrap() is Some ==> coord.valid(),
			// an answer is the answer of the specification's lookup: the bytes of the addressed range of the tile section, or no tile (C16, C01)
			r is Ok ==> (match self.pm_lookup(coord_id(*coord), self.root_bytes_uncompressed@, 3) {
				PmRes::Tile(rg) => r.unwrap() is Some && ({ let off = if rg.offset + self.header.tile_data_offset() <= u64::MAX { (rg.offset + self.header.tile_data_offset()) as u64 } else { u64::MAX };
					off + rg.length <= self.data_reader.bytes().len() && r.unwrap().unwrap()@ == self.data_reader.bytes().subrange(off as int, off + rg.length) }),
				PmRes::Missing => r.unwrap() is None,
				PmRes::Bad => false,
			}),
//@loop 1 iter=it
			invariant coord.valid(), tile_id == coord_id(*coord),
				self.pm_lookup(tile_id, self.root_bytes_uncompressed@, 3) == self.pm_lookup(tile_id, dir_bytes@, (3 - it.index@) as nat),
//@closure "||"
|| -> (cr: Result<Arc<Blob>, VErr>) ensures cr is Ok ==> self.leaf_bytes(range) == Some(cr.unwrap()@)
//@end
}
} // verus!
fn main() {}
