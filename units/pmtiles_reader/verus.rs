// unit pmtiles_reader — versatiles_container/src/container/pmtiles/reader.rs: calc_bbox_pyramid::parse_directories
// (coverage from the directory walk: C03, C16; termination and arithmetic on arbitrary directories: C19)
use vstd::prelude::*;
use std::mem::swap;
use std::ops::{Div, Rem};
verus! {
//@include common/prelude.vrs
//@include common/tile_bbox.vrs
//@include common/transform.vrs
//@include common/pbf_blob.vrs
//@include common/compression.vrs
//@include common/pyramid_abs.vrs

#[derive(Clone, Copy, PartialEq, Eq, Debug, Structural)]
//@extract struct file="versatiles_core/src/types/byte_range.rs" name="ByteRange"
//@end
#[derive(Clone, Copy, PartialEq, Eq, Debug, Structural)]
//@extract struct file="versatiles_container/src/container/pmtiles/types/entry_v3.rs" name="EntryV3"
//@end
//@extract struct file="versatiles_container/src/container/pmtiles/types/entries_v3.rs" name="EntriesV3"
//@end

// assumed here, verified elsewhere: the directory decoder (Kani unit pmtiles_codec, bounded) and the Hilbert decoder
// (Kani unit pmtiles_codec, complete per zoom): `id_coord(id)` is the coordinate tile_id_to_coord returns
pub uninterp spec fn id_coord(id: u64) -> TileCoord3;
#[verifier::external_body]
pub fn tile_id_to_coord(tileid: u64) -> (r: Result<TileCoord3, VErr>)
	ensures r is Ok ==> r.unwrap() == id_coord(tileid) && r.unwrap().valid()
{ unimplemented!() }
impl EntriesV3 {
	#[verifier::external_body]
	pub fn from_blob(data: &Blob) -> (r: Result<EntriesV3, VErr>) { unimplemented!() }
}
impl Blob {
	// Blob::read_range: the bytes of the range, or Err if it is out of bounds
	#[verifier::external_body]
	pub fn read_range(&self, range: &ByteRange) -> (r: Result<Blob, VErr>)
		ensures r is Ok ==> range.offset + range.length <= self@.len() && r.unwrap()@ == self@.subrange(range.offset as int, range.offset + range.length)
	{ unimplemented!() }
}

// every tile id an entry addresses: the run tile_id .. tile_id + run_length - 1 (PMTiles v3 spec)
pub open spec fn run_covered(p: TileBBoxPyramid, e: EntryV3, n: int) -> bool {
	forall|id: u64| e.tile_id <= id < e.tile_id + n ==> p.has(#[trigger] id_coord(id)) }
pub open spec fn grows(old: TileBBoxPyramid, new: TileBBoxPyramid) -> bool {
	forall|z: int, x: int, y: int| #![trigger new.level(z).has(x, y)] 0 <= z < 32 && old.level(z).has(x, y) ==> new.level(z).has(x, y) }

pub proof fn lemma_grows_keeps_runs(a: TileBBoxPyramid, b: TileBBoxPyramid)
	requires grows(a, b)
	ensures forall|e: EntryV3, n: int| run_covered(a, e, n) ==> #[trigger] run_covered(b, e, n), forall|c: TileCoord3| a.has(c) ==> #[trigger] b.has(c)
{
	assert forall|c: TileCoord3| a.has(c) implies #[trigger] b.has(c) by { }
	assert forall|e: EntryV3, n: int| run_covered(a, e, n) implies #[trigger] run_covered(b, e, n) by {
		assert forall|id: u64| e.tile_id <= id < e.tile_id + n implies b.has(#[trigger] id_coord(id)) by { assert(a.has(id_coord(id))); }
	}
}
pub proof fn lemma_grows_trans(a: TileBBoxPyramid, b: TileBBoxPyramid, c: TileBBoxPyramid)
	requires grows(a, b), grows(b, c) ensures grows(a, c) { }

//@extract fn file="versatiles_container/src/container/pmtiles/reader.rs" scope="top" name="parse_directories" anydepth="1"
//@rewrite "entries.iter()" => "entries.entries.iter()" R7
//@ret r
//@spec
	requires old(bbox_pyramid).wf()
	ensures final(bbox_pyramid).wf(), grows(*old(bbox_pyramid), *final(bbox_pyramid)),
	decreases 3 - depth
//@loop 1 iter=it
		invariant bbox_pyramid.wf(), grows(*old(bbox_pyramid), *bbox_pyramid), depth < 3,
			// C03 / C16: after an entry has been processed, every tile id of its run is inside the coverage
			forall|j: int| 0 <= j < it.index@ && (#[trigger] entries.entries@[j]).range.length > 0 && entries.entries@[j].run_length > 0
				==> run_covered(*bbox_pyramid, entries.entries@[j], entries.entries@[j].run_length as int),
//@loopstart 1
			let ghost p_iter = *bbox_pyramid;
//@loopend 1
			proof {
				lemma_grows_keeps_runs(p_iter, *bbox_pyramid);
				assert forall|j: int| 0 <= j < it.index@ + 1 && (#[trigger] entries.entries@[j]).range.length > 0 && entries.entries@[j].run_length > 0
					implies run_covered(*bbox_pyramid, entries.entries@[j], entries.entries@[j].run_length as int) by { }
			}
//@loop 2 iter=it2
					invariant bbox_pyramid.wf(), grows(*old(bbox_pyramid), *bbox_pyramid), grows(p_iter, *bbox_pyramid), depth < 3,
						it2.index@ <= entry.run_length,
						// the coverage includes every id of the run walked so far (C03 / C16: nothing addressed is left out)
						run_covered(*bbox_pyramid, *entry, it2.index@ as int),
//@at "let coord = tile_id_to_coord(tile_id)?;"
						let ghost before = *bbox_pyramid;
//@after "bbox_pyramid.include_coord(&coord);"
						proof {
							assert forall|id: u64| entry.tile_id <= id < entry.tile_id + it2.index@ + 1 implies bbox_pyramid.has(#[trigger] id_coord(id)) by {
								if id < entry.tile_id + it2.index@ { assert(before.has(id_coord(id))); }
							}
						}
//@end
} // verus!
fn main() {}
