// unit versatiles_codec (Kani) — versatiles v02 container records: 66-byte file header, 33-byte block definition, 12-byte
// tile index records, against the published layout (big-endian), and their decoders on arbitrary bytes. C01, C16, C19.
#![allow(dead_code, unused_imports, unused_variables, unused_mut)]
use std::ops::Div;

#[derive(Debug, Clone, Copy, PartialEq, Eq)]
pub struct VErr;
pub fn verr() -> VErr { VErr }
pub fn vassert(c: bool) { assert!(c); }
pub fn vpanic<A>() -> A { panic!() }
pub fn vformat() -> String { String::new() }
pub fn pow2u32(e: u32) -> u32 { 1u32 << e }
//@rewrite "2u32.pow(level as u32)" => "pow2u32(level as u32)" R7

// ---- R6 stand-ins for the byte I/O environment (Blob, ValueReaderSlice/ValueReaderBlob<BigEndian>, ValueWriterBlob<BigEndian>)
pub const BCAP: usize = 72;
#[derive(Clone, Copy, Debug)]
pub struct Blob { pub data: [u8; BCAP], pub n: usize }
impl Blob {
	pub fn as_slice(&self) -> &[u8] { &self.data[..self.n] }
	pub fn len(&self) -> u64 { self.n as u64 }
}
// the 14-byte magic string: String::from_utf8 + comparison with a literal only (see DESIGN: faithful for this use)
pub struct AbsString { pub b: [u8; 16], pub n: usize }
impl PartialEq<str> for AbsString { fn eq(&self, o: &str) -> bool { let ob = o.as_bytes(); if ob.len() != self.n { return false; } let mut i = 0; while i < self.n { if self.b[i] != ob[i] { return false; } i += 1; } true } }
pub struct ValueReaderSlice<'a> { pub data: &'a [u8], pub pos: usize }
impl<'a> ValueReaderSlice<'a> {
	pub fn new_be(slice: &'a [u8]) -> Self { ValueReaderSlice { data: slice, pos: 0 } }
	pub fn read_u8(&mut self) -> Result<u8, VErr> { if self.pos < self.data.len() { let b = self.data[self.pos]; self.pos += 1; Ok(b) } else { Err(VErr) } }
	pub fn read_u32(&mut self) -> Result<u32, VErr> { let mut v: u32 = 0; let mut i = 0; while i < 4 { v = (v << 8) | self.read_u8()? as u32; i += 1; } Ok(v) }
	pub fn read_i32(&mut self) -> Result<i32, VErr> { Ok(self.read_u32()? as i32) }
	pub fn read_u64(&mut self) -> Result<u64, VErr> { let mut v: u64 = 0; let mut i = 0; while i < 8 { v = (v << 8) | self.read_u8()? as u64; i += 1; } Ok(v) }
	pub fn read_string(&mut self, n: u64) -> Result<AbsString, VErr> { assert!(n <= 16); let mut s = AbsString { b: [0; 16], n: n as usize }; let mut i = 0; while i < n as usize { s.b[i] = self.read_u8()?; i += 1; } Ok(s) }
//@extract fn file="versatiles_core/src/io/value_reader.rs" scope="trait ValueReader<'a, E: ByteOrder + 'a>" name="read_range"
//@rewrite "self.get_reader().read_u64::<E>()" => "self.read_u64()" R7
//@end
}
pub struct ValueWriterBlob { pub data: [u8; BCAP], pub n: usize }
impl ValueWriterBlob {
	pub fn new_be() -> Self { ValueWriterBlob { data: [0u8; BCAP], n: 0 } }
	pub fn position(&mut self) -> Result<u64, VErr> { Ok(self.n as u64) }
	pub fn write_u8(&mut self, b: u8) -> Result<(), VErr> { assert!(self.n < BCAP, "stand-in capacity"); self.data[self.n] = b; self.n += 1; Ok(()) }
	pub fn write_slice(&mut self, s: &[u8]) -> Result<(), VErr> { let mut i = 0; while i < s.len() { self.write_u8(s[i])?; i += 1; } Ok(()) }
	pub fn write_u32(&mut self, v: u32) -> Result<(), VErr> { let mut i = 0; while i < 4 { self.write_u8((v >> (8 * (3 - i))) as u8)?; i += 1; } Ok(()) }
	pub fn write_i32(&mut self, v: i32) -> Result<(), VErr> { self.write_u32(v as u32) }
	pub fn write_u64(&mut self, v: u64) -> Result<(), VErr> { let mut i = 0; while i < 8 { self.write_u8((v >> (8 * (7 - i))) as u8)?; i += 1; } Ok(()) }
	pub fn into_blob(self) -> Blob { Blob { data: self.data, n: self.n } }
//@extract fn file="versatiles_core/src/io/value_writer.rs" scope="trait ValueWriter<E: ByteOrder>" name="write_range"
//@rewrite "self.get_writer().write_u64::<E>" => "self.write_u64" R7
//@end
}

#[derive(Clone, Copy, PartialEq, Eq, Debug)]
#[cfg_attr(kani, derive(kani::Arbitrary))]
//@extract struct file="versatiles_core/src/types/byte_range.rs" name="ByteRange"
//@end
impl ByteRange {
//@extract fn file="versatiles_core/src/types/byte_range.rs" scope="impl ByteRange" name="new"
//@end
//@extract fn file="versatiles_core/src/types/byte_range.rs" scope="impl ByteRange" name="empty"
//@end
}
#[derive(Clone, Copy, PartialEq, Eq, Debug)]
#[cfg_attr(kani, derive(kani::Arbitrary))]
//@extract enum file="versatiles_core/src/types/tile_compression.rs" name="TileCompression"
//@end
#[derive(Clone, Copy, PartialEq, Eq, Debug)]
#[cfg_attr(kani, derive(kani::Arbitrary))]
//@extract enum file="versatiles_core/src/types/tile_format.rs" name="TileFormat"
//@end
#[derive(Clone, Copy, PartialEq, Eq, Debug)]
//@extract struct file="versatiles_core/src/types/tile_coords.rs" name="TileCoord3"
//@end
impl TileCoord3 {
//@extract fn file="versatiles_core/src/types/tile_coords.rs" scope="impl TileCoord3" name="new"
//@end
}
#[derive(Clone, PartialEq, Eq, Debug)]
#[cfg_attr(kani, derive(kani::Arbitrary))]
//@extract struct file="versatiles_core/src/types/tile_bbox.rs" name="TileBBox"
//@end
impl TileBBox {
//@extract fn file="versatiles_core/src/types/tile_bbox.rs" scope="impl TileBBox" name="new"
//@end
//@extract fn file="versatiles_core/src/types/tile_bbox.rs" scope="impl TileBBox" name="width"
//@end
//@extract fn file="versatiles_core/src/types/tile_bbox.rs" scope="impl TileBBox" name="height"
//@end
//@extract fn file="versatiles_core/src/types/tile_bbox.rs" scope="impl TileBBox" name="count_tiles"
//@end
}

//@extract const file="versatiles_container/src/container/versatiles/types/file_header.rs" name="HEADER_LENGTH"
//@end
#[derive(Debug, PartialEq)]
#[cfg_attr(kani, derive(kani::Arbitrary))]
//@extract struct file="versatiles_container/src/container/versatiles/types/file_header.rs" name="FileHeader"
//@end
impl FileHeader {
//@extract fn file="versatiles_container/src/container/versatiles/types/file_header.rs" scope="impl FileHeader" name="to_blob"
//@end
//@extract fn file="versatiles_container/src/container/versatiles/types/file_header.rs" scope="impl FileHeader" name="from_blob"
//@end
}
#[derive(Clone, PartialEq, Eq, Debug)]
//@extract struct file="versatiles_container/src/container/versatiles/types/block_definition.rs" name="BlockDefinition"
//@end
impl BlockDefinition {
//@extract fn file="versatiles_container/src/container/versatiles/types/block_definition.rs" scope="impl BlockDefinition" name="new"
//@end
//@extract fn file="versatiles_container/src/container/versatiles/types/block_definition.rs" scope="impl BlockDefinition" name="from_blob"
//@end
//@extract fn file="versatiles_container/src/container/versatiles/types/block_definition.rs" scope="impl BlockDefinition" name="as_blob"
//@end
//@extract fn file="versatiles_container/src/container/versatiles/types/block_definition.rs" scope="impl BlockDefinition" name="set_tiles_range"
//@end
//@extract fn file="versatiles_container/src/container/versatiles/types/block_definition.rs" scope="impl BlockDefinition" name="set_index_range"
//@end
//@extract fn file="versatiles_container/src/container/versatiles/types/block_definition.rs" scope="impl BlockDefinition" name="count_tiles"
//@end
}

#[cfg(kani)]
mod proofs {
	use super::*;
	fn be64(b: &[u8], o: usize) -> u64 { let mut v = 0u64; let mut i = 0; while i < 8 { v = (v << 8) | b[o + i] as u64; i += 1; } v }
	fn be32(b: &[u8], o: usize) -> u32 { let mut v = 0u32; let mut i = 0; while i < 4 { v = (v << 8) | b[o + i] as u32; i += 1; } v }
	// published codes of the versatiles v02 header
	fn format_code(f: TileFormat) -> u8 { match f { TileFormat::BIN => 0x00, TileFormat::PNG => 0x10, TileFormat::JPG => 0x11, TileFormat::WEBP => 0x12, TileFormat::AVIF => 0x13, TileFormat::SVG => 0x14, TileFormat::PBF => 0x20, TileFormat::GEOJSON => 0x21, TileFormat::TOPOJSON => 0x22, TileFormat::JSON => 0x23 } }

	// harness: kind=complete why="fixed-size record (66 bytes), every header value symbolic" tier=quick props=C01,C16 fn=FileHeader::to_blob,FileHeader::from_blob,ValueWriter::write_range,ValueReader::read_range timeout=2400
	#[kani::proof]
	#[kani::unwind(74)]
	fn file_header_roundtrip_and_layout() {
		let h: FileHeader = kani::any();
		let blob = h.to_blob().unwrap();
		let b = blob.as_slice();
		let magic = b"versatiles_v02";
		assert!(b.len() == 66);
		let mut i = 0; while i < 14 { assert!(b[i] == magic[i]); i += 1; }
		assert!(b[14] == format_code(h.tile_format));
		assert!(b[15] == match h.compression { TileCompression::Uncompressed => 0, TileCompression::Gzip => 1, TileCompression::Brotli => 2 });
		assert!(b[16] == h.zoom_range[0] && b[17] == h.zoom_range[1]);
		assert!(be32(b, 18) as i32 == h.bbox[0] && be32(b, 22) as i32 == h.bbox[1] && be32(b, 26) as i32 == h.bbox[2] && be32(b, 30) as i32 == h.bbox[3]);
		assert!(be64(b, 34) == h.meta_range.offset && be64(b, 42) == h.meta_range.length && be64(b, 50) == h.blocks_range.offset && be64(b, 58) == h.blocks_range.length);
		let back = FileHeader::from_blob(&blob).unwrap();
		assert!(back == h);
	}
	// harness: kind=complete why="fixed-size record: ALL byte strings of every length 0..72" tier=quick props=C19,C16 fn=FileHeader::from_blob timeout=2400
	#[kani::proof]
	#[kani::unwind(74)]
	fn file_header_from_blob_total() {
		let data: [u8; BCAP] = kani::any();
		let n: usize = kani::any(); kani::assume(n <= BCAP);
		let r = FileHeader::from_blob(&Blob { data, n });
		if n != 66 { assert!(r.is_err()); }
		if let Ok(h) = r { assert!(data[0] == b'v' && data[13] == b'2' && h.zoom_range[0] == data[16] && h.blocks_range.length == be64(&data, 58)); }
	}
	fn wf(b: &TileBBox) -> bool { b.level <= 31 && b.max == ((1u64 << b.level) - 1) as u32 && b.x_min <= b.x_max && b.y_min <= b.y_max && b.x_max <= b.max && b.y_max <= b.max }
	// harness: kind=complete why="fixed-size record (33 bytes), every block definition the writer can create (a non-empty box inside one 256x256 block)" tier=quick props=C01,C16 fn=BlockDefinition::new,BlockDefinition::as_blob,BlockDefinition::from_blob timeout=2400
	#[kani::proof]
	#[kani::unwind(40)]
	fn block_definition_roundtrip_and_layout() {
		let bbox: TileBBox = kani::any();
		kani::assume(wf(&bbox) && bbox.x_min / 256 == bbox.x_max / 256 && bbox.y_min / 256 == bbox.y_max / 256);   // one cell of the 256-grid (iter_bbox_grid(256))
		let mut bd = BlockDefinition::new(&bbox);
		let off: u64 = kani::any(); let tl: u64 = kani::any(); let il: u32 = kani::any();
		kani::assume(off <= u64::MAX / 2 && tl <= u64::MAX / 4);
		bd.set_tiles_range(ByteRange::new(off, tl));
		bd.set_index_range(ByteRange::new(off + tl, il as u64));
		assert!(bd.count_tiles() == (bbox.x_max - bbox.x_min + 1) as u64 * (bbox.y_max - bbox.y_min + 1) as u64);
		let blob = bd.as_blob().unwrap();
		let b = blob.as_slice();
		assert!(b.len() == 33 && b[0] == bbox.level && be32(b, 1) == bbox.x_min / 256 && be32(b, 5) == bbox.y_min / 256);
		assert!(b[9] as u32 == bbox.x_min % 256 && b[10] as u32 == bbox.y_min % 256 && b[11] as u32 == bbox.x_max % 256 && b[12] as u32 == bbox.y_max % 256);
		assert!(be64(b, 13) == off && be64(b, 21) == tl && be32(b, 29) == il);
		let back = BlockDefinition::from_blob(&blob).unwrap();
		assert!(back == bd);
		assert!(back.global_bbox == bbox);
	}
	// harness: kind=complete why="fixed-size record: ALL byte strings of every length 0..40" tier=quick props=C19,C16 fn=BlockDefinition::from_blob timeout=2400
	#[kani::proof]
	#[kani::unwind(40)]
	fn block_definition_from_blob_total() {
		let mut data = [0u8; BCAP];
		let mut i = 0; while i < 36 { data[i] = kani::any(); i += 1; }
		let n: usize = kani::any(); kani::assume(n <= 36);
		let r = BlockDefinition::from_blob(&Blob { data, n });
		if n < 33 { assert!(r.is_err()); }
		if let Ok(bd) = r {
			// partial blocks: any sub-rectangle of the 256x256 block is accepted and placed at (x*256, y*256)
			assert!(wf(&bd.global_bbox) && bd.global_bbox.level == data[0] && bd.global_bbox.x_min == data[9] as u32 + be32(&data, 1) * 256 && bd.global_bbox.y_max == data[12] as u32 + be32(&data, 5) * 256);
			assert!(bd.index_range.offset == bd.tiles_range.offset + bd.tiles_range.length);
			// the invariant the reader relies on (Verus unit versatiles_reader, BlockDefinition::ok): same shape, same level
			assert!(bd.tiles_coverage.x_max - bd.tiles_coverage.x_min == bd.global_bbox.x_max - bd.global_bbox.x_min && bd.tiles_coverage.y_max - bd.tiles_coverage.y_min == bd.global_bbox.y_max - bd.global_bbox.y_min);
			assert!(bd.global_bbox.level == bd.offset.z && bd.tiles_coverage.x_min <= bd.tiles_coverage.x_max && bd.tiles_coverage.y_min <= bd.tiles_coverage.y_max && bd.tiles_coverage.x_max <= bd.tiles_coverage.max && bd.tiles_coverage.y_max <= bd.tiles_coverage.max);
		}
	}
	// harness: kind=canary expect=fail tier=quick props=C01,C16,C19 timeout=1200
	#[kani::proof]
	#[kani::unwind(74)]
	fn versatiles_canary_must_fail() {
		let h: FileHeader = kani::any();
		let blob = h.to_blob().unwrap();
		assert!(blob.as_slice()[16] == h.zoom_range[1]);   // wrong on purpose
	}
}
