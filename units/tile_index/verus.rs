// unit tile_index — versatiles_container/src/container/versatiles/types/tile_index.rs: the per-block tile index
// (12-byte records: u64 offset, u32 length, big-endian, versatiles v02 layout) — C01, C16, C19
use vstd::prelude::*;
use std::ops::Div;
verus! {
//@include common/prelude.vrs
//@include common/byte_io.vrs
//@include common/pbf_blob.vrs

// big-endian fixed-width integers (byteorder crate behind ValueReader/ValueWriter<BigEndian>): assumed contract
pub open spec fn be64(v: u64) -> Seq<u8> { seq![(v >> 56) as u8, (v >> 48) as u8, (v >> 40) as u8, (v >> 32) as u8, (v >> 24) as u8, (v >> 16) as u8, (v >> 8) as u8, v as u8] }
pub open spec fn be32(v: u32) -> Seq<u8> { seq![(v >> 24) as u8, (v >> 16) as u8, (v >> 8) as u8, v as u8] }
pub open spec fn un_be64(s: Seq<u8>) -> u64 { ((s[0] as u64) << 56) | ((s[1] as u64) << 48) | ((s[2] as u64) << 40) | ((s[3] as u64) << 32) | ((s[4] as u64) << 24) | ((s[5] as u64) << 16) | ((s[6] as u64) << 8) | (s[7] as u64) }
pub open spec fn un_be32(s: Seq<u8>) -> u32 { ((s[0] as u32) << 24) | ((s[1] as u32) << 16) | ((s[2] as u32) << 8) | (s[3] as u32) }
pub proof fn lemma_be64_inverse(v: u64) ensures un_be64(be64(v)) == v, be64(v).len() == 8
{ assert(((((v >> 56) as u8) as u64) << 56) | ((((v >> 48) as u8) as u64) << 48) | ((((v >> 40) as u8) as u64) << 40) | ((((v >> 32) as u8) as u64) << 32) | ((((v >> 24) as u8) as u64) << 24) | ((((v >> 16) as u8) as u64) << 16) | ((((v >> 8) as u8) as u64) << 8) | ((v as u8) as u64) == v) by (bit_vector); }
pub proof fn lemma_be32_inverse(v: u32) ensures un_be32(be32(v)) == v, be32(v).len() == 4
{ assert(((((v >> 24) as u8) as u32) << 24) | ((((v >> 16) as u8) as u32) << 16) | ((((v >> 8) as u8) as u32) << 8) | ((v as u8) as u32) == v) by (bit_vector); }

pub struct ValueReaderBlob { pub cursor: AbsCursor }
impl ValueReaderBlob {
	pub fn new_be(blob: Blob) -> (r: ValueReaderBlob) ensures r.cursor.data@ == blob@, r.cursor.pos == 0 { ValueReaderBlob { cursor: AbsCursor { data: blob.v, pos: 0 } } }
	#[verifier::external_body]
	pub fn read_u64(&mut self) -> (r: Result<u64, VErr>)
		ensures final(self).cursor.data@ == old(self).cursor.data@,
			r is Ok <==> old(self).cursor.pos + 8 <= old(self).cursor.data@.len(),
			r is Ok ==> final(self).cursor.pos == old(self).cursor.pos + 8 && r.unwrap() == un_be64(old(self).cursor.data@.subrange(old(self).cursor.pos as int, old(self).cursor.pos + 8)),
	{ unimplemented!() }
	#[verifier::external_body]
	pub fn read_u32(&mut self) -> (r: Result<u32, VErr>)
		ensures final(self).cursor.data@ == old(self).cursor.data@,
			r is Ok <==> old(self).cursor.pos + 4 <= old(self).cursor.data@.len(),
			r is Ok ==> final(self).cursor.pos == old(self).cursor.pos + 4 && r.unwrap() == un_be32(old(self).cursor.data@.subrange(old(self).cursor.pos as int, old(self).cursor.pos + 4)),
	{ unimplemented!() }
}
pub struct ValueWriterBlob { pub sink: ByteSink }
impl ValueWriterBlob {
	pub fn new_be() -> (r: ValueWriterBlob) ensures r.sink.buf@ == Seq::<u8>::empty() { ValueWriterBlob { sink: ByteSink { buf: Vec::new() } } }
	pub fn into_blob(self) -> (r: Blob) ensures r@ == self.sink.buf@ { Blob::from_vec(self.sink.buf) }
	#[verifier::external_body]
	pub fn write_u64(&mut self, v: u64) -> (r: Result<(), VErr>) ensures r is Ok, final(self).sink.buf@ == old(self).sink.buf@ + be64(v) { unimplemented!() }
	#[verifier::external_body]
	pub fn write_u32(&mut self, v: u32) -> (r: Result<(), VErr>) ensures r is Ok, final(self).sink.buf@ == old(self).sink.buf@ + be32(v) { unimplemented!() }
}

// the brotli wrappers: assumed here with the clauses unit codec_wrappers proves for the real bodies
pub uninterp spec fn dec_brotli(d: Seq<u8>) -> Option<Seq<u8>>;    // trusted: brotli
#[verifier::external_body]
pub fn compress_brotli_fast(b: &Blob) -> (r: Result<Blob, VErr>) ensures r is Ok ==> dec_brotli(r.unwrap()@) == Some(b@) { unimplemented!() }
#[verifier::external_body]
pub fn decompress_brotli(b: &Blob) -> (r: Result<Blob, VErr>) ensures r is Ok ==> dec_brotli(b@) == Some(r.unwrap()@) { unimplemented!() }
#[derive(Clone, Copy, PartialEq, Eq, Debug, Structural)]
//@extract struct file="versatiles_core/src/types/byte_range.rs" name="ByteRange"
//@end
impl ByteRange {
//@extract fn file="versatiles_core/src/types/byte_range.rs" scope="impl ByteRange" name="new"
//@ret r
//@spec
		ensures r.offset == offset, r.length == length
//@end
}
//@extract const file="versatiles_container/src/container/versatiles/types/tile_index.rs" name="TILE_INDEX_LENGTH"
//@end
//@extract struct file="versatiles_container/src/container/versatiles/types/tile_index.rs" name="TileIndex"
//@end

// versatiles v02: a tile index is the concatenation of 12-byte records (offset: u64 BE, length: u32 BE)
pub open spec fn record(r: ByteRange) -> Seq<u8> { be64(r.offset) + be32(r.length as u32) }
pub open spec fn records(s: Seq<ByteRange>, k: int) -> Seq<u8> decreases k { if k <= 0 { Seq::empty() } else { records(s, k - 1) + record(s[k - 1]) } }
pub open spec fn decode_record(b: Seq<u8>, i: int) -> ByteRange {
	ByteRange { offset: un_be64(b.subrange(12 * i, 12 * i + 8)), length: un_be32(b.subrange(12 * i + 8, 12 * i + 12)) as u64 } }
pub proof fn lemma_records_len(s: Seq<ByteRange>, k: int) requires 0 <= k <= s.len() ensures records(s, k).len() == 12 * k decreases k
{ if k > 0 { lemma_records_len(s, k - 1); } }

impl TileIndex {
//@extract fn file="versatiles_container/src/container/versatiles/types/tile_index.rs" scope="impl TileIndex" name="from_blob"
//@ret r
//@spec
		// any byte string: an index or an error; Ok exactly for whole records; entry i is the i-th record (C16, C19)
		ensures r is Ok <==> blob@.len() % 12 == 0,
			r is Ok ==> r.unwrap().index@.len() * 12 == blob@.len()
				&& forall|i: int| 0 <= i < r.unwrap().index@.len() ==> #[trigger] r.unwrap().index@[i] == decode_record(blob@, i),
//@at "let mut index = Vec::new();"
		let ghost bytes = blob@;
//@loop 1 iter=it
			invariant reader.cursor.data@ == bytes, bytes.len() == 12 * count, reader.cursor.pos == 12 * it.index@, index@.len() == it.index@, it.index@ <= count,
				forall|i: int| 0 <= i < index@.len() ==> #[trigger] index@[i] == decode_record(bytes, i),
//@end
//@extract fn file="versatiles_container/src/container/versatiles/types/tile_index.rs" scope="impl TileIndex" name="as_blob"
//@ret r
//@spec
		ensures r is Ok, r.unwrap()@ == records(self.index@, self.index@.len() as int)
//@loop 1 iter=it
			invariant writer.sink.buf@ == records(self.index@, it.index@ as int),
//@end
// R7 (loop shape): iter_mut().for_each(closure) -> index loop over the same vector, same assignment
//@extract fn file="versatiles_container/src/container/versatiles/types/tile_index.rs" scope="impl TileIndex" name="add_offset"
//@rewrite "self .index .iter_mut() .for_each(|r| r.offset = r.offset" => "for vi in 0..self.index.len() { self.index[vi].offset = self.index[vi].offset" R7
//@rewrite "));" => "); }" R7
//@spec
		// every entry is re-based by the block's offset (block-relative -> file-absolute, versatiles v02), lengths untouched,
		// no entry added or dropped, no panic for any offset (saturating: repaired in 9df5b8f3)
		ensures final(self).index@.len() == old(self).index@.len(),
			forall|i: int| 0 <= i < old(self).index@.len() ==> (#[trigger] final(self).index@[i]).length == old(self).index@[i].length
				&& final(self).index@[i].offset == (if old(self).index@[i].offset + offset > u64::MAX { u64::MAX as int } else { old(self).index@[i].offset + offset }),
//@loop 1 iter=it
			invariant self.index@.len() == old(self).index@.len(), it.iter.end == old(self).index@.len(),
				forall|i: int| 0 <= i < it.index@ ==> (#[trigger] self.index@[i]).length == old(self).index@[i].length
					&& self.index@[i].offset == (if old(self).index@[i].offset + offset > u64::MAX { u64::MAX as int } else { old(self).index@[i].offset + offset }),
				forall|i: int| it.index@ <= i < self.index@.len() ==> #[trigger] self.index@[i] == old(self).index@[i],
//@end
//@extract fn file="versatiles_container/src/container/versatiles/types/tile_index.rs" scope="impl TileIndex" name="from_brotli_blob"
//@ret r
//@spec
		// the stored form of a block's tile index (versatiles v02): brotli over the 12-byte records
		ensures r is Ok ==> dec_brotli(buf@) is Some && dec_brotli(buf@).unwrap().len() % 12 == 0
			&& r.unwrap().index@.len() * 12 == dec_brotli(buf@).unwrap().len()
			&& forall|i: int| 0 <= i < r.unwrap().index@.len() ==> #[trigger] r.unwrap().index@[i] == decode_record(dec_brotli(buf@).unwrap(), i),
//@end
//@extract fn file="versatiles_container/src/container/versatiles/types/tile_index.rs" scope="impl TileIndex" name="as_brotli_blob"
//@ret r
//@spec
		ensures r is Ok ==> dec_brotli(r.unwrap()@) == Some(records(self.index@, self.index@.len() as int))
//@end
//@extract fn file="versatiles_container/src/container/versatiles/types/tile_index.rs" scope="impl TileIndex" name="new_empty"
//@ret r
//@spec
		ensures r.index@.len() == count, forall|i: int| 0 <= i < count ==> (#[trigger] r.index@[i]).offset == 0 && r.index@[i].length == 0
//@end
//@extract fn file="versatiles_container/src/container/versatiles/types/tile_index.rs" scope="impl TileIndex" name="set"
//@spec
		requires index < old(self).index@.len()
		ensures final(self).index@ == old(self).index@.update(index as int, tile_byte_range)
//@end
}

// round trip (C01): decoding the written records gives back every entry whose length fits the 32-bit length field
pub proof fn lemma_tile_index_roundtrip(s: Seq<ByteRange>, i: int)
	requires 0 <= i < s.len(), s[i].length <= u32::MAX
	ensures decode_record(records(s, s.len() as int), i) == s[i]
{
	let all = records(s, s.len() as int);
	lemma_records_prefix(s, i + 1, s.len() as int);
	lemma_records_len(s, i);
	let rec = record(s[i]);
	lemma_be64_inverse(s[i].offset); lemma_be32_inverse(s[i].length as u32);
	let pre = records(s, i + 1);
	assert(pre == records(s, i) + rec);
	assert(all.subrange(0, 12 * (i + 1)) =~= pre);
	assert(rec.len() == 12);
	assert forall|j: int| 0 <= j < 12 implies all[12 * i + j] == #[trigger] rec[j] by {
		assert(all[12 * i + j] == all.subrange(0, 12 * (i + 1))[12 * i + j]);
		assert(pre[12 * i + j] == rec[j]);
	}
	assert forall|j: int| 0 <= j < 8 implies rec[j] == #[trigger] be64(s[i].offset)[j] by { }
	assert forall|j: int| 0 <= j < 4 implies rec[8 + j] == #[trigger] be32(s[i].length as u32)[j] by { }
	assert(all.subrange(12 * i, 12 * i + 8) =~= be64(s[i].offset));
	assert(all.subrange(12 * i + 8, 12 * i + 12) =~= be32(s[i].length as u32));
}
pub proof fn lemma_records_prefix(s: Seq<ByteRange>, k: int, n: int)
	requires 0 <= k <= n <= s.len()
	ensures records(s, n).subrange(0, 12 * k) =~= records(s, k), records(s, n).len() == 12 * n
	decreases n - k
{
	lemma_records_len(s, n); lemma_records_len(s, k);
	if k < n { lemma_records_prefix(s, k, n - 1); lemma_records_len(s, n - 1);
		assert(records(s, n) == records(s, n - 1) + record(s[n - 1]));
		assert(records(s, n).subrange(0, 12 * k) =~= records(s, n - 1).subrange(0, 12 * k)); }
	else { assert(records(s, n).subrange(0, 12 * n) =~= records(s, n)); }
}

// C01 (tile index, stored form): what from_brotli_blob accepts of as_brotli_blob's output is the index that was written, entry for
// entry, for every index whose lengths fit the 32-bit length field (the two real functions, seen through their contracts only)
pub fn thm_tile_index_brotli_roundtrip(idx: &TileIndex) -> (r: Option<TileIndex>)
	requires forall|i: int| 0 <= i < idx.index@.len() ==> (#[trigger] idx.index@[i]).length <= u32::MAX
	ensures r is Some ==> r.unwrap().index@ == idx.index@
{
	match idx.as_brotli_blob() {
		Ok(blob) => match TileIndex::from_brotli_blob(blob) {
			Ok(back) => {
				proof {
					lemma_records_len(idx.index@, idx.index@.len() as int);
					assert forall|i: int| 0 <= i < idx.index@.len() implies back.index@[i] == idx.index@[i] by { lemma_tile_index_roundtrip(idx.index@, i); }
					assert(back.index@ =~= idx.index@);
				}
				Some(back)
			}
			Err(_) => None,
		},
		Err(_) => None,
	}
}
} // verus!
fn main() {}
