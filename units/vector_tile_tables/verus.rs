// unit vector_tile_tables — versatiles_geometry vector_tile/property_manager.rs: the key/value tables of a vector tile
// layer (C11, C10, C19). The MVT specification addresses keys and values BY POSITION in the layer; `push` must therefore
// append exactly one entry per table record (duplicates included), `add` (used when encoding) may de-duplicate.
use vstd::prelude::*;
use std::collections::HashMap;
use std::hash::Hash;
use std::fmt::Debug;
use std::ops::Div;
use vstd::std_specs::hash::*;
verus! {
//@include common/prelude.vrs

//@include common/vt_tables.vrs


//@include common/vt_props.vrs
// positional fidelity over a whole table: n pushes produce exactly the n pushed entries, in order
pub proof fn lemma_push_sequence<T>(before: Seq<T>, pushed: Seq<T>, after: Seq<T>)
	requires after == before + pushed
	ensures after.len() == before.len() + pushed.len(), forall|i: int| 0 <= i < pushed.len() ==> after[before.len() + i] == pushed[i]
{ }
} // verus!
#[derive(Clone, PartialEq, Eq, Hash, Debug)] pub struct AbsStr { s: String }
#[derive(Clone, PartialEq, Eq, Hash, Debug)] pub struct GeoValue { v: u8 }
fn main() {}
