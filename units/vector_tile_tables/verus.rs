// unit vector_tile_tables — versatiles_geometry vector_tile/property_manager.rs: the key/value tables of a vector tile
// layer (C11, C10, C19). The MVT specification addresses keys and values BY POSITION in the layer; `push` must therefore
// append exactly one entry per table record (duplicates included), `add` (used when encoding) may de-duplicate.
use vstd::prelude::*;
use std::collections::HashMap;
use std::hash::Hash;
use std::fmt::Debug;
use std::ops::Div;
use vstd::std_specs::hash::*;
verus! {
//@include common/prelude.vrs

//@include common/vt_tables.vrs


// R6: std BTreeMap<String, GeoValue> -> finite map stand-in; the repo newtype GeoProperties and its methods are extracted
#[verifier::external_body]
#[verifier::reject_recursive_types(K)]
#[verifier::reject_recursive_types(V)]
pub struct BTreeMap<K, V> { k: std::marker::PhantomData<K>, v: std::marker::PhantomData<V> }
impl<K, V> BTreeMap<K, V> {
	pub uninterp spec fn view(&self) -> Map<K, V>;
	#[verifier::external_body]
	pub fn new() -> (r: Self) ensures r.view() == Map::<K, V>::empty() { unimplemented!() }
	#[verifier::external_body]
	pub fn insert(&mut self, key: K, value: V) -> (r: Option<V>) ensures final(self).view() == old(self).view().insert(key, value) { unimplemented!() }
}
//@extract struct file="versatiles_geometry/src/geo/properties.rs" name="GeoProperties"
//@rewrite "String" => "AbsStr"
//@end
impl GeoProperties {
//@extract fn file="versatiles_geometry/src/geo/properties.rs" scope="impl GeoProperties" name="new"
//@ret r
//@spec
		ensures r.0.view() == Map::<AbsStr, GeoValue>::empty()
//@end
//@extract fn file="versatiles_geometry/src/geo/properties.rs" scope="impl GeoProperties" name="insert"
//@rewrite "String" => "AbsStr"
//@spec
		ensures final(self).0.view() == old(self).0.view().insert(key, value)
//@end
}
// the property set a feature's tag ids denote (MVT 2.1 §4.4): pairs (key index, value index), later pairs override earlier ones
pub open spec fn tags_map(keys: Seq<AbsStr>, vals: Seq<GeoValue>, tags: Seq<u32>, n: int) -> Map<AbsStr, GeoValue> decreases n {
	if n <= 0 { Map::empty() } else { tags_map(keys, vals, tags, n - 1).insert(keys[tags[2 * (n - 1)] as int], vals[tags[2 * (n - 1) + 1] as int]) } }
impl PropertyManager {
//@extract fn file="versatiles_geometry/src/vector_tile/property_manager.rs" scope="impl PropertyManager" name="decode_tag_ids"
//@rewrite "tag_ids: &[u32]" => "tag_ids: &Vec<u32>" R6
//@rewrite "self.key.get(tag_key)?.to_owned()" => "clone_eq(self.key.get(tag_key)?)" R7
//@rewrite "self.val.get(tag_val)?.clone()" => "clone_eq(self.val.get(tag_val)?)" R7
//@ret r
//@spec
		// arbitrary tag ids (they come from the file): the denoted property set, or an error for an odd count / an index outside the tables (C19)
		ensures r is Ok ==> (tag_ids@.len() % 2 == 0 && forall|i: int| 0 <= i < tag_ids@.len() / 2 ==> (#[trigger] tag_ids@[2 * i]) < self.key.list@.len() && tag_ids@[2 * i + 1] < self.val.list@.len()),
			r is Ok ==> r.unwrap().0.view() == tags_map(self.key.list@, self.val.list@, tag_ids@, tag_ids@.len() as int / 2),
//@loop 1 iter=it
			invariant tag_ids@.len() % 2 == 0,
				properties.0.view() == tags_map(self.key.list@, self.val.list@, tag_ids@, it.index@ as int),
				forall|j: int| 0 <= j < it.index@ ==> (#[trigger] tag_ids@[2 * j]) < self.key.list@.len() && tag_ids@[2 * j + 1] < self.val.list@.len(),
//@end
}

// positional fidelity over a whole table: n pushes produce exactly the n pushed entries, in order
pub proof fn lemma_push_sequence<T>(before: Seq<T>, pushed: Seq<T>, after: Seq<T>)
	requires after == before + pushed
	ensures after.len() == before.len() + pushed.len(), forall|i: int| 0 <= i < pushed.len() ==> after[before.len() + i] == pushed[i]
{ }
} // verus!
#[derive(Clone, PartialEq, Eq, Hash, Debug)] pub struct AbsStr { s: String }
#[derive(Clone, PartialEq, Eq, Hash, Debug)] pub struct GeoValue { v: u8 }
fn main() {}
