// unit vector_tile_tables — versatiles_geometry vector_tile/property_manager.rs: the key/value tables of a vector tile
// layer (C11, C10, C19). The MVT specification addresses keys and values BY POSITION in the layer; `push` must therefore
// append exactly one entry per table record (duplicates included), `add` (used when encoding) may de-duplicate.
use vstd::prelude::*;
use std::collections::HashMap;
use std::hash::Hash;
use std::fmt::Debug;
use vstd::std_specs::hash::*;
verus! {
//@include common/prelude.vrs

// Option::ok_or_else(|| anyhow!(..)) on a reference / .copied(): helpers with the obvious contracts (R7)
pub fn opt_ok_or_ref<'a, T>(o: Option<&'a T>) -> (r: Result<&'a T, VErr>) ensures r is Ok <==> o is Some, r is Ok ==> r.unwrap() == o.unwrap() { match o { Some(v) => Ok(v), None => Err(verr()) } }
pub fn opt_ok_or_copied(o: Option<&u32>) -> (r: Result<u32, VErr>) ensures r is Ok <==> o is Some, r is Ok ==> r.unwrap() == *o.unwrap() { match o { Some(v) => Ok(*v), None => Err(verr()) } }

// trusted: T::clone returns an equal value (derive(Clone) / String::clone)
pub trait CloneEq: Clone + Sized { }
#[verifier::external_body]
pub fn clone_eq<T: Clone>(t: &T) -> (r: T) ensures r == *t { t.clone() }

//@extract struct file="versatiles_geometry/src/vector_tile/property_manager.rs" name="VTLPMap"
//@end

impl<T> VTLPMap<T>
where
	T: Clone + Eq + Hash,
{
	// representation invariant: the map sends every entry of the list to the position of its FIRST occurrence
	pub open spec fn inv(&self) -> bool {
		obeys_key_model::<T>()
		&& self.list@.len() <= u32::MAX
		&& (forall|k: T| #[trigger] self.map@.contains_key(k) ==> (self.map@[k] as int) < self.list@.len() && self.list@[self.map@[k] as int] == k
				&& forall|j: int| 0 <= j < self.map@[k] ==> self.list@[j] != k)
		&& (forall|i: int| 0 <= i < self.list@.len() ==> self.map@.contains_key(#[trigger] self.list@[i]))
	}

//@extract fn file="versatiles_geometry/src/vector_tile/property_manager.rs" scope="impl<T> VTLPMap<T> where T: Clone + Debug + Eq + Hash," name="add"
//@rewrite "entry.clone()" => "clone_eq(&entry)" R7
//@ret r
//@spec
		requires old(self).inv(), old(self).list@.len() < u32::MAX
		ensures final(self).inv(),
			// de-duplicating: an entry already in the table is found at its first position, the table is unchanged
			old(self).map@.contains_key(entry) ==> final(self).list@ == old(self).list@ && r == old(self).map@[entry],
			// otherwise it is appended
			!old(self).map@.contains_key(entry) ==> final(self).list@ == old(self).list@.push(entry) && r == old(self).list@.len(),
			(r as int) < final(self).list@.len() && final(self).list@[r as int] == entry,
//@end
//@extract fn file="versatiles_geometry/src/vector_tile/property_manager.rs" scope="impl<T> VTLPMap<T> where T: Clone + Debug + Eq + Hash," name="push"
//@rewrite "entry.clone()" => "clone_eq(&entry)" R7
//@ret r
//@spec
		requires old(self).inv(), old(self).list@.len() < u32::MAX
		// positional fidelity (MVT spec 4.4): every call appends exactly one entry at the end and returns its position
		ensures final(self).inv(), final(self).list@ == old(self).list@.push(entry), r == old(self).list@.len(),
//@end
//@extract fn file="versatiles_geometry/src/vector_tile/property_manager.rs" scope="impl<T> VTLPMap<T> where T: Clone + Debug + Eq + Hash," name="find"
//@rewrite "self .map .get(entry) .ok_or_else(|| verr()) .copied()" => "opt_ok_or_copied(self.map.get(entry))" R7
//@ret r
//@spec
		requires self.inv()
		ensures r is Ok <==> self.map@.contains_key(*entry),
			r is Ok ==> (r.unwrap() as int) < self.list@.len() && self.list@[r.unwrap() as int] == *entry,
//@end
//@extract fn file="versatiles_geometry/src/vector_tile/property_manager.rs" scope="impl<T> VTLPMap<T> where T: Clone + Debug + Eq + Hash," name="get"
//@rewrite "self .list .get(id as usize) .ok_or_else(|| verr())" => "opt_ok_or_ref(vec_get(&self.list, id as usize))" R7
//@ret r
//@spec
		// arbitrary id (tag ids come from the file): Ok or Err, never out of bounds (C19)
		ensures r is Ok <==> (id as int) < self.list@.len(), r is Ok ==> *r.unwrap() == self.list@[id as int],
//@end
}
// R6: String keys and GeoValue values -> opaque hashable types (std String; repo enum GeoValue with derived Eq/Hash)
#[verifier::external_type_specification] #[verifier::external_body] pub struct ExAbsStr(AbsStr);
#[verifier::external_type_specification] #[verifier::external_body] pub struct ExGeoValue(GeoValue);
//@extract struct file="versatiles_geometry/src/vector_tile/property_manager.rs" name="PropertyManager"
//@rewrite "String" => "AbsStr"
//@end
impl PropertyManager {
	pub open spec fn inv(&self) -> bool { self.key.inv() && self.val.inv() }
//@extract fn file="versatiles_geometry/src/vector_tile/property_manager.rs" scope="impl PropertyManager" name="add_key"
//@rewrite "String" => "AbsStr"
//@ret r
//@spec
		requires old(self).inv(), old(self).key.list@.len() < u32::MAX
		ensures final(self).inv(), final(self).val == old(self).val, (r as int) < final(self).key.list@.len() && final(self).key.list@[r as int] == key,
			old(self).key.list@.len() <= final(self).key.list@.len(), forall|i: int| 0 <= i < old(self).key.list@.len() ==> final(self).key.list@[i] == old(self).key.list@[i],
//@end
//@extract fn file="versatiles_geometry/src/vector_tile/property_manager.rs" scope="impl PropertyManager" name="add_val"
//@ret r
//@spec
		requires old(self).inv(), old(self).val.list@.len() < u32::MAX
		ensures final(self).inv(), final(self).key == old(self).key, (r as int) < final(self).val.list@.len() && final(self).val.list@[r as int] == value,
			old(self).val.list@.len() <= final(self).val.list@.len(), forall|i: int| 0 <= i < old(self).val.list@.len() ==> final(self).val.list@[i] == old(self).val.list@[i],
//@end
//@extract fn file="versatiles_geometry/src/vector_tile/property_manager.rs" scope="impl PropertyManager" name="push_key"
//@rewrite "String" => "AbsStr"
//@ret r
//@spec
		requires old(self).inv(), old(self).key.list@.len() < u32::MAX
		ensures final(self).inv(), final(self).val == old(self).val, final(self).key.list@ == old(self).key.list@.push(key), r == old(self).key.list@.len(),
//@end
//@extract fn file="versatiles_geometry/src/vector_tile/property_manager.rs" scope="impl PropertyManager" name="push_val"
//@ret r
//@spec
		requires old(self).inv(), old(self).val.list@.len() < u32::MAX
		ensures final(self).inv(), final(self).key == old(self).key, final(self).val.list@ == old(self).val.list@.push(value), r == old(self).val.list@.len(),
//@end
}
// Vec::get / slice::get(usize)
pub fn vec_get<T>(v: &Vec<T>, i: usize) -> (r: Option<&T>) ensures r is Some <==> i < v@.len(), r is Some ==> *r.unwrap() == v@[i as int] { if i < v.len() { Some(&v[i]) } else { None } }

// positional fidelity over a whole table: n pushes produce exactly the n pushed entries, in order
pub proof fn lemma_push_sequence<T>(before: Seq<T>, pushed: Seq<T>, after: Seq<T>)
	requires after == before + pushed
	ensures after.len() == before.len() + pushed.len(), forall|i: int| 0 <= i < pushed.len() ==> after[before.len() + i] == pushed[i]
{ }
} // verus!
#[derive(Clone, PartialEq, Eq, Hash, Debug)] pub struct AbsStr { s: String }
#[derive(Clone, PartialEq, Eq, Hash, Debug)] pub struct GeoValue { v: u8 }
fn main() {}
