// unit tile_bbox — TileBBox / TileCoord / TransformCoord against the sets they denote (C15; used by C01 C02 C03 C06 C09)
// Everything between //@extract and //@end is replaced on every run by the item's text from /repo.
use vstd::prelude::*;
use std::mem::swap;
use std::ops::{Div, Rem};
verus! {
global size_of usize == 8;

#[derive(Debug)]
pub struct VErr {}
#[verifier::external_body]
pub fn verr() -> VErr { VErr{} }
pub fn vassert(c: bool) requires c {}
#[verifier::external_body]
pub fn vpanic<A>() -> A requires false { unimplemented!() }

pub open spec fn spec_min(a: int, b: int) -> int { if a <= b { a } else { b } }
pub open spec fn spec_max(a: int, b: int) -> int { if a >= b { a } else { b } }
pub open spec fn pow2(l: nat) -> nat decreases l { if l == 0 { 1 } else { 2 * pow2((l - 1) as nat) } }
pub proof fn lemma_pow2_mono(a: nat, b: nat) requires a <= b ensures pow2(a) <= pow2(b) decreases b
{ if a < b { lemma_pow2_mono(a, (b - 1) as nat); } }
pub proof fn lemma_pow2_bound(l: nat) requires l <= 31 ensures 1 <= pow2(l) <= 0x8000_0000
{ lemma_pow2_mono(0, l); lemma_pow2_mono(l, 31); assert(pow2(31) == 0x8000_0000) by (compute); assert(pow2(0) == 1) by (compute); }
pub proof fn lemma_pow2_bound63(l: nat) requires l <= 63 ensures 1 <= pow2(l) <= 0x8000_0000_0000_0000
{ lemma_pow2_mono(0, l); lemma_pow2_mono(l, 63); assert(pow2(63) == 0x8000_0000_0000_0000) by (compute); assert(pow2(0) == 1) by (compute); }
// trusted: std integer power (2^e for the exponents the code uses)
pub assume_specification [u32::pow] (b: u32, e: u32) -> (r: u32)
   requires b == 2, e <= 31
   ensures r as nat == pow2(e as nat);
pub assume_specification [u64::pow] (b: u64, e: u32) -> (r: u64)
   requires b == 2, e <= 63
   ensures r as nat == pow2(e as nat);

//@extract struct file="versatiles_core/src/types/tile_coords.rs" name="TileCoord2"
//@end
#[derive(Clone, Copy)]
//@extract struct file="versatiles_core/src/types/tile_coords.rs" name="TileCoord3"
//@end
//@extract struct file="versatiles_core/src/types/tile_bbox.rs" name="TileBBox"
//@end
// trusted: #[derive(Clone)] is field-wise
impl Clone for TileBBox { fn clone(&self) -> (r: Self) ensures r == *self { TileBBox { level: self.level, x_min: self.x_min, y_min: self.y_min, x_max: self.x_max, y_max: self.y_max, max: self.max } } }

impl TileCoord2 {
//@extract fn file="versatiles_core/src/types/tile_coords.rs" scope="impl TileCoord2" name="new"
//@ret r
//@spec
		ensures r.x == x, r.y == y
//@end
}

impl TileCoord3 {
	pub open spec fn valid(&self) -> bool { self.z <= 31 && self.x < pow2(self.z as nat) && self.y < pow2(self.z as nat) }
	pub open spec fn flipped(&self) -> TileCoord3 { TileCoord3 { x: self.x, y: (pow2(self.z as nat) - 1 - self.y) as u32, z: self.z } }
	pub open spec fn swapped(&self) -> TileCoord3 { TileCoord3 { x: self.y, y: self.x, z: self.z } }

//@extract fn file="versatiles_core/src/types/tile_coords.rs" scope="impl TileCoord3" name="new"
//@ret r
//@spec
		ensures r is Ok <==> z <= 31, r is Ok ==> r.unwrap() == (TileCoord3 { x, y, z })
//@end
//@extract fn file="versatiles_core/src/types/tile_coords.rs" scope="impl TileCoord3" name="as_coord2"
//@ret r
//@spec
		ensures r.x == self.x, r.y == self.y
//@end
//@extract fn file="versatiles_core/src/types/tile_coords.rs" scope="impl TileCoord3" name="is_valid"
//@ret r
//@spec
		ensures r == (self.z <= 30 && self.x < pow2(self.z as nat) && self.y < pow2(self.z as nat))
//@at "let max ="
		proof { lemma_pow2_bound(self.z as nat); }
//@end
//@extract fn file="versatiles_core/src/types/tile_coords.rs" scope="impl TileCoord3" name="get_sort_index"
//@ret r
//@spec
		requires self.z <= 31, self.x < pow2(self.z as nat), self.y < pow2(self.z as nat)
		ensures r as int == (pow2(self.z as nat) * pow2(self.z as nat) - 1) / 3 + pow2(self.z as nat) * self.y + self.x
//@at "let size ="
		proof { lemma_pow2_bound(self.z as nat); }
//@at "let offset ="
		proof {
			assert(size * size <= 0x8000_0000 * 0x8000_0000) by (nonlinear_arith) requires 1 <= size <= 0x8000_0000;
			assert(size * size >= 1) by (nonlinear_arith) requires 1 <= size;
			assert(size * (self.y as u64) <= 0x8000_0000 * 0x8000_0000) by (nonlinear_arith)
				requires 1 <= size <= 0x8000_0000, 0 <= self.y < 0x8000_0000; }
//@end

	// ---- TransformCoord for TileCoord3
//@extract fn file="versatiles_core/src/utils/transform_coord.rs" scope="impl TransformCoord for TileCoord3" name="flip_y"
//@spec
		requires old(self).valid()
		ensures *final(self) == old(self).flipped(), final(self).valid()
//@at "let max_index ="
		proof { lemma_pow2_bound(self.z as nat); }
//@end
//@extract fn file="versatiles_core/src/utils/transform_coord.rs" scope="impl TransformCoord for TileCoord3" name="swap_xy"
//@spec
		ensures *final(self) == old(self).swapped()
//@end
}

// involutions on points
pub proof fn lemma_coord_involutions(c: TileCoord3)
	requires c.valid()
	ensures c.flipped().valid(), c.flipped().flipped() == c, c.swapped().swapped() == c, c.swapped().valid()
{ lemma_pow2_bound(c.z as nat); }

impl TileBBox {
	// ---------- abstraction: the denoted set of tiles
	pub open spec fn has(&self, x: int, y: int) -> bool {
		self.x_min <= x <= self.x_max && self.y_min <= y <= self.y_max
	}
	pub open spec fn empty(&self) -> bool { forall|x: int, y: int| !self.has(x, y) }
	pub open spec fn wf(&self) -> bool {
		self.level <= 31 && self.max as nat == pow2(self.level as nat) - 1
		&& self.x_max <= self.max && self.y_max <= self.max
	}
	pub open spec fn w(&self) -> int { if self.x_max < self.x_min { 0 } else { self.x_max - self.x_min + 1 } }
	pub open spec fn h(&self) -> int { if self.y_max < self.y_min { 0 } else { self.y_max - self.y_min + 1 } }
	pub open spec fn same_frame(&self, o: &TileBBox) -> bool { self.level == o.level && self.max == o.max }
	pub proof fn lemma_empty(&self)
		ensures self.empty() <==> (self.x_max < self.x_min || self.y_max < self.y_min)
	{ if !(self.x_max < self.x_min || self.y_max < self.y_min) { assert(self.has(self.x_min as int, self.y_min as int)); } }

//@extract fn file="versatiles_core/src/types/tile_bbox.rs" scope="impl TileBBox" name="new"
//@ret r
//@spec
		ensures
			r is Ok <==> (level <= 31 && x_max < pow2(level as nat) && y_max < pow2(level as nat) && x_min <= x_max && y_min <= y_max),
			r is Ok ==> r.unwrap().wf() && r.unwrap().level == level && !r.unwrap().empty()
				&& forall|x: int, y: int| r.unwrap().has(x, y) <==> (x_min <= x <= x_max && y_min <= y <= y_max),
//@at "let max ="
		proof { lemma_pow2_bound(level as nat); }
//@at "Ok(bbox)"
		proof { assert(bbox.has(x_min as int, y_min as int)); }
//@end
//@extract fn file="versatiles_core/src/types/tile_bbox.rs" scope="impl TileBBox" name="new_full"
//@ret r
//@spec
		ensures r is Ok <==> level <= 31,
			r is Ok ==> r.unwrap().wf() && r.unwrap().level == level
				&& forall|x: int, y: int| r.unwrap().has(x, y) <==> (0 <= x < pow2(level as nat) && 0 <= y < pow2(level as nat)),
//@at "let max ="
		proof { lemma_pow2_bound(level as nat); }
//@end
//@extract fn file="versatiles_core/src/types/tile_bbox.rs" scope="impl TileBBox" name="new_empty"
//@ret r
//@spec
		ensures r is Ok <==> level <= 31, r is Ok ==> r.unwrap().wf() && r.unwrap().level == level && r.unwrap().empty()
//@at "let max ="
		proof { lemma_pow2_bound(level as nat); }
//@end
//@extract fn file="versatiles_core/src/types/tile_bbox.rs" scope="impl TileBBox" name="is_empty"
//@ret r
//@spec
		ensures r == self.empty()
//@at "(self.x_max < self.x_min)"
		proof { self.lemma_empty(); }
//@end
//@extract fn file="versatiles_core/src/types/tile_bbox.rs" scope="impl TileBBox" name="width"
//@ret r
//@spec
		requires self.wf()
		ensures r == self.w()
//@at "if self.x_max"
		proof { lemma_pow2_bound(self.level as nat); }
//@end
//@extract fn file="versatiles_core/src/types/tile_bbox.rs" scope="impl TileBBox" name="height"
//@ret r
//@spec
		requires self.wf()
		ensures r == self.h()
//@at "if self.y_max"
		proof { lemma_pow2_bound(self.level as nat); }
//@end
//@extract fn file="versatiles_core/src/types/tile_bbox.rs" scope="impl TileBBox" name="count_tiles"
//@ret r
//@spec
		requires self.wf()
		ensures r == self.w() * self.h()
//@at "(self.width() as u64)"
		proof { lemma_pow2_bound(self.level as nat);
			assert(self.w() * self.h() <= 0x8000_0000 * 0x8000_0000) by (nonlinear_arith)
				requires 0 <= self.w() <= 0x8000_0000, 0 <= self.h() <= 0x8000_0000; }
//@end
//@extract fn file="versatiles_core/src/types/tile_bbox.rs" scope="impl TileBBox" name="contains2"
//@ret r
//@spec
		ensures r == self.has(coord.x as int, coord.y as int)
//@end
//@extract fn file="versatiles_core/src/types/tile_bbox.rs" scope="impl TileBBox" name="contains3"
//@ret r
//@spec
		ensures r == (coord.z == self.level && self.has(coord.x as int, coord.y as int))
//@end
//@extract fn file="versatiles_core/src/types/tile_bbox.rs" scope="impl TileBBox" name="set_empty"
//@spec
		ensures final(self).empty(), final(self).same_frame(old(self)),
			old(self).wf() ==> final(self).wf()
//@end
//@extract fn file="versatiles_core/src/types/tile_bbox.rs" scope="impl TileBBox" name="include_coord"
//@spec
		requires old(self).wf()
		ensures final(self).same_frame(old(self)),
			// for a coordinate of this level: the smallest box containing the old set and (x, y)
			(x <= old(self).max && y <= old(self).max) ==> (final(self).wf()
				&& (forall|a: int, b: int| final(self).has(a, b) <==> (
					if old(self).empty() { a == x && b == y } else {
						spec_min(old(self).x_min as int, x as int) <= a <= spec_max(old(self).x_max as int, x as int)
						&& spec_min(old(self).y_min as int, y as int) <= b <= spec_max(old(self).y_max as int, y as int) }))),
//@at "if self.is_empty()"
		proof { self.lemma_empty(); }
//@end
//@extract fn file="versatiles_core/src/types/tile_bbox.rs" scope="impl TileBBox" name="include_coord3"
//@ret res
//@spec
		requires old(self).wf()
		ensures final(self).same_frame(old(self)),
			res is Ok <==> coord.z == old(self).level,
			res is Err ==> *final(self) == *old(self),
			(res is Ok && coord.x <= old(self).max && coord.y <= old(self).max) ==> (final(self).wf()
				&& (forall|a: int, b: int| final(self).has(a, b) <==> (
					if old(self).empty() { a == coord.x && b == coord.y } else {
						spec_min(old(self).x_min as int, coord.x as int) <= a <= spec_max(old(self).x_max as int, coord.x as int)
						&& spec_min(old(self).y_min as int, coord.y as int) <= b <= spec_max(old(self).y_max as int, coord.y as int) }))),
//@end
//@extract fn file="versatiles_core/src/types/tile_bbox.rs" scope="impl TileBBox" name="add_border"
//@spec
		requires old(self).wf()
		ensures final(self).wf(), final(self).same_frame(old(self)),
			forall|a: int, b: int| final(self).has(a, b) <==> (!old(self).empty()
				&& old(self).x_min - x_min <= a <= old(self).x_max + x_max && 0 <= a <= old(self).max
				&& old(self).y_min - y_min <= b <= old(self).y_max + y_max && 0 <= b <= old(self).max),
//@at "if !self.is_empty()"
		proof { self.lemma_empty(); }
//@end
//@extract fn file="versatiles_core/src/types/tile_bbox.rs" scope="impl TileBBox" name="include_bbox"
//@ret res
//@spec
		requires old(self).wf(), bbox.wf()
		ensures final(self).same_frame(old(self)),
			res is Ok <==> old(self).level == bbox.level,
			res is Err ==> *final(self) == *old(self),
			res is Ok ==> final(self).wf() && (forall|a: int, b: int| final(self).has(a, b) <==> (
				if bbox.empty() { old(self).has(a, b) } else if old(self).empty() { bbox.has(a, b) } else {
					spec_min(old(self).x_min as int, bbox.x_min as int) <= a <= spec_max(old(self).x_max as int, bbox.x_max as int)
					&& spec_min(old(self).y_min as int, bbox.y_min as int) <= b <= spec_max(old(self).y_max as int, bbox.y_max as int) })),
//@at "if !bbox.is_empty()"
		proof { self.lemma_empty(); bbox.lemma_empty(); lemma_pow2_bound(self.level as nat); }
//@end
//@extract fn file="versatiles_core/src/types/tile_bbox.rs" scope="impl TileBBox" name="intersect_bbox"
//@ret res
//@spec
		ensures
			res is Ok <==> old(self).level == bbox.level,
			res is Err ==> *final(self) == *old(self),
			res is Ok ==> forall|x: int, y: int| final(self).has(x, y) == (old(self).has(x, y) && bbox.has(x, y)),
			final(self).same_frame(old(self)),
			res is Ok && old(self).wf() ==> final(self).wf(),
//@end
//@extract fn file="versatiles_core/src/types/tile_bbox.rs" scope="impl TileBBox" name="overlaps_bbox"
//@ret res
//@spec
		ensures
			res is Ok <==> self.level == bbox.level,
			res is Ok ==> (res.unwrap() <==> exists|x: int, y: int| self.has(x, y) && bbox.has(x, y)),
//@at "if self.is_empty() || bbox.is_empty()"
		proof { self.lemma_empty(); bbox.lemma_empty();
			let wx = spec_max(self.x_min as int, bbox.x_min as int); let wy = spec_max(self.y_min as int, bbox.y_min as int);
			if !self.empty() && !bbox.empty() && self.x_min <= bbox.x_max && self.x_max >= bbox.x_min && self.y_min <= bbox.y_max && self.y_max >= bbox.y_min {
				assert(self.has(wx, wy) && bbox.has(wx, wy));
			} }
//@end
//@extract fn file="versatiles_core/src/types/tile_bbox.rs" scope="impl TileBBox" name="shift_by"
//@spec
		ensures final(self).same_frame(old(self)),
			final(self).x_min == spec_min(old(self).x_min + x, u32::MAX as int), final(self).x_max == spec_min(old(self).x_max + x, u32::MAX as int),
			final(self).y_min == spec_min(old(self).y_min + y, u32::MAX as int), final(self).y_max == spec_min(old(self).y_max + y, u32::MAX as int),
//@end
//@extract fn file="versatiles_core/src/types/tile_bbox.rs" scope="impl TileBBox" name="subtract_coord2"
//@spec
		ensures final(self).same_frame(old(self)),
			final(self).x_min == spec_max(old(self).x_min - c.x, 0), final(self).x_max == spec_max(old(self).x_max - c.x, 0),
			final(self).y_min == spec_max(old(self).y_min - c.y, 0), final(self).y_max == spec_max(old(self).y_max - c.y, 0),
//@end
//@extract fn file="versatiles_core/src/types/tile_bbox.rs" scope="impl TileBBox" name="subtract"
//@spec
		ensures final(self).same_frame(old(self)),
			final(self).x_min == spec_max(old(self).x_min - x, 0), final(self).x_max == spec_max(old(self).x_max - x, 0),
			final(self).y_min == spec_max(old(self).y_min - y, 0), final(self).y_max == spec_max(old(self).y_max - y, 0),
//@end
//@extract fn file="versatiles_core/src/types/tile_bbox.rs" scope="impl TileBBox" name="scale_down"
//@spec
		requires scale > 0
		ensures final(self).same_frame(old(self)),
			final(self).x_min == old(self).x_min / scale, final(self).x_max == old(self).x_max / scale,
			final(self).y_min == old(self).y_min / scale, final(self).y_max == old(self).y_max / scale,
			// a non-empty box scales to the image of its set under integer division
			!old(self).empty() ==> forall|x: int, y: int| #![trigger final(self).has(x / (scale as int), y / (scale as int))]
				old(self).has(x, y) ==> final(self).has(x / (scale as int), y / (scale as int)),
//@at "self.x_min /= scale"
		proof { self.lemma_empty();
			assert forall|x: int, y: int| old(self).has(x, y) implies
				(old(self).x_min as int) / (scale as int) <= #[trigger] (x / (scale as int)) <= (old(self).x_max as int) / (scale as int)
				&& (old(self).y_min as int) / (scale as int) <= #[trigger] (y / (scale as int)) <= (old(self).y_max as int) / (scale as int) by {
				lemma_div_mono(old(self).x_min as int, x, scale as int); lemma_div_mono(x, old(self).x_max as int, scale as int);
				lemma_div_mono(old(self).y_min as int, y, scale as int); lemma_div_mono(y, old(self).y_max as int, scale as int);
			} }
//@end
//@extract fn file="versatiles_core/src/types/tile_bbox.rs" scope="impl TileBBox" name="get_tile_index2"
//@ret r
//@spec
		requires self.wf()
		ensures r is Ok <==> self.has(coord.x as int, coord.y as int),
			r is Ok ==> r.unwrap() as int == (coord.y - self.y_min) * self.w() + (coord.x - self.x_min),
//@at "let x ="
		proof { lemma_pow2_bound(self.level as nat); self.lemma_index_bound(coord.x as int, coord.y as int);
			assert(self.w() * self.h() <= 0x8000_0000 * 0x8000_0000) by (nonlinear_arith)
				requires 0 <= self.w() <= 0x8000_0000, 0 <= self.h() <= 0x8000_0000; }
//@end
//@extract fn file="versatiles_core/src/types/tile_bbox.rs" scope="impl TileBBox" name="get_tile_index3"
//@ret r
//@spec
		requires self.wf()
		ensures r is Ok <==> (coord.z == self.level && self.has(coord.x as int, coord.y as int)),
			r is Ok ==> r.unwrap() as int == (coord.y - self.y_min) * self.w() + (coord.x - self.x_min),
//@at "let x ="
		proof { lemma_pow2_bound(self.level as nat); self.lemma_index_bound(coord.x as int, coord.y as int);
			assert(self.w() * self.h() <= 0x8000_0000 * 0x8000_0000) by (nonlinear_arith)
				requires 0 <= self.w() <= 0x8000_0000, 0 <= self.h() <= 0x8000_0000; }
//@end
//@extract fn file="versatiles_core/src/types/tile_bbox.rs" scope="impl TileBBox" name="get_coord2_by_index"
//@ret r
//@spec
		requires self.wf()
		ensures r is Ok <==> (index as int) < self.w() * self.h(),
			r is Ok ==> self.has(r.unwrap().x as int, r.unwrap().y as int)
				&& (r.unwrap().y - self.y_min) * self.w() + (r.unwrap().x - self.x_min) == index,
//@at "let width ="
		proof { lemma_pow2_bound(self.level as nat); self.lemma_coord_of_index(index as int); }
//@end
//@extract fn file="versatiles_core/src/types/tile_bbox.rs" scope="impl TileBBox" name="get_coord3_by_index"
//@ret r
//@spec
		requires self.wf()
		ensures r is Ok <==> (index as int) < self.w() * self.h(),
			r is Ok ==> self.has(r.unwrap().x as int, r.unwrap().y as int) && r.unwrap().z == self.level
				&& (r.unwrap().y - self.y_min) * self.w() + (r.unwrap().x - self.x_min) == index,
//@at "let width ="
		proof { lemma_pow2_bound(self.level as nat); self.lemma_coord_of_index(index as int); }
//@end

	pub proof fn lemma_index_bound(&self, x: int, y: int)
		requires self.has(x, y)
		ensures 0 <= (y - self.y_min) * self.w() <= (y - self.y_min) * self.w() + (x - self.x_min) < self.w() * self.h()
	{
		assert((y - self.y_min) * self.w() + (x - self.x_min) < self.w() * self.h()) by (nonlinear_arith)
			requires 0 <= y - self.y_min < self.h(), 0 <= x - self.x_min < self.w();
		assert(0 <= (y - self.y_min) * self.w()) by (nonlinear_arith) requires 0 <= y - self.y_min, 0 <= self.w();
	}
	pub proof fn lemma_coord_of_index(&self, i: int)
		requires 0 <= i < self.w() * self.h()
		ensures self.w() > 0, self.has(self.x_min + i % self.w(), self.y_min + i / self.w()),
			(i / self.w()) * self.w() + i % self.w() == i
	{
		let w = self.w(); let h = self.h();
		assert(w > 0) by (nonlinear_arith) requires 0 <= i < w * h, w >= 0, h >= 0;
		assert(0 <= i % w < w && i == w * (i / w) + i % w) by (nonlinear_arith) requires w > 0;
		assert(0 <= i / w < h) by (nonlinear_arith) requires 0 <= i < w * h, w > 0, i == w * (i / w) + i % w, 0 <= i % w < w;
		assert((i / w) * w == w * (i / w)) by (nonlinear_arith);
	}

	// ---- TransformCoord for TileBBox
//@extract fn file="versatiles_core/src/utils/transform_coord.rs" scope="impl TransformCoord for TileBBox" name="flip_y"
//@spec
		requires old(self).wf()
		ensures final(self).wf(), final(self).same_frame(old(self)),
			forall|x: int, y: int| final(self).has(x, y) <==> old(self).has(x, old(self).max - y),
//@at "if !self.is_empty()"
		proof { self.lemma_empty(); }
//@end
//@extract fn file="versatiles_core/src/utils/transform_coord.rs" scope="impl TransformCoord for TileBBox" name="swap_xy"
//@spec
		requires old(self).wf()
		ensures final(self).wf(), final(self).same_frame(old(self)),
			forall|x: int, y: int| final(self).has(x, y) <==> old(self).has(y, x),
//@at "if !self.is_empty()"
		proof { self.lemma_empty(); }
//@end
}

pub proof fn lemma_div_mono(a: int, b: int, d: int)
	requires a <= b, d > 0
	ensures a / d <= b / d
{ vstd::arithmetic::div_mod::lemma_div_is_ordered(a, b, d); }

// ---- property-level lemmas over the contracts above -------------------------------------------

// index <-> coordinate conversion are mutually inverse (C15), row-major
pub proof fn lemma_index_coord_inverse(b: TileBBox, i: int)
	requires b.wf(), 0 <= i < b.w() * b.h()
	ensures ({ let x = b.x_min + i % b.w(); let y = b.y_min + i / b.w();
		b.has(x, y) && (y - b.y_min) * b.w() + (x - b.x_min) == i })
{ b.lemma_coord_of_index(i); }

pub proof fn lemma_coord_index_inverse(b: TileBBox, x: int, y: int)
	requires b.wf(), b.has(x, y)
	ensures ({ let i = (y - b.y_min) * b.w() + (x - b.x_min);
		0 <= i < b.w() * b.h() && b.x_min + i % b.w() == x && b.y_min + i / b.w() == y })
{
	b.lemma_index_bound(x, y);
	let w = b.w(); let i = (y - b.y_min) * w + (x - b.x_min);
	vstd::arithmetic::div_mod::lemma_fundamental_div_mod_converse(i, w, y - b.y_min, x - b.x_min);
}

// y-flip and x/y swap of a box are involutions on the denoted set and commute with the point maps
pub proof fn lemma_flip_involution(b: TileBBox, f1: TileBBox, f2: TileBBox)
	requires b.wf(), f1.same_frame(&b), f2.same_frame(&b),
		forall|x: int, y: int| f1.has(x, y) <==> b.has(x, b.max - y),
		forall|x: int, y: int| f2.has(x, y) <==> f1.has(x, f1.max - y),
	ensures forall|x: int, y: int| f2.has(x, y) <==> b.has(x, y)
{
	assert forall|x: int, y: int| f2.has(x, y) <==> b.has(x, y) by { assert(b.max - (b.max - y) == y); }
}

// vacuity guards: the preconditions used above are satisfiable
pub proof fn witness_wf_nonempty() ensures exists|b: TileBBox| b.wf() && !b.empty()
{
	let b = TileBBox { level: 1, x_min: 0, y_min: 0, x_max: 1, y_max: 1, max: 1 };
	assert(pow2(1) == 2) by (compute);
	assert(b.has(0, 0));
	assert(b.wf() && !b.empty());
}
pub proof fn witness_wf_empty() ensures exists|b: TileBBox| b.wf() && b.empty()
{
	let b = TileBBox { level: 0, x_min: 1, y_min: 1, x_max: 0, y_max: 0, max: 0 };
	assert(pow2(0) == 1) by (compute);
	assert(b.wf() && b.empty());
}

} // verus!
fn main() {}
