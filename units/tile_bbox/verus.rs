// unit tile_bbox — TileBBox / TileCoord / TransformCoord against the sets they denote (C15; used by C01 C02 C03 C06 C09)
// Everything between //@extract and //@end is replaced on every run by the item's text from /repo.
use vstd::prelude::*;
use std::mem::swap;
use std::ops::{Div, Rem};
verus! {
//@include common/prelude.vrs
//@include common/tile_bbox.vrs

// vacuity guards: the preconditions used above are satisfiable
pub proof fn witness_wf_nonempty() ensures exists|b: TileBBox| b.wf() && !b.empty()
{
	let b = TileBBox { level: 1, x_min: 0, y_min: 0, x_max: 1, y_max: 1, max: 1 };
	assert(pow2(1) == 2) by (compute);
	assert(b.has(0, 0));
	assert(b.wf() && !b.empty());
}
pub proof fn witness_wf_empty() ensures exists|b: TileBBox| b.wf() && b.empty()
{
	let b = TileBBox { level: 0, x_min: 1, y_min: 1, x_max: 0, y_max: 0, max: 0 };
	assert(pow2(0) == 1) by (compute);
	assert(b.wf() && b.empty());
}

} // verus!
fn main() {}
