// unit tile_bbox (Kani twins) — the same contracts as the Verus unit, as harness-level contracts on the same extracted
// text: loop-free code over full-domain symbolic inputs, so each harness is a complete proof. Their job is to supply
// concrete counterexamples (replayed natively) when a Verus obligation fails, and to arbitrate stale proofs (DESIGN §2.4).
#![allow(dead_code, unused_imports, unused_variables, unused_mut)]
use std::mem::swap;
use std::ops::{Div, Rem};

#[derive(Debug, Clone, Copy, PartialEq, Eq)]
pub struct VErr;
pub fn verr() -> VErr { VErr }
pub fn vassert(c: bool) { assert!(c); }
pub fn vpanic<A>() -> A { panic!() }
// trusted: 2^e (std integer pow; CBMC would unroll the square-and-multiply loop)
pub fn pow2u32(e: u32) -> u32 { 1u32 << e }
pub fn pow2u64(e: u32) -> u64 { 1u64 << e }
//@rewrite "2u32.pow(level as u32)" => "pow2u32(level as u32)" R7
//@rewrite "2u32.pow(self.z as u32)" => "pow2u32(self.z as u32)" R7
//@rewrite "2u64.pow(self.z as u32)" => "pow2u64(self.z as u32)" R7

#[derive(Clone, PartialEq, Eq, Debug)]
#[cfg_attr(kani, derive(kani::Arbitrary))]
//@extract struct file="versatiles_core/src/types/tile_coords.rs" name="TileCoord2"
//@end
#[derive(Clone, Copy, PartialEq, Eq, Debug)]
#[cfg_attr(kani, derive(kani::Arbitrary))]
//@extract struct file="versatiles_core/src/types/tile_coords.rs" name="TileCoord3"
//@end
#[derive(Clone, PartialEq, Eq, Debug)]
#[cfg_attr(kani, derive(kani::Arbitrary))]
//@extract struct file="versatiles_core/src/types/tile_bbox.rs" name="TileBBox"
//@end
impl TileCoord2 {
//@extract fn file="versatiles_core/src/types/tile_coords.rs" scope="impl TileCoord2" name="new"
//@end
}
impl TileCoord3 {
//@extract fn file="versatiles_core/src/types/tile_coords.rs" scope="impl TileCoord3" name="new"
//@end
//@extract fn file="versatiles_core/src/types/tile_coords.rs" scope="impl TileCoord3" name="is_valid"
//@end
//@extract fn file="versatiles_core/src/types/tile_coords.rs" scope="impl TileCoord3" name="get_sort_index"
//@end
//@extract fn file="versatiles_core/src/utils/transform_coord.rs" scope="impl TransformCoord for TileCoord3" name="flip_y"
//@end
//@extract fn file="versatiles_core/src/utils/transform_coord.rs" scope="impl TransformCoord for TileCoord3" name="swap_xy"
//@end
}
impl TileBBox {
//@extract fn file="versatiles_core/src/types/tile_bbox.rs" scope="impl TileBBox" name="new"
//@end
//@extract fn file="versatiles_core/src/types/tile_bbox.rs" scope="impl TileBBox" name="new_full"
//@end
//@extract fn file="versatiles_core/src/types/tile_bbox.rs" scope="impl TileBBox" name="new_empty"
//@end
//@extract fn file="versatiles_core/src/types/tile_bbox.rs" scope="impl TileBBox" name="is_empty"
//@end
//@extract fn file="versatiles_core/src/types/tile_bbox.rs" scope="impl TileBBox" name="width"
//@end
//@extract fn file="versatiles_core/src/types/tile_bbox.rs" scope="impl TileBBox" name="height"
//@end
//@extract fn file="versatiles_core/src/types/tile_bbox.rs" scope="impl TileBBox" name="count_tiles"
//@end
//@extract fn file="versatiles_core/src/types/tile_bbox.rs" scope="impl TileBBox" name="contains2"
//@end
//@extract fn file="versatiles_core/src/types/tile_bbox.rs" scope="impl TileBBox" name="contains3"
//@end
//@extract fn file="versatiles_core/src/types/tile_bbox.rs" scope="impl TileBBox" name="set_empty"
//@end
//@extract fn file="versatiles_core/src/types/tile_bbox.rs" scope="impl TileBBox" name="include_coord"
//@end
//@extract fn file="versatiles_core/src/types/tile_bbox.rs" scope="impl TileBBox" name="include_coord3"
//@end
//@extract fn file="versatiles_core/src/types/tile_bbox.rs" scope="impl TileBBox" name="add_border"
//@end
//@extract fn file="versatiles_core/src/types/tile_bbox.rs" scope="impl TileBBox" name="include_bbox"
//@end
//@extract fn file="versatiles_core/src/types/tile_bbox.rs" scope="impl TileBBox" name="intersect_bbox"
//@end
//@extract fn file="versatiles_core/src/types/tile_bbox.rs" scope="impl TileBBox" name="overlaps_bbox"
//@end
//@extract fn file="versatiles_core/src/types/tile_bbox.rs" scope="impl TileBBox" name="scale_down"
//@end
//@extract fn file="versatiles_core/src/types/tile_bbox.rs" scope="impl TileBBox" name="get_tile_index2"
//@end
//@extract fn file="versatiles_core/src/types/tile_bbox.rs" scope="impl TileBBox" name="get_tile_index3"
//@end
//@extract fn file="versatiles_core/src/types/tile_bbox.rs" scope="impl TileBBox" name="get_coord2_by_index"
//@end
//@extract fn file="versatiles_core/src/types/tile_bbox.rs" scope="impl TileBBox" name="get_coord3_by_index"
//@end
//@extract fn file="versatiles_core/src/utils/transform_coord.rs" scope="impl TransformCoord for TileBBox" name="flip_y"
//@end
//@extract fn file="versatiles_core/src/utils/transform_coord.rs" scope="impl TransformCoord for TileBBox" name="swap_xy"
//@end
}

#[cfg(kani)]
mod proofs {
	use super::*;
	fn has(b: &TileBBox, x: u32, y: u32) -> bool { x >= b.x_min && x <= b.x_max && y >= b.y_min && y <= b.y_max }
	fn empty(b: &TileBBox) -> bool { b.x_max < b.x_min || b.y_max < b.y_min }
	fn wf(b: &TileBBox) -> bool { b.level <= 31 && b.max == ((1u64 << b.level) - 1) as u32 && b.x_max <= b.max && b.y_max <= b.max }
	fn any_wf() -> TileBBox { let b: TileBBox = kani::any(); kani::assume(wf(&b)); b }
	fn w(b: &TileBBox) -> u64 { if b.x_max < b.x_min { 0 } else { (b.x_max - b.x_min) as u64 + 1 } }
	fn h(b: &TileBBox) -> u64 { if b.y_max < b.y_min { 0 } else { (b.y_max - b.y_min) as u64 + 1 } }

	// harness: kind=complete why="loop-free, full-domain inputs" tier=thorough props=C15 fn=TileBBox::new,TileBBox::new_full,TileBBox::new_empty twin=tile_bbox::new timeout=600
	#[kani::proof]
	fn tw_constructors() {
		let (level, x0, y0, x1, y1): (u8, u32, u32, u32, u32) = kani::any();
		let (x, y): (u32, u32) = kani::any();
		let side = if level <= 31 { 1u64 << level } else { 0 };
		match TileBBox::new(level, x0, y0, x1, y1) {
			Ok(b) => { assert!(level <= 31 && (x1 as u64) < side && (y1 as u64) < side && x0 <= x1 && y0 <= y1);
				assert!(wf(&b) && b.level == level && has(&b, x, y) == (x0 <= x && x <= x1 && y0 <= y && y <= y1)); }
			Err(_) => assert!(!(level <= 31 && (x1 as u64) < side && (y1 as u64) < side && x0 <= x1 && y0 <= y1)),
		}
		match TileBBox::new_full(level) { Ok(b) => { assert!(level <= 31 && wf(&b) && b.level == level && has(&b, x, y) == ((x as u64) < side && (y as u64) < side)); } Err(_) => assert!(level > 31) }
		match TileBBox::new_empty(level) { Ok(b) => { assert!(level <= 31 && wf(&b) && b.level == level && empty(&b) && !has(&b, x, y)); } Err(_) => assert!(level > 31) }
	}
	// harness: kind=complete why="loop-free, full-domain inputs" tier=thorough props=C15 fn=TileBBox::is_empty,TileBBox::width,TileBBox::height,TileBBox::count_tiles,TileBBox::contains2,TileBBox::contains3,TileBBox::set_empty twin=tile_bbox::is_empty timeout=600
	#[kani::proof]
	fn tw_queries() {
		let b = any_wf();
		let (x, y): (u32, u32) = kani::any();
		if b.is_empty() { assert!(!has(&b, x, y)); } else { assert!(has(&b, b.x_min, b.y_min)); }
		assert!(b.width() as u64 == w(&b) && b.height() as u64 == h(&b));
		assert!(b.contains2(&TileCoord2 { x, y }) == has(&b, x, y));
		let z: u8 = kani::any();
		assert!(b.contains3(&TileCoord3 { x, y, z }) == (z == b.level && has(&b, x, y)));
		let mut c = b.clone(); c.set_empty();
		assert!(empty(&c) && c.level == b.level && c.max == b.max && wf(&c));
	}
	// harness: kind=complete why="loop-free, full-domain inputs" tier=thorough props=C15 fn=TileBBox::count_tiles twin=tile_bbox::count_tiles timeout=900
	#[kani::proof]
	fn tw_count_tiles() { let b = any_wf(); assert!(b.count_tiles() == w(&b) * h(&b)); }

	// harness: kind=complete why="loop-free, full-domain inputs" tier=thorough props=C15,C03 fn=TileBBox::include_coord,TileBBox::include_coord3 twin=tile_bbox::include_coord timeout=600
	#[kani::proof]
	fn tw_include_coord() {
		let b = any_wf();
		let (cx, cy, x, y): (u32, u32, u32, u32) = kani::any();
		kani::assume(cx <= b.max && cy <= b.max);
		let mut a = b.clone(); a.include_coord(cx, cy);
		let expect = if empty(&b) { x == cx && y == cy } else { x >= b.x_min.min(cx) && x <= b.x_max.max(cx) && y >= b.y_min.min(cy) && y <= b.y_max.max(cy) };
		assert!(has(&a, x, y) == expect && wf(&a) && a.level == b.level);
		let z: u8 = kani::any();
		let mut c = b.clone();
		let r = c.include_coord3(&TileCoord3 { x: cx, y: cy, z });
		assert!(r.is_ok() == (z == b.level));
		if r.is_ok() { assert!(c == a); } else { assert!(c == b); }
	}
	// harness: kind=complete why="loop-free, full-domain inputs" tier=thorough props=C15,C06 fn=TileBBox::add_border twin=tile_bbox::add_border timeout=600
	#[kani::proof]
	fn tw_add_border() {
		let b = any_wf();
		let (b0, b1, b2, b3, x, y): (u32, u32, u32, u32, u32, u32) = kani::any();
		let mut a = b.clone(); a.add_border(b0, b1, b2, b3);
		let expect = !empty(&b) && (x as i64) >= b.x_min as i64 - b0 as i64 && (x as i64) <= b.x_max as i64 + b2 as i64 && x <= b.max
			&& (y as i64) >= b.y_min as i64 - b1 as i64 && (y as i64) <= b.y_max as i64 + b3 as i64 && y <= b.max;
		assert!(has(&a, x, y) == expect && wf(&a) && a.level == b.level);
	}
	// harness: kind=complete why="loop-free, full-domain inputs" tier=thorough props=C15,C03,C08 fn=TileBBox::include_bbox twin=tile_bbox::include_bbox timeout=600
	#[kani::proof]
	fn tw_include_bbox() {
		let b = any_wf(); let o = any_wf();
		let (x, y): (u32, u32) = kani::any();
		let mut a = b.clone();
		let r = a.include_bbox(&o);
		assert!(r.is_ok() == (b.level == o.level));
		if r.is_err() { assert!(a == b); } else {
			let expect = if empty(&o) { has(&b, x, y) } else if empty(&b) { has(&o, x, y) } else {
				x >= b.x_min.min(o.x_min) && x <= b.x_max.max(o.x_max) && y >= b.y_min.min(o.y_min) && y <= b.y_max.max(o.y_max) };
			assert!(has(&a, x, y) == expect && wf(&a) && a.level == b.level);
		}
	}
	// harness: kind=complete why="loop-free, full-domain inputs" tier=thorough props=C15,C09 fn=TileBBox::intersect_bbox,TileBBox::overlaps_bbox twin=tile_bbox::intersect_bbox,tile_bbox::overlaps_bbox timeout=600
	#[kani::proof]
	fn tw_intersect_overlaps() {
		let b: TileBBox = kani::any(); let o: TileBBox = kani::any();   // no wf needed: total on all field values
		let (x, y): (u32, u32) = kani::any();
		let mut a = b.clone();
		let r = a.intersect_bbox(&o);
		assert!(r.is_ok() == (b.level == o.level));
		if r.is_err() { assert!(a == b); } else { assert!(has(&a, x, y) == (has(&b, x, y) && has(&o, x, y)) && a.level == b.level && a.max == b.max); if wf(&b) { assert!(wf(&a)); } }
		match b.overlaps_bbox(&o) {
			Err(_) => assert!(b.level != o.level),
			Ok(ov) => { assert!(b.level == o.level);
				if has(&b, x, y) && has(&o, x, y) { assert!(ov); }
				if ov { let wx = b.x_min.max(o.x_min); let wy = b.y_min.max(o.y_min); assert!(has(&b, wx, wy) && has(&o, wx, wy)); } }
		}
	}
	// harness: kind=complete why="loop-free, full-domain inputs" tier=thorough props=C15,C01 fn=TileBBox::get_tile_index2,TileBBox::get_tile_index3 twin=tile_bbox::get_tile_index2,tile_bbox::get_tile_index3 timeout=1800
	#[kani::proof]
	fn tw_index_of_coord() {
		let b = any_wf();
		let (x, y): (u32, u32) = kani::any();
		let z: u8 = kani::any();
		match b.get_tile_index3(&TileCoord3 { x, y, z }) {
			Ok(i) => { assert!(z == b.level && has(&b, x, y)); assert!(i as u64 == (y - b.y_min) as u64 * w(&b) + (x - b.x_min) as u64);
				assert!(b.get_tile_index2(&TileCoord2 { x, y }).unwrap() == i); }
			Err(_) => assert!(!(z == b.level && has(&b, x, y))),
		}
	}
	// harness: kind=bounded bound="box width in {1,2,3,32,256} (symbolic 32-bit division is SAT-hard); height, offsets, level, index symbolic" tier=thorough props=C15,C01 fn=TileBBox::get_coord2_by_index,TileBBox::get_coord3_by_index twin=tile_bbox::get_coord2_by_index,tile_bbox::get_coord3_by_index timeout=1800
	#[kani::proof]
	fn tw_coord_by_index() {
		let b = any_wf();
		let ww = w(&b); kani::assume(ww == 1 || ww == 2 || ww == 3 || ww == 32 || ww == 256 || ww == 0);
		let idx: u32 = kani::any();
		match b.get_coord2_by_index(idx) {
			Ok(c) => { assert!((idx as u64) < w(&b) * h(&b) && has(&b, c.x, c.y)); assert!((c.y - b.y_min) as u64 * w(&b) + (c.x - b.x_min) as u64 == idx as u64);
				let c3 = b.get_coord3_by_index(idx).unwrap(); assert!(c3.x == c.x && c3.y == c.y && c3.z == b.level); }
			Err(_) => { assert!((idx as u64) >= w(&b) * h(&b)); assert!(b.get_coord3_by_index(idx).is_err()); }
		}
	}
	// harness: kind=complete why="loop-free, full-domain inputs" tier=thorough props=C15,C06 fn=TransformCoord_for_TileBBox::flip_y,TransformCoord_for_TileBBox::swap_xy,TransformCoord_for_TileCoord3::flip_y,TransformCoord_for_TileCoord3::swap_xy twin=tile_bbox::flip_y,tile_bbox::swap_xy timeout=600
	#[kani::proof]
	fn tw_transforms() {
		let b = any_wf();
		let (x, y): (u32, u32) = kani::any();
		kani::assume(x <= b.max && y <= b.max);
		let mut f = b.clone(); f.flip_y();
		assert!(has(&f, x, y) == has(&b, x, b.max - y) && wf(&f) && f.level == b.level);
		let mut f2 = f.clone(); f2.flip_y();
		assert!(has(&f2, x, y) == has(&b, x, y));
		let mut s = b.clone(); s.swap_xy();
		assert!(has(&s, x, y) == has(&b, y, x) && wf(&s));
		let mut c = TileCoord3 { x, y, z: b.level };
		c.flip_y(); assert!(c.x == x && c.y == b.max - y && c.z == b.level);
		c.flip_y(); assert!(c.y == y);
		c.swap_xy(); assert!(c.x == y && c.y == x);
		// the point map and the box map agree: c in flip(b) <=> flip(c) in b
		let mut p = TileCoord3 { x, y, z: b.level }; p.flip_y();
		assert!(has(&f, x, y) == has(&b, p.x, p.y));
	}
	// harness: kind=complete why="loop-free, full-domain inputs" tier=thorough props=C15,C02 fn=TileBBox::scale_down twin=tile_bbox::scale_down timeout=1800
	#[kani::proof]
	fn tw_scale_down() {
		let b = any_wf();
		let (x, y): (u32, u32) = kani::any();
		let s: u32 = kani::any(); kani::assume(s == 256 || s == 32 || s == 2 || s == 3);   // call-site values and two small ones (symbolic division is SAT-hard)
		let mut a = b.clone(); a.scale_down(s);
		if has(&b, x, y) { assert!(has(&a, x / s, y / s)); }
		assert!(a.x_min == b.x_min / s && a.x_max == b.x_max / s && a.y_min == b.y_min / s && a.y_max == b.y_max / s);
	}
	// harness: kind=canary expect=fail tier=thorough props=C15 timeout=600
	#[kani::proof]
	fn tile_bbox_canary_must_fail() {
		let b = any_wf(); let o = any_wf();
		let (x, y): (u32, u32) = kani::any();
		let mut a = b.clone();
		if a.intersect_bbox(&o).is_ok() { assert!(has(&a, x, y) == has(&b, x, y)); }
	}
}
