// unit vector_tile_layer_enc — versatiles_geometry vector_tile/layer.rs::to_blob and tile.rs::to_blob: the layer / tile
// messages against the Mapbox Vector Tile specification 2.1, section 4.1 (C11, C10)
use vstd::prelude::*;
use std::collections::HashMap;
use std::hash::Hash;
use std::fmt::Debug;
use std::ops::Div;
use vstd::std_specs::hash::*;
verus! {
//@include common/prelude.vrs
//@include common/byte_io.vrs
//@include common/pbf_spec.vrs
//@include common/pbf_blob.vrs
//@include common/pbf_reader.vrs
//@include common/pbf_writer.vrs
//@include common/vt_tables.vrs
//@include common/vt_feature.vrs

// R6: strings and values as opaque byte strings on the wire
pub uninterp spec fn str_wire(s: AbsStr) -> Seq<u8>;      // the UTF-8 bytes of the string
pub uninterp spec fn val_wire(v: GeoValue) -> Seq<u8>;    // the Value sub-message (GeoValue::to_blob, not under contract)
impl ValueWriterBlob {
	// write_pbf_string(&str) = varint(len) + bytes (same shape as write_pbf_blob, verified in unit varint_pbf)
	#[verifier::external_body]
	pub fn write_pbf_absstr(&mut self, text: &AbsStr) -> (r: Result<(), VErr>)
		ensures r is Ok, final(self).sink.buf@ == old(self).sink.buf@ + enc(str_wire(*text).len() as nat) + str_wire(*text)
	{ unimplemented!() }
}
#[verifier::external_body]
pub fn geo_value_to_blob(v: &GeoValue) -> (r: Result<Blob, VErr>) ensures r is Ok ==> r.unwrap()@ == val_wire(*v) { unimplemented!() }

//@extract struct file="versatiles_geometry/src/vector_tile/layer.rs" name="VectorTileLayer"
//@rewrite "String" => "AbsStr"
//@end
pub open spec fn lenpref(b: Seq<u8>) -> Seq<u8> { enc(b.len() as nat) + b }
pub open spec fn features_wire(f: Seq<VectorTileFeature>, k: int) -> Seq<u8> decreases k { if k <= 0 { Seq::empty() } else { features_wire(f, k - 1) + pbf_key(2, 2) + lenpref(f[k - 1].wire()) } }
pub open spec fn keys_wire(s: Seq<AbsStr>, k: int) -> Seq<u8> decreases k { if k <= 0 { Seq::empty() } else { keys_wire(s, k - 1) + pbf_key(3, 2) + lenpref(str_wire(s[k - 1])) } }
pub open spec fn vals_wire(s: Seq<GeoValue>, k: int) -> Seq<u8> decreases k { if k <= 0 { Seq::empty() } else { vals_wire(s, k - 1) + pbf_key(4, 2) + lenpref(val_wire(s[k - 1])) } }
impl VectorTileLayer {
	// MVT 2.1 §4.1: message Layer { required string name = 1; repeated Feature features = 2; repeated string keys = 3;
	//   repeated Value values = 4; optional uint32 extent = 5 [default = 4096]; required uint32 version = 15 [default = 1]; }
	pub open spec fn wire(&self) -> Seq<u8> {
		pbf_key(1, 2) + lenpref(str_wire(self.name))
		+ features_wire(self.features@, self.features@.len() as int)
		+ keys_wire(self.property_manager.key.list@, self.property_manager.key.list@.len() as int)
		+ vals_wire(self.property_manager.val.list@, self.property_manager.val.list@.len() as int)
		+ (if self.extent != 4096 { pbf_key(5, 0) + enc(self.extent as nat) } else { Seq::<u8>::empty() })
		+ (if self.version != 1 { pbf_key(15, 0) + enc(self.version as nat) } else { Seq::<u8>::empty() })
	}
//@extract fn file="versatiles_geometry/src/vector_tile/layer.rs" scope="impl VectorTileLayer" name="to_blob"
//@rewrite "writer .write_pbf_string(&self.name)" => "writer.write_pbf_absstr(&self.name)" R7
//@rewrite "writer.write_pbf_string(key)" => "writer.write_pbf_absstr(key)" R7
//@rewrite "self.property_manager.iter_key()" => "self.property_manager.key.list.iter()" R7
//@rewrite "self.property_manager.iter_val()" => "self.property_manager.val.list.iter()" R7
//@rewrite "value.to_blob()" => "geo_value_to_blob(value)" R7
//@ret r
//@spec
		// every feature, key and value is written, in table order (positions are what the tag ids refer to), nothing else
		ensures r is Ok ==> r.unwrap()@ == self.wire()
//@at "for feature in self.features.iter()"
		let ghost b0 = writer.sink.buf@;
//@loop 1 iter=it1
			invariant writer.sink.buf@ == b0 + features_wire(self.features@, it1.index@ as int),
//@at "for key in self.property_manager.key.list.iter()"
		let ghost b1 = writer.sink.buf@;
//@loop 2 iter=it2
			invariant writer.sink.buf@ == b1 + keys_wire(self.property_manager.key.list@, it2.index@ as int),
//@at "for value in self.property_manager.val.list.iter()"
		let ghost b2 = writer.sink.buf@;
//@loop 3 iter=it3
			invariant writer.sink.buf@ == b2 + vals_wire(self.property_manager.val.list@, it3.index@ as int),
//@end
}

//@extract struct file="versatiles_geometry/src/vector_tile/tile.rs" name="VectorTile"
//@end
// MVT 2.1 §4: message Tile { repeated Layer layers = 3; }
pub open spec fn layers_wire(l: Seq<VectorTileLayer>, k: int) -> Seq<u8> decreases k { if k <= 0 { Seq::empty() } else { layers_wire(l, k - 1) + pbf_key(3, 2) + lenpref(l[k - 1].wire()) } }
impl VectorTile {
//@extract fn file="versatiles_geometry/src/vector_tile/tile.rs" scope="impl VectorTile" name="new"
//@ret r
//@spec
		ensures r.layers == layers
//@end
//@extract fn file="versatiles_geometry/src/vector_tile/tile.rs" scope="impl VectorTile" name="to_blob"
//@ret r
//@spec
		// every layer is written, in order, as one field-3 record; nothing else
		ensures r is Ok ==> r.unwrap()@ == layers_wire(self.layers@, self.layers@.len() as int)
//@loop 1 iter=it
			invariant writer.sink.buf@ == layers_wire(self.layers@, it.index@ as int),
//@end
}
} // verus!
#[derive(Clone, PartialEq, Eq, Hash, Debug)] pub struct AbsStr { s: String }
#[derive(Clone, PartialEq, Eq, Hash, Debug)] pub struct GeoValue { v: u8 }
fn main() {}
