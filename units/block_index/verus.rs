// unit block_index — versatiles_container/src/container/versatiles/types/block_index.rs: decoding AND encoding the block index
// (33-byte records into a map keyed by block coordinate) — C16 (sparse index), C19 (arbitrary bytes), C01
use vstd::prelude::*;
use std::collections::HashMap;
use std::ops::Div;
use vstd::std_specs::hash::*;
use vstd::std_specs::iter::IteratorSpec;
verus! {
//@include common/prelude.vrs
//@include common/pbf_blob.vrs

#[derive(Clone, Copy, PartialEq, Eq, Debug, Structural)]
//@extract struct file="versatiles_core/src/types/byte_range.rs" name="ByteRange"
//@end
impl ByteRange {
//@extract fn file="versatiles_core/src/types/byte_range.rs" scope="impl ByteRange" name="new"
//@ret r
//@spec
		ensures r.offset == offset, r.length == length
//@end
}
// R6: TileCoord3 as the hash key (derive(Hash, Eq)); BlockDefinition opaque here (its codec is verified in unit versatiles_codec)
#[verifier::external_type_specification] #[verifier::external_body] pub struct ExTileCoord3(TileCoord3);
#[verifier::external_type_specification] #[verifier::external_body] pub struct ExBlockDefinition(BlockDefinition);
pub uninterp spec fn block_coord(b: BlockDefinition) -> TileCoord3;
pub uninterp spec fn decode_block(bytes: Seq<u8>) -> Option<BlockDefinition>;
#[verifier::external_body]
pub fn block_get_coord3(b: &BlockDefinition) -> (r: TileCoord3) ensures r == block_coord(*b) { unimplemented!() }
#[verifier::external_body]
pub fn block_from_blob(blob: &Blob) -> (r: Result<BlockDefinition, VErr>)
	ensures r is Ok <==> decode_block(blob@) is Some, r is Ok ==> r.unwrap() == decode_block(blob@).unwrap()
{ unimplemented!() }
impl Blob {
	// Blob::read_range (repaired in 2980e80a): the bytes of the range or an error
	#[verifier::external_body]
	pub fn read_range(&self, range: &ByteRange) -> (r: Result<Blob, VErr>)
		ensures r is Ok <==> range.offset + range.length <= self@.len(), r is Ok ==> r.unwrap()@ == self@.subrange(range.offset as int, range.offset + range.length)
	{ unimplemented!() }
}
// record i of a written index decodes to block b, for some i < n
pub open spec fn listed(bytes: Seq<u8>, n: int, b: BlockDefinition) -> bool {
	exists|i: int| 0 <= i < n && #[trigger] decode_block(bytes.subrange(33 * i, 33 * i + 33)) == Some(b)
}
pub open spec fn rec_block(bytes: Seq<u8>, i: int) -> Option<BlockDefinition> { decode_block(bytes.subrange(33 * i, 33 * i + 33)) }
// b is one of the blocks of the map
pub open spec fn in_index(m: Map<TileCoord3, BlockDefinition>, b: BlockDefinition) -> bool { exists|k: TileCoord3| #[trigger] m.contains_key(k) && m[k] == b }
// BlockDefinition::as_blob: Ok gives the 33-byte record that from_blob decodes to the same block
// (proved for the real bodies by the complete Kani harness versatiles_codec::block_definition_roundtrip_and_layout)
#[verifier::external_body]
pub fn block_as_blob(b: &BlockDefinition) -> (r: Result<Blob, VErr>)
	ensures r is Ok ==> r.unwrap()@.len() == 33 && decode_block(r.unwrap()@) == Some(*b)
{ unimplemented!() }
// R6 stand-in for ValueWriterBlob (io::Cursor<Vec<u8>>); ValueWriter::write_blob is under contract in unit vector_tile_feature
pub struct ValueWriterBlob { pub buf: Vec<u8> }
impl ValueWriterBlob {
	pub fn new_be() -> (r: ValueWriterBlob) ensures r.buf@ == Seq::<u8>::empty() { ValueWriterBlob { buf: Vec::new() } }
	#[verifier::external_body]
	pub fn write_blob(&mut self, blob: &Blob) -> (r: Result<(), VErr>)
		ensures r is Ok ==> final(self).buf@ == old(self).buf@ + blob@,
			// (a consequence of the line above, stated so that callers need not name the blob)
			r is Ok ==> final(self).buf@.subrange(old(self).buf@.len() as int, final(self).buf@.len() as int) == blob@
	{ unimplemented!() }
	pub fn into_blob(self) -> (r: Blob) ensures r@ == self.buf@ { Blob::from_vec(self.buf) }
}
//@extract const file="versatiles_container/src/container/versatiles/types/block_index.rs" name="BLOCK_INDEX_LENGTH"
//@end
//@extract struct file="versatiles_container/src/container/versatiles/types/block_index.rs" name="BlockIndex"
//@end
impl BlockIndex {
	// every block is filed under its own block coordinate (established by add_block, hence by from_blob)
	pub open spec fn keyed(&self) -> bool { forall|k: TileCoord3| self.lookup@.contains_key(k) ==> block_coord(#[trigger] self.lookup@[k]) == k }
//@extract fn file="versatiles_container/src/container/versatiles/types/block_index.rs" scope="impl BlockIndex" name="new_empty"
//@ret r
//@spec
		requires obeys_key_model::<TileCoord3>()
		ensures r.lookup@ == Map::<TileCoord3, BlockDefinition>::empty()
//@end
//@extract fn file="versatiles_container/src/container/versatiles/types/block_index.rs" scope="impl BlockIndex" name="add_block"
//@rewrite "*block.get_coord3()" => "block_get_coord3(&block)" R7
//@spec
		requires obeys_key_model::<TileCoord3>()
		ensures final(self).lookup@ == old(self).lookup@.insert(block_coord(block), block)
//@end
//@extract fn file="versatiles_container/src/container/versatiles/types/block_index.rs" scope="impl BlockIndex" name="get_block"
//@ret r
//@spec
		requires obeys_key_model::<TileCoord3>()
		// a sparse index: a block that is not listed is simply absent (C16)
		ensures r is Some <==> self.lookup@.contains_key(*coord), r is Some ==> *r.unwrap() == self.lookup@[*coord]
//@end
//@extract fn file="versatiles_container/src/container/versatiles/types/block_index.rs" scope="impl BlockIndex" name="from_blob"
//@rewrite "BlockDefinition::from_blob(" => "block_from_blob(" R7
//@ret r
//@spec
		requires obeys_key_model::<TileCoord3>()
		// any byte string: Ok exactly if it consists of whole, decodable 33-byte records; every record is listed under its block coordinate
		ensures r is Ok ==> buf@.len() % 33 == 0
			&& forall|i: int| 0 <= i < buf@.len() / 33 ==> decode_block(#[trigger] buf@.subrange(33 * i, 33 * i + 33)) is Some,
			r is Ok ==> forall|i: int| 0 <= i < buf@.len() / 33 ==> r.unwrap().lookup@.contains_key(block_coord(decode_block(#[trigger] buf@.subrange(33 * i, 33 * i + 33)).unwrap())),
			// ... and only then (C16: every valid index is accepted): an error means a torn or undecodable record
			r is Err ==> !(buf@.len() % 33 == 0 && forall|i: int| 0 <= i < buf@.len() / 33 ==> decode_block(#[trigger] buf@.subrange(33 * i, 33 * i + 33)) is Some),
			// nothing is invented: every listed block is the decoding of one of the records, filed under its own block coordinate
			r is Ok ==> forall|k: TileCoord3| r.unwrap().lookup@.contains_key(k) ==> listed(buf@, buf@.len() as int / 33, #[trigger] r.unwrap().lookup@[k]) && block_coord(r.unwrap().lookup@[k]) == k,
//@loop 1 iter=it
			invariant obeys_key_model::<TileCoord3>(), buf@.len() == 33 * count, buf@.len() <= u64::MAX, it.index@ <= count,
				forall|i: int| 0 <= i < it.index@ ==> decode_block(#[trigger] buf@.subrange(33 * i, 33 * i + 33)) is Some,
				forall|i: int| 0 <= i < it.index@ ==> block_index.lookup@.contains_key(block_coord(decode_block(#[trigger] buf@.subrange(33 * i, 33 * i + 33)).unwrap())),
				forall|k: TileCoord3| block_index.lookup@.contains_key(k) ==> listed(buf@, it.index@ as int, #[trigger] block_index.lookup@[k]) && block_coord(block_index.lookup@[k]) == k,
//@loopstart 1
			proof { assert(i * 33 + 33 <= count * 33) by (nonlinear_arith) requires i < count; }
			let ghost vold = block_index.lookup@;
//@loopend 1
			proof {
				let vb = decode_block(buf@.subrange(33 * (i as int), 33 * (i as int) + 33)).unwrap();
				assert(listed(buf@, i as int + 1, vb));
				assert forall|k: TileCoord3| block_index.lookup@.contains_key(k) implies listed(buf@, i as int + 1, #[trigger] block_index.lookup@[k]) && block_coord(block_index.lookup@[k]) == k by {
					if k != block_coord(vb) { assert(vold.contains_key(k) && vold[k] == block_index.lookup@[k]); assert(listed(buf@, i as int, vold[k])); }
				}
			}
//@end
//@extract fn file="versatiles_container/src/container/versatiles/types/block_index.rs" scope="impl BlockIndex" name="as_blob"
//@rewrite "block.as_blob()" => "block_as_blob(block)" R7
//@ret r
//@spec
		requires obeys_key_model::<TileCoord3>()
		// C01: the written index consists of whole 33-byte records, one per listed block, and every listed block is the decoding
		// of one of them (the order is the map's iteration order, which the format leaves open)
		ensures r is Ok ==> r.unwrap()@.len() == 33 * self.lookup@.len(),
			r is Ok ==> forall|k: TileCoord3| self.lookup@.contains_key(k) ==> listed(r.unwrap()@, self.lookup@.len() as int, #[trigger] self.lookup@[k]),
			// ... nothing else is written: every record decodes to a listed block, and (when every block is filed under its own
			// coordinate, which add_block/from_blob establish) no two records carry the same block coordinate
			r is Ok ==> forall|i: int| 0 <= i < self.lookup@.len() ==> (#[trigger] rec_block(r.unwrap()@, i)) is Some && in_index(self.lookup@, rec_block(r.unwrap()@, i).unwrap()),
			r is Ok && self.keyed() ==> forall|i: int, j: int| 0 <= i < j < self.lookup@.len() ==> block_coord((#[trigger] rec_block(r.unwrap()@, i)).unwrap()) != block_coord((#[trigger] rec_block(r.unwrap()@, j)).unwrap()),
//@at "for (_coord, block) in self.lookup.iter()"
		let ghost mut vseq: Seq<(&TileCoord3, &BlockDefinition)> = Seq::empty();
//@at "Ok(writer.into_blob())"
		proof {
			assert forall|k: TileCoord3| self.lookup@.contains_key(k) implies listed(writer.buf@, self.lookup@.len() as int, #[trigger] self.lookup@[k]) by {
				let j = choose|j: int| 0 <= j < vseq.len() && *(#[trigger] vseq[j]).0 == k;
				assert(decode_block(writer.buf@.subrange(33 * j, 33 * j + 33)) == Some(*vseq[j].1));
			}
			assert forall|i: int| 0 <= i < self.lookup@.len() implies (#[trigger] rec_block(writer.buf@, i)) is Some && in_index(self.lookup@, rec_block(writer.buf@, i).unwrap()) by {
				assert(decode_block(writer.buf@.subrange(33 * i, 33 * i + 33)) == Some(*vseq[i].1));
				assert(self.lookup@.contains_key(*vseq[i].0) && self.lookup@[*vseq[i].0] == *vseq[i].1);
			}
			if self.keyed() {
				assert forall|i: int, j: int| 0 <= i < j < self.lookup@.len() implies block_coord((#[trigger] rec_block(writer.buf@, i)).unwrap()) != block_coord((#[trigger] rec_block(writer.buf@, j)).unwrap()) by {
					assert(decode_block(writer.buf@.subrange(33 * i, 33 * i + 33)) == Some(*vseq[i].1));
					assert(decode_block(writer.buf@.subrange(33 * j, 33 * j + 33)) == Some(*vseq[j].1));
					assert(self.lookup@.contains_key(*vseq[i].0) && self.lookup@[*vseq[i].0] == *vseq[i].1);
					assert(self.lookup@.contains_key(*vseq[j].0) && self.lookup@[*vseq[j].0] == *vseq[j].1);
					if *vseq[i].0 == *vseq[j].0 { assert(vseq[i] == vseq[j]); }
				}
			}
		}
//@loop 1 iter=it
			invariant obeys_key_model::<TileCoord3>(), it.seq().len() == self.lookup@.len(), it.seq().no_duplicates(), vseq.len() == it.index@, forall|i: int| #![trigger vseq[i]] #![trigger it.seq()[i]] 0 <= i < it.index@ ==> vseq[i] == it.seq()[i],
				forall|i: int| 0 <= i < it.seq().len() ==> self.lookup@.contains_key(*(#[trigger] it.seq()[i]).0) && self.lookup@[*it.seq()[i].0] == *it.seq()[i].1,
				forall|k: TileCoord3| self.lookup@.contains_key(k) ==> exists|i: int| 0 <= i < it.seq().len() && *(#[trigger] it.seq()[i]).0 == k,
				writer.buf@.len() == 33 * it.index@,
				forall|i: int| 0 <= i < it.index@ ==> decode_block(#[trigger] writer.buf@.subrange(33 * i, 33 * i + 33)) == Some(*it.seq()[i].1),
//@loopstart 1
			let ghost vpre = writer.buf@;
//@loopend 1
			proof {
				vseq = vseq.push((_coord, block));
				assert(vpre.len() == 33 * it.index@);
				assert(writer.buf@.len() == vpre.len() + 33);
				assert(writer.buf@.subrange(33 * it.index@, 33 * it.index@ + 33) == writer.buf@.subrange(vpre.len() as int, writer.buf@.len() as int));
				assert(*block == *it.seq()[it.index@ as int].1);
				assert forall|i: int| 0 <= i < it.index@ implies #[trigger] writer.buf@.subrange(33 * i, 33 * i + 33) == vpre.subrange(33 * i, 33 * i + 33) by {
					assert(writer.buf@.subrange(33 * i, 33 * i + 33) =~= vpre.subrange(33 * i, 33 * i + 33));
				}
			}
//@end
}

// C01 (versatiles block index): decoding the bytes `as_blob` writes gives back exactly the index that was written — the composition
// of the two contracts above, for indexes of any size. `a`: the written index (filed under block coordinates), `b`: what from_blob returns.
pub proof fn lemma_block_index_roundtrip(a: Map<TileCoord3, BlockDefinition>, bytes: Seq<u8>, b: Map<TileCoord3, BlockDefinition>, n: int)
	requires n >= 0, bytes.len() == 33 * n,
		forall|k: TileCoord3| a.contains_key(k) ==> block_coord(#[trigger] a[k]) == k,
		// what as_blob ensures
		forall|k: TileCoord3| a.contains_key(k) ==> listed(bytes, n, #[trigger] a[k]),
		forall|i: int| 0 <= i < n ==> (#[trigger] rec_block(bytes, i)) is Some && in_index(a, rec_block(bytes, i).unwrap()),
		forall|i: int, j: int| 0 <= i < j < n ==> block_coord((#[trigger] rec_block(bytes, i)).unwrap()) != block_coord((#[trigger] rec_block(bytes, j)).unwrap()),
		// what from_blob ensures for an Ok result
		forall|i: int| 0 <= i < bytes.len() / 33 ==> b.contains_key(block_coord(decode_block(#[trigger] bytes.subrange(33 * i, 33 * i + 33)).unwrap())),
		forall|k: TileCoord3| b.contains_key(k) ==> listed(bytes, bytes.len() as int / 33, #[trigger] b[k]) && block_coord(b[k]) == k,
	ensures a == b
{
	assert(bytes.len() as int / 33 == n) by (nonlinear_arith) requires bytes.len() == 33 * n;
	assert forall|k: TileCoord3| #[trigger] a.contains_key(k) implies b.contains_key(k) && b[k] == a[k] by {
		let i = choose|i: int| 0 <= i < n && #[trigger] decode_block(bytes.subrange(33 * i, 33 * i + 33)) == Some(a[k]);
		assert(rec_block(bytes, i) == Some(a[k]));
		assert(b.contains_key(block_coord(decode_block(bytes.subrange(33 * i, 33 * i + 33)).unwrap())));
		let j = choose|j: int| 0 <= j < n && #[trigger] decode_block(bytes.subrange(33 * j, 33 * j + 33)) == Some(b[k]);
		assert(rec_block(bytes, j) == Some(b[k]));
		if i < j { assert(block_coord(rec_block(bytes, i).unwrap()) != block_coord(rec_block(bytes, j).unwrap())); }
		if j < i { assert(block_coord(rec_block(bytes, j).unwrap()) != block_coord(rec_block(bytes, i).unwrap())); }
	}
	assert forall|k: TileCoord3| #[trigger] b.contains_key(k) implies a.contains_key(k) by {
		let j = choose|j: int| 0 <= j < n && #[trigger] decode_block(bytes.subrange(33 * j, 33 * j + 33)) == Some(b[k]);
		assert(rec_block(bytes, j) == Some(b[k]));
		let k2 = choose|k2: TileCoord3| #[trigger] a.contains_key(k2) && a[k2] == rec_block(bytes, j).unwrap();
		assert(block_coord(a[k2]) == k2);
	}
	assert forall|k: TileCoord3| a.dom().contains(k) <==> b.dom().contains(k) by { assert(a.contains_key(k) == a.dom().contains(k)); assert(b.contains_key(k) == b.dom().contains(k)); }
	assert(a.dom() =~= b.dom());
	assert(a =~= b);
}

// the same statement over the two real functions (a caller sees only their contracts): whatever from_blob accepts of as_blob's output IS the index
pub fn thm_block_index_roundtrip(idx: &BlockIndex) -> (r: Result<BlockIndex, bool>)
	requires obeys_key_model::<TileCoord3>(), idx.keyed()
	ensures r is Ok ==> r.unwrap().lookup@ == idx.lookup@,
		// as_blob's output is always accepted: Err(true) = a block could not be encoded, Err(false) = from_blob rejected the bytes — never
		r != Err::<BlockIndex, bool>(false)
{
	match idx.as_blob() {
		Ok(blob) => {
			let ghost bytes = blob@;
			match BlockIndex::from_blob(blob) {
				Ok(back) => {
					proof { lemma_block_index_roundtrip(idx.lookup@, bytes, back.lookup@, idx.lookup@.len() as int); }
					Ok(back)
				}
				Err(_) => { proof { assert forall|i: int| 0 <= i < bytes.len() / 33 implies decode_block(#[trigger] bytes.subrange(33 * i, 33 * i + 33)) is Some by {
						assert(bytes.len() as int / 33 == idx.lookup@.len()) by (nonlinear_arith) requires bytes.len() == 33 * idx.lookup@.len();
						assert(rec_block(bytes, i) is Some); }
					assert(bytes.len() % 33 == 0) by (nonlinear_arith) requires bytes.len() == 33 * idx.lookup@.len(); }
					Err(false) }
			}
		}
		Err(_) => Err(true),
	}
}
} // verus!
#[derive(Clone, Copy, PartialEq, Eq, Hash, Debug)] pub struct TileCoord3 { pub x: u32, pub y: u32, pub z: u8 }
#[derive(Clone, PartialEq, Eq, Debug)] pub struct BlockDefinition { v: u8 }
fn main() {}
