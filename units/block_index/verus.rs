// unit block_index — versatiles_container/src/container/versatiles/types/block_index.rs: decoding the block index
// (33-byte records into a map keyed by block coordinate) — C16 (sparse index), C19 (arbitrary bytes), C01
use vstd::prelude::*;
use std::collections::HashMap;
use std::ops::Div;
use vstd::std_specs::hash::*;
verus! {
//@include common/prelude.vrs
//@include common/pbf_blob.vrs

#[derive(Clone, Copy, PartialEq, Eq, Debug, Structural)]
//@extract struct file="versatiles_core/src/types/byte_range.rs" name="ByteRange"
//@end
impl ByteRange {
//@extract fn file="versatiles_core/src/types/byte_range.rs" scope="impl ByteRange" name="new"
//@ret r
//@spec
		ensures r.offset == offset, r.length == length
//@end
}
// R6: TileCoord3 as the hash key (derive(Hash, Eq)); BlockDefinition opaque here (its codec is verified in unit versatiles_codec)
#[verifier::external_type_specification] #[verifier::external_body] pub struct ExTileCoord3(TileCoord3);
#[verifier::external_type_specification] #[verifier::external_body] pub struct ExBlockDefinition(BlockDefinition);
pub uninterp spec fn block_coord(b: BlockDefinition) -> TileCoord3;
pub uninterp spec fn decode_block(bytes: Seq<u8>) -> Option<BlockDefinition>;
#[verifier::external_body]
pub fn block_get_coord3(b: &BlockDefinition) -> (r: TileCoord3) ensures r == block_coord(*b) { unimplemented!() }
#[verifier::external_body]
pub fn block_from_blob(blob: &Blob) -> (r: Result<BlockDefinition, VErr>)
	ensures r is Ok <==> decode_block(blob@) is Some, r is Ok ==> r.unwrap() == decode_block(blob@).unwrap()
{ unimplemented!() }
impl Blob {
	// Blob::read_range (repaired in 2980e80a): the bytes of the range or an error
	#[verifier::external_body]
	pub fn read_range(&self, range: &ByteRange) -> (r: Result<Blob, VErr>)
		ensures r is Ok <==> range.offset + range.length <= self@.len(), r is Ok ==> r.unwrap()@ == self@.subrange(range.offset as int, range.offset + range.length)
	{ unimplemented!() }
}
//@extract const file="versatiles_container/src/container/versatiles/types/block_index.rs" name="BLOCK_INDEX_LENGTH"
//@end
//@extract struct file="versatiles_container/src/container/versatiles/types/block_index.rs" name="BlockIndex"
//@end
impl BlockIndex {
//@extract fn file="versatiles_container/src/container/versatiles/types/block_index.rs" scope="impl BlockIndex" name="new_empty"
//@ret r
//@spec
		requires obeys_key_model::<TileCoord3>()
		ensures r.lookup@ == Map::<TileCoord3, BlockDefinition>::empty()
//@end
//@extract fn file="versatiles_container/src/container/versatiles/types/block_index.rs" scope="impl BlockIndex" name="add_block"
//@rewrite "*block.get_coord3()" => "block_get_coord3(&block)" R7
//@spec
		requires obeys_key_model::<TileCoord3>()
		ensures final(self).lookup@ == old(self).lookup@.insert(block_coord(block), block)
//@end
//@extract fn file="versatiles_container/src/container/versatiles/types/block_index.rs" scope="impl BlockIndex" name="get_block"
//@ret r
//@spec
		requires obeys_key_model::<TileCoord3>()
		// a sparse index: a block that is not listed is simply absent (C16)
		ensures r is Some <==> self.lookup@.contains_key(*coord), r is Some ==> *r.unwrap() == self.lookup@[*coord]
//@end
//@extract fn file="versatiles_container/src/container/versatiles/types/block_index.rs" scope="impl BlockIndex" name="from_blob"
//@rewrite "BlockDefinition::from_blob(" => "block_from_blob(" R7
//@ret r
//@spec
		requires obeys_key_model::<TileCoord3>()
		// any byte string: Ok exactly if it consists of whole, decodable 33-byte records; every record is listed under its block coordinate
		ensures r is Ok ==> buf@.len() % 33 == 0
			&& forall|i: int| 0 <= i < buf@.len() / 33 ==> decode_block(#[trigger] buf@.subrange(33 * i, 33 * i + 33)) is Some,
			r is Ok ==> forall|i: int| 0 <= i < buf@.len() / 33 ==> r.unwrap().lookup@.contains_key(block_coord(decode_block(#[trigger] buf@.subrange(33 * i, 33 * i + 33)).unwrap())),
//@loop 1 iter=it
			invariant obeys_key_model::<TileCoord3>(), buf@.len() == 33 * count, buf@.len() <= u64::MAX, it.index@ <= count,
				forall|i: int| 0 <= i < it.index@ ==> decode_block(#[trigger] buf@.subrange(33 * i, 33 * i + 33)) is Some,
				forall|i: int| 0 <= i < it.index@ ==> block_index.lookup@.contains_key(block_coord(decode_block(#[trigger] buf@.subrange(33 * i, 33 * i + 33)).unwrap())),
//@loopstart 1
			proof { assert(i * 33 + 33 <= count * 33) by (nonlinear_arith) requires i < count; }
//@end
}
} // verus!
#[derive(Clone, Copy, PartialEq, Eq, Hash, Debug)] pub struct TileCoord3 { pub x: u32, pub y: u32, pub z: u8 }
#[derive(Clone, PartialEq, Eq, Debug)] pub struct BlockDefinition { v: u8 }
fn main() {}
