// unit block_index — versatiles_container/src/container/versatiles/types/block_index.rs: decoding the block index
// (33-byte records into a map keyed by block coordinate) — C16 (sparse index), C19 (arbitrary bytes), C01
use vstd::prelude::*;
use std::collections::HashMap;
use std::ops::Div;
use vstd::std_specs::hash::*;
use vstd::std_specs::iter::IteratorSpec;
verus! {
//@include common/prelude.vrs
//@include common/pbf_blob.vrs

#[derive(Clone, Copy, PartialEq, Eq, Debug, Structural)]
//@extract struct file="versatiles_core/src/types/byte_range.rs" name="ByteRange"
//@end
impl ByteRange {
//@extract fn file="versatiles_core/src/types/byte_range.rs" scope="impl ByteRange" name="new"
//@ret r
//@spec
		ensures r.offset == offset, r.length == length
//@end
}
// R6: TileCoord3 as the hash key (derive(Hash, Eq)); BlockDefinition opaque here (its codec is verified in unit versatiles_codec)
#[verifier::external_type_specification] #[verifier::external_body] pub struct ExTileCoord3(TileCoord3);
#[verifier::external_type_specification] #[verifier::external_body] pub struct ExBlockDefinition(BlockDefinition);
pub uninterp spec fn block_coord(b: BlockDefinition) -> TileCoord3;
pub uninterp spec fn decode_block(bytes: Seq<u8>) -> Option<BlockDefinition>;
#[verifier::external_body]
pub fn block_get_coord3(b: &BlockDefinition) -> (r: TileCoord3) ensures r == block_coord(*b) { unimplemented!() }
#[verifier::external_body]
pub fn block_from_blob(blob: &Blob) -> (r: Result<BlockDefinition, VErr>)
	ensures r is Ok <==> decode_block(blob@) is Some, r is Ok ==> r.unwrap() == decode_block(blob@).unwrap()
{ unimplemented!() }
impl Blob {
	// Blob::read_range (repaired in 2980e80a): the bytes of the range or an error
	#[verifier::external_body]
	pub fn read_range(&self, range: &ByteRange) -> (r: Result<Blob, VErr>)
		ensures r is Ok <==> range.offset + range.length <= self@.len(), r is Ok ==> r.unwrap()@ == self@.subrange(range.offset as int, range.offset + range.length)
	{ unimplemented!() }
}
// record i of a written index decodes to block b, for some i < n
pub open spec fn listed(bytes: Seq<u8>, n: int, b: BlockDefinition) -> bool {
	exists|i: int| 0 <= i < n && #[trigger] decode_block(bytes.subrange(33 * i, 33 * i + 33)) == Some(b)
}
// BlockDefinition::as_blob: Ok gives the 33-byte record that from_blob decodes to the same block
// (proved for the real bodies by the complete Kani harness versatiles_codec::block_definition_roundtrip_and_layout)
#[verifier::external_body]
pub fn block_as_blob(b: &BlockDefinition) -> (r: Result<Blob, VErr>)
	ensures r is Ok ==> r.unwrap()@.len() == 33 && decode_block(r.unwrap()@) == Some(*b)
{ unimplemented!() }
// R6 stand-in for ValueWriterBlob (io::Cursor<Vec<u8>>); ValueWriter::write_blob is under contract in unit vector_tile_feature
pub struct ValueWriterBlob { pub buf: Vec<u8> }
impl ValueWriterBlob {
	pub fn new_be() -> (r: ValueWriterBlob) ensures r.buf@ == Seq::<u8>::empty() { ValueWriterBlob { buf: Vec::new() } }
	#[verifier::external_body]
	pub fn write_blob(&mut self, blob: &Blob) -> (r: Result<(), VErr>)
		ensures r is Ok ==> final(self).buf@ == old(self).buf@ + blob@,
			// (a consequence of the line above, stated so that callers need not name the blob)
			r is Ok ==> final(self).buf@.subrange(old(self).buf@.len() as int, final(self).buf@.len() as int) == blob@
	{ unimplemented!() }
	pub fn into_blob(self) -> (r: Blob) ensures r@ == self.buf@ { Blob::from_vec(self.buf) }
}
//@extract const file="versatiles_container/src/container/versatiles/types/block_index.rs" name="BLOCK_INDEX_LENGTH"
//@end
//@extract struct file="versatiles_container/src/container/versatiles/types/block_index.rs" name="BlockIndex"
//@end
impl BlockIndex {
//@extract fn file="versatiles_container/src/container/versatiles/types/block_index.rs" scope="impl BlockIndex" name="new_empty"
//@ret r
//@spec
		requires obeys_key_model::<TileCoord3>()
		ensures r.lookup@ == Map::<TileCoord3, BlockDefinition>::empty()
//@end
//@extract fn file="versatiles_container/src/container/versatiles/types/block_index.rs" scope="impl BlockIndex" name="add_block"
//@rewrite "*block.get_coord3()" => "block_get_coord3(&block)" R7
//@spec
		requires obeys_key_model::<TileCoord3>()
		ensures final(self).lookup@ == old(self).lookup@.insert(block_coord(block), block)
//@end
//@extract fn file="versatiles_container/src/container/versatiles/types/block_index.rs" scope="impl BlockIndex" name="get_block"
//@ret r
//@spec
		requires obeys_key_model::<TileCoord3>()
		// a sparse index: a block that is not listed is simply absent (C16)
		ensures r is Some <==> self.lookup@.contains_key(*coord), r is Some ==> *r.unwrap() == self.lookup@[*coord]
//@end
//@extract fn file="versatiles_container/src/container/versatiles/types/block_index.rs" scope="impl BlockIndex" name="from_blob"
//@rewrite "BlockDefinition::from_blob(" => "block_from_blob(" R7
//@ret r
//@spec
		requires obeys_key_model::<TileCoord3>()
		// any byte string: Ok exactly if it consists of whole, decodable 33-byte records; every record is listed under its block coordinate
		ensures r is Ok ==> buf@.len() % 33 == 0
			&& forall|i: int| 0 <= i < buf@.len() / 33 ==> decode_block(#[trigger] buf@.subrange(33 * i, 33 * i + 33)) is Some,
			r is Ok ==> forall|i: int| 0 <= i < buf@.len() / 33 ==> r.unwrap().lookup@.contains_key(block_coord(decode_block(#[trigger] buf@.subrange(33 * i, 33 * i + 33)).unwrap())),
			// nothing is invented: every listed block is the decoding of one of the records, filed under its own block coordinate
			r is Ok ==> forall|k: TileCoord3| r.unwrap().lookup@.contains_key(k) ==> listed(buf@, buf@.len() as int / 33, #[trigger] r.unwrap().lookup@[k]) && block_coord(r.unwrap().lookup@[k]) == k,
//@loop 1 iter=it
			invariant obeys_key_model::<TileCoord3>(), buf@.len() == 33 * count, buf@.len() <= u64::MAX, it.index@ <= count,
				forall|i: int| 0 <= i < it.index@ ==> decode_block(#[trigger] buf@.subrange(33 * i, 33 * i + 33)) is Some,
				forall|i: int| 0 <= i < it.index@ ==> block_index.lookup@.contains_key(block_coord(decode_block(#[trigger] buf@.subrange(33 * i, 33 * i + 33)).unwrap())),
				forall|k: TileCoord3| block_index.lookup@.contains_key(k) ==> listed(buf@, it.index@ as int, #[trigger] block_index.lookup@[k]) && block_coord(block_index.lookup@[k]) == k,
//@loopstart 1
			proof { assert(i * 33 + 33 <= count * 33) by (nonlinear_arith) requires i < count; }
			let ghost vold = block_index.lookup@;
//@loopend 1
			proof {
				let vb = decode_block(buf@.subrange(33 * (i as int), 33 * (i as int) + 33)).unwrap();
				assert(listed(buf@, i as int + 1, vb));
				assert forall|k: TileCoord3| block_index.lookup@.contains_key(k) implies listed(buf@, i as int + 1, #[trigger] block_index.lookup@[k]) && block_coord(block_index.lookup@[k]) == k by {
					if k != block_coord(vb) { assert(vold.contains_key(k) && vold[k] == block_index.lookup@[k]); assert(listed(buf@, i as int, vold[k])); }
				}
			}
//@end
//@extract fn file="versatiles_container/src/container/versatiles/types/block_index.rs" scope="impl BlockIndex" name="as_blob"
//@rewrite "block.as_blob()" => "block_as_blob(block)" R7
//@ret r
//@spec
		requires obeys_key_model::<TileCoord3>()
		// C01: the written index consists of whole 33-byte records, one per listed block, and every listed block is the decoding
		// of one of them (the order is the map's iteration order, which the format leaves open)
		ensures r is Ok ==> r.unwrap()@.len() == 33 * self.lookup@.len(),
			r is Ok ==> forall|k: TileCoord3| self.lookup@.contains_key(k) ==> listed(r.unwrap()@, self.lookup@.len() as int, #[trigger] self.lookup@[k]),
//@at "for (_coord, block) in self.lookup.iter()"
		let ghost mut vseq: Seq<(&TileCoord3, &BlockDefinition)> = Seq::empty();
//@at "Ok(writer.into_blob())"
		proof {
			assert forall|k: TileCoord3| self.lookup@.contains_key(k) implies listed(writer.buf@, self.lookup@.len() as int, #[trigger] self.lookup@[k]) by {
				let j = choose|j: int| 0 <= j < vseq.len() && *(#[trigger] vseq[j]).0 == k;
				assert(decode_block(writer.buf@.subrange(33 * j, 33 * j + 33)) == Some(*vseq[j].1));
			}
		}
//@loop 1 iter=it
			invariant obeys_key_model::<TileCoord3>(), it.seq().len() == self.lookup@.len(), vseq.len() == it.index@, forall|i: int| #![trigger vseq[i]] #![trigger it.seq()[i]] 0 <= i < it.index@ ==> vseq[i] == it.seq()[i],
				forall|i: int| 0 <= i < it.seq().len() ==> self.lookup@.contains_key(*(#[trigger] it.seq()[i]).0) && self.lookup@[*it.seq()[i].0] == *it.seq()[i].1,
				forall|k: TileCoord3| self.lookup@.contains_key(k) ==> exists|i: int| 0 <= i < it.seq().len() && *(#[trigger] it.seq()[i]).0 == k,
				writer.buf@.len() == 33 * it.index@,
				forall|i: int| 0 <= i < it.index@ ==> decode_block(#[trigger] writer.buf@.subrange(33 * i, 33 * i + 33)) == Some(*it.seq()[i].1),
//@loopstart 1
			let ghost vpre = writer.buf@;
//@loopend 1
			proof {
				vseq = vseq.push((_coord, block));
				assert(vpre.len() == 33 * it.index@);
				assert(writer.buf@.len() == vpre.len() + 33);
				assert(writer.buf@.subrange(33 * it.index@, 33 * it.index@ + 33) == writer.buf@.subrange(vpre.len() as int, writer.buf@.len() as int));
				assert(*block == *it.seq()[it.index@ as int].1);
				assert forall|i: int| 0 <= i < it.index@ implies #[trigger] writer.buf@.subrange(33 * i, 33 * i + 33) == vpre.subrange(33 * i, 33 * i + 33) by {
					assert(writer.buf@.subrange(33 * i, 33 * i + 33) =~= vpre.subrange(33 * i, 33 * i + 33));
				}
			}
//@end
}
} // verus!
#[derive(Clone, Copy, PartialEq, Eq, Hash, Debug)] pub struct TileCoord3 { pub x: u32, pub y: u32, pub z: u8 }
#[derive(Clone, PartialEq, Eq, Debug)] pub struct BlockDefinition { v: u8 }
fn main() {}
