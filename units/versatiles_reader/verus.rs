// unit versatiles_reader — versatiles_container/src/container/versatiles/reader.rs: single-tile lookup
// (get_tile_data, get_block_tile_index; R5: async erased) over an abstract file, block index and index cache (C16, C19, C03)
use vstd::prelude::*;
use std::mem::swap;
use std::ops::{Div, Rem, Shr};
use std::sync::Arc;
verus! {
//@include common/prelude.vrs
//@include common/tile_bbox.vrs
//@include common/transform.vrs
//@include common/pbf_blob.vrs

#[derive(Clone, Copy, PartialEq, Eq, Debug, Structural)]
//@extract struct file="versatiles_core/src/types/byte_range.rs" name="ByteRange"
//@end
//@extract struct file="versatiles_container/src/container/versatiles/types/block_definition.rs" name="BlockDefinition"
//@end
// trusted: #[derive(Clone)] is field-wise
impl Clone for BlockDefinition { fn clone(&self) -> (r: Self) ensures r == *self {
	BlockDefinition { offset: self.offset, global_bbox: self.global_bbox.clone(), tiles_coverage: self.tiles_coverage.clone(), tiles_range: self.tiles_range, index_range: self.index_range } } }
impl BlockDefinition {
	// what BlockDefinition::from_blob / ::new establish (Kani unit versatiles_codec): a non-empty block box placed at (x*256, y*256)
	pub open spec fn ok(&self) -> bool {
		self.global_bbox.wf() && self.tiles_coverage.wf() && !self.global_bbox.empty()
		&& self.tiles_coverage.w() == self.global_bbox.w() && self.tiles_coverage.h() == self.global_bbox.h()
		&& self.global_bbox.level == self.offset.z
	}
//@extract fn file="versatiles_container/src/container/versatiles/types/block_definition.rs" scope="impl BlockDefinition" name="count_tiles"
//@ret r
//@spec
		requires self.tiles_coverage.wf()
		ensures r == self.tiles_coverage.w() * self.tiles_coverage.h()
//@end
//@extract fn file="versatiles_container/src/container/versatiles/types/block_definition.rs" scope="impl BlockDefinition" name="get_global_bbox"
//@ret r
//@spec
		ensures *r == self.global_bbox
//@end
//@extract fn file="versatiles_container/src/container/versatiles/types/block_definition.rs" scope="impl BlockDefinition" name="get_tiles_range"
//@ret r
//@spec
		ensures *r == self.tiles_range
//@end
//@extract fn file="versatiles_container/src/container/versatiles/types/block_definition.rs" scope="impl BlockDefinition" name="get_index_range"
//@ret r
//@spec
		ensures *r == self.index_range
//@end
//@extract fn file="versatiles_container/src/container/versatiles/types/block_definition.rs" scope="impl BlockDefinition" name="get_coord3"
//@ret r
//@spec
		ensures *r == self.offset
//@end
}

// ---- the specification's lookup (versatiles v02): a block's tile index is the brotli-compressed list of 12-byte records at
// `index_range`; entry offsets are relative to the block's tile section and become absolute by adding `tiles_range.offset`
pub uninterp spec fn dec_index(bytes: Seq<u8>) -> Option<Seq<ByteRange>>;
pub open spec fn rebase1(e: ByteRange, off: u64) -> ByteRange {
	ByteRange { offset: if e.offset + off > u64::MAX { u64::MAX } else { (e.offset + off) as u64 }, length: e.length }
}
pub open spec fn rebase(s: Seq<ByteRange>, off: u64) -> Seq<ByteRange> { Seq::new(s.len(), |i: int| rebase1(s[i], off)) }
pub open spec fn idx_spec(file: Seq<u8>, b: BlockDefinition) -> Option<Seq<ByteRange>> {
	if b.index_range.offset + b.index_range.length <= file.len() {
		match dec_index(file.subrange(b.index_range.offset as int, b.index_range.offset + b.index_range.length)) {
			Some(s) => Some(rebase(s, b.tiles_range.offset)),
			None => None,
		}
	} else { None }
}
//@extract struct file="versatiles_container/src/container/versatiles/types/tile_index.rs" name="TileIndex"
//@end
impl TileIndex {
//@extract fn file="versatiles_container/src/container/versatiles/types/tile_index.rs" scope="impl TileIndex" name="get"
//@ret r
//@spec
		requires index < self.index@.len()
		ensures *r == self.index@[index as int]
//@end
//@extract fn file="versatiles_container/src/container/versatiles/types/tile_index.rs" scope="impl TileIndex" name="len"
//@ret r
//@spec
		ensures r == self.index@.len()
//@end
	// decoding + decompression of a tile index: an error, or the entries `dec_index` gives for these bytes (brotli axiom + the
	// 12-byte record rule, which unit tile_index proves for TileIndex::from_blob)
	#[verifier::external_body]
	pub fn from_brotli_blob(buf: Blob) -> (r: Result<TileIndex, VErr>)
		ensures r is Ok ==> dec_index(buf@) == Some(r.unwrap().index@)
	{ unimplemented!() }
// R7 (loop shape): iter_mut().for_each(closure) -> index loop over the same vector, same assignment (as in unit tile_index)
//@extract fn file="versatiles_container/src/container/versatiles/types/tile_index.rs" scope="impl TileIndex" name="add_offset"
//@rewrite "self .index .iter_mut() .for_each(|r| r.offset = r.offset" => "for vi in 0..self.index.len() { self.index[vi].offset = self.index[vi].offset" R7
//@rewrite "));" => "); }" R7
//@spec
		ensures final(self).index@ == rebase(old(self).index@, offset)
//@start
		let ghost s0 = self.index@;
//@loop 1 iter=it
			invariant self.index@.len() == s0.len(), it.iter.end == s0.len(),
				forall|i: int| 0 <= i < it.index@ ==> #[trigger] self.index@[i] == rebase(s0, offset)[i],
				forall|i: int| it.index@ <= i < self.index@.len() ==> #[trigger] self.index@[i] == s0[i],
//@after "); }"
		proof { assert(self.index@ =~= rebase(s0, offset)); }
//@end
}

// R6 stand-ins: DataReader -> AbsFile; BlockIndex (HashMap<TileCoord3, BlockDefinition>) -> AbsBlockIndex;
// Mutex<LimitedCache<TileCoord3, Arc<TileIndex>>> -> AbsIndexCache with the rely/guarantee contract of C20
// (a lookup returns nothing or a value that was stored under exactly that key)
#[verifier::external_body] pub struct AbsFile { }
impl AbsFile {
	pub uninterp spec fn bytes(&self) -> Seq<u8>;
	#[verifier::external_body]
	pub fn read_range(&self, range: &ByteRange) -> (r: Result<Blob, VErr>)
		ensures r is Ok ==> range.offset + range.length <= self.bytes().len() && r.unwrap()@ == self.bytes().subrange(range.offset as int, range.offset + range.length)
	{ unimplemented!() }
}
#[verifier::external_body] pub struct AbsBlockIndex { }
impl AbsBlockIndex {
	pub uninterp spec fn map(&self) -> Map<TileCoord3, BlockDefinition>;
	#[verifier::external_body]
	pub fn get_block(&self, coord: &TileCoord3) -> (r: Option<&BlockDefinition>)
		ensures r is Some <==> self.map().contains_key(*coord), r is Some ==> *r.unwrap() == self.map()[*coord]
	{ unimplemented!() }
}
#[verifier::external_body] pub struct AbsIndexCache { }
#[verifier::external_body] pub struct AbsCacheGuard { }
impl AbsIndexCache {
	// number of tiles the index of block k must have (ghost; fixed when the reader is opened)
	pub uninterp spec fn expected(&self, k: TileCoord3) -> int;
	// the only value that may be stored under key k (ghost; fixed when the reader is opened): see VersaTilesReader::inv
	pub uninterp spec fn admissible(&self, k: TileCoord3, s: Seq<ByteRange>) -> bool;
	#[verifier::external_body]
	pub fn lock(&self) -> (g: AbsCacheGuard) ensures forall|k: TileCoord3| g.expected(k) == self.expected(k),
		forall|k: TileCoord3, s: Seq<ByteRange>| #[trigger] g.admissible(k, s) == self.admissible(k, s) { unimplemented!() }
}
impl AbsCacheGuard {
	pub uninterp spec fn expected(&self, k: TileCoord3) -> int;
	pub uninterp spec fn admissible(&self, k: TileCoord3, s: Seq<ByteRange>) -> bool;
	#[verifier::external_body]
	pub fn get(&mut self, key: &TileCoord3) -> (r: Option<Arc<TileIndex>>)
		ensures forall|k: TileCoord3| final(self).expected(k) == old(self).expected(k), r is Some ==> r.unwrap().index@.len() == old(self).expected(*key),
			forall|k: TileCoord3, s: Seq<ByteRange>| #[trigger] final(self).admissible(k, s) == old(self).admissible(k, s),
			r is Some ==> old(self).admissible(*key, r.unwrap().index@)
	{ unimplemented!() }
	#[verifier::external_body]
	pub fn add(&mut self, key: TileCoord3, value: Arc<TileIndex>) -> (r: Arc<TileIndex>)
		requires value.index@.len() == old(self).expected(key), old(self).admissible(key, value.index@)
		ensures forall|k: TileCoord3| final(self).expected(k) == old(self).expected(k), r.index@.len() == old(self).expected(key),
			forall|k: TileCoord3, s: Seq<ByteRange>| #[trigger] final(self).admissible(k, s) == old(self).admissible(k, s),
			r.index@ == value.index@
	{ unimplemented!() }
}
#[verifier::external_body] pub struct FileHeader { }
#[verifier::external_body] pub struct TileJSON { }
#[verifier::external_body] pub struct TilesReaderParameters { }

//@extract struct file="versatiles_container/src/container/versatiles/reader.rs" name="VersaTilesReader"
//@rewrite "BlockIndex" => "AbsBlockIndex"
//@rewrite "DataReader" => "AbsFile"
//@rewrite "Mutex<LimitedCache<TileCoord3, Arc<TileIndex>>>" => "AbsIndexCache"
//@end
impl VersaTilesReader {
	pub open spec fn inv(&self) -> bool {
		forall|k: TileCoord3| #[trigger] self.block_index.map().contains_key(k) ==> {
			let b = self.block_index.map()[k];
			b.ok() && b.offset == k && self.tile_index_cache.expected(k) == b.tiles_coverage.w() * b.tiles_coverage.h()
			&& self.adm(b) }
	}
	// rely/guarantee of the index cache: under a block's key only the decoded, re-based index of that block in this file is stored
	pub open spec fn adm(&self, b: BlockDefinition) -> bool {
		forall|s: Seq<ByteRange>| #[trigger] self.tile_index_cache.admissible(b.offset, s) <==> idx_spec(self.reader.bytes(), b) == Some(s)
	}
//@extract fn file="versatiles_container/src/container/versatiles/reader.rs" scope="impl VersaTilesReader" name="get_block_tile_index"
//@ret r
//@spec
		requires block.ok(), self.tile_index_cache.expected(block.offset) == block.tiles_coverage.w() * block.tiles_coverage.h(), self.adm(*block)
		// an index with exactly one entry per tile of the block, or an error (never a panic: C19); the index is the one the
		// specification defines for this block of this file (C16), whether it comes from the cache or from the file
		ensures r is Ok ==> r.unwrap().index@.len() == block.tiles_coverage.w() * block.tiles_coverage.h(),
			r is Ok ==> idx_spec(self.reader.bytes(), *block) == Some(r.unwrap().index@)
//@end
//@extract fn file="versatiles_container/src/container/versatiles/reader.rs" scope="impl TilesReaderTrait for VersaTilesReader" name="get_tile_data"
//@rewrite "coord.x.shr(8)" => "(coord.x >> 8)" R7
//@rewrite "coord.y.shr(8)" => "(coord.y >> 8)" R7
//@ret r
//@spec
		// any coordinate: a tile, nothing, or an error
		requires self.inv()
		ensures r is Ok && r.unwrap() is Some ==> ({
			// the tile lies in the block (x >> 8, y >> 8, z) of the (possibly sparse) block index and inside that block's box
			let k = TileCoord3 { x: coord.x >> 8, y: coord.y >> 8, z: coord.z };
			self.block_index.map().contains_key(k) && self.block_index.map()[k].global_bbox.has(coord.x as int, coord.y as int) }),
			// C16/C01: the bytes are those the specification's lookup gives: entry (row-major position inside the block's box) of
			// the block's decoded index, re-based by the block's tile-section offset; an entry of length 0 means "no tile"
			r is Ok && r.unwrap() is Some ==> ({
				let b = self.block_index.map()[TileCoord3 { x: coord.x >> 8, y: coord.y >> 8, z: coord.z }];
				let idx = idx_spec(self.reader.bytes(), b);
				let e = idx.unwrap()[(coord.y - b.global_bbox.y_min) * b.global_bbox.w() + (coord.x - b.global_bbox.x_min)];
				idx is Some && e.length > 0 && e.offset + e.length <= self.reader.bytes().len()
				&& r.unwrap().unwrap()@ == self.reader.bytes().subrange(e.offset as int, e.offset + e.length) }),
			r is Ok && r.unwrap() is None ==> ({
				let k = TileCoord3 { x: coord.x >> 8, y: coord.y >> 8, z: coord.z };
				let b = self.block_index.map()[k];
				!self.block_index.map().contains_key(k) || !b.global_bbox.has(coord.x as int, coord.y as int)
				|| (idx_spec(self.reader.bytes(), b) is Some
					&& idx_spec(self.reader.bytes(), b).unwrap()[(coord.y - b.global_bbox.y_min) * b.global_bbox.w() + (coord.x - b.global_bbox.x_min)].length == 0) }),
//@end
}
} // verus!
fn main() {}
