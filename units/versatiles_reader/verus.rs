// unit versatiles_reader — versatiles_container/src/container/versatiles/reader.rs: single-tile lookup
// (get_tile_data, get_block_tile_index; R5: async erased) over an abstract file, block index and index cache (C16, C19, C03)
use vstd::prelude::*;
use std::mem::swap;
use std::ops::{Div, Rem, Shr};
use std::sync::Arc;
verus! {
//@include common/prelude.vrs
//@include common/tile_bbox.vrs
//@include common/transform.vrs
//@include common/pbf_blob.vrs

#[derive(Clone, Copy, PartialEq, Eq, Debug, Structural)]
//@extract struct file="versatiles_core/src/types/byte_range.rs" name="ByteRange"
//@end
//@extract struct file="versatiles_container/src/container/versatiles/types/block_definition.rs" name="BlockDefinition"
//@end
// trusted: #[derive(Clone)] is field-wise
impl Clone for BlockDefinition { fn clone(&self) -> (r: Self) ensures r == *self {
	BlockDefinition { offset: self.offset, global_bbox: self.global_bbox.clone(), tiles_coverage: self.tiles_coverage.clone(), tiles_range: self.tiles_range, index_range: self.index_range } } }
impl BlockDefinition {
	// what BlockDefinition::from_blob / ::new establish (Kani unit versatiles_codec): a non-empty block box placed at (x*256, y*256)
	pub open spec fn ok(&self) -> bool {
		self.global_bbox.wf() && self.tiles_coverage.wf() && !self.global_bbox.empty()
		&& self.tiles_coverage.w() == self.global_bbox.w() && self.tiles_coverage.h() == self.global_bbox.h()
		&& self.global_bbox.level == self.offset.z
	}
//@extract fn file="versatiles_container/src/container/versatiles/types/block_definition.rs" scope="impl BlockDefinition" name="count_tiles"
//@ret r
//@spec
		requires self.tiles_coverage.wf()
		ensures r == self.tiles_coverage.w() * self.tiles_coverage.h()
//@end
//@extract fn file="versatiles_container/src/container/versatiles/types/block_definition.rs" scope="impl BlockDefinition" name="get_global_bbox"
//@ret r
//@spec
		ensures *r == self.global_bbox
//@end
//@extract fn file="versatiles_container/src/container/versatiles/types/block_definition.rs" scope="impl BlockDefinition" name="get_tiles_range"
//@ret r
//@spec
		ensures *r == self.tiles_range
//@end
//@extract fn file="versatiles_container/src/container/versatiles/types/block_definition.rs" scope="impl BlockDefinition" name="get_index_range"
//@ret r
//@spec
		ensures *r == self.index_range
//@end
//@extract fn file="versatiles_container/src/container/versatiles/types/block_definition.rs" scope="impl BlockDefinition" name="get_coord3"
//@ret r
//@spec
		ensures *r == self.offset
//@end
}

//@extract struct file="versatiles_container/src/container/versatiles/types/tile_index.rs" name="TileIndex"
//@end
impl TileIndex {
//@extract fn file="versatiles_container/src/container/versatiles/types/tile_index.rs" scope="impl TileIndex" name="get"
//@ret r
//@spec
		requires index < self.index@.len()
		ensures *r == self.index@[index as int]
//@end
//@extract fn file="versatiles_container/src/container/versatiles/types/tile_index.rs" scope="impl TileIndex" name="len"
//@ret r
//@spec
		ensures r == self.index@.len()
//@end
	// decoding + decompression of a tile index: any index or an error (the record loop and brotli are not under contract here)
	#[verifier::external_body]
	pub fn from_brotli_blob(buf: Blob) -> (r: Result<TileIndex, VErr>) { unimplemented!() }
	// iter_mut().for_each(..): re-bases every offset, keeps the number of entries
	#[verifier::external_body]
	pub fn add_offset(&mut self, offset: u64) ensures final(self).index@.len() == old(self).index@.len() { unimplemented!() }
}

// R6 stand-ins: DataReader -> AbsFile; BlockIndex (HashMap<TileCoord3, BlockDefinition>) -> AbsBlockIndex;
// Mutex<LimitedCache<TileCoord3, Arc<TileIndex>>> -> AbsIndexCache with the rely/guarantee contract of C20
// (a lookup returns nothing or a value that was stored under exactly that key)
#[verifier::external_body] pub struct AbsFile { }
impl AbsFile {
	pub uninterp spec fn bytes(&self) -> Seq<u8>;
	#[verifier::external_body]
	pub fn read_range(&self, range: &ByteRange) -> (r: Result<Blob, VErr>)
		ensures r is Ok ==> range.offset + range.length <= self.bytes().len() && r.unwrap()@ == self.bytes().subrange(range.offset as int, range.offset + range.length)
	{ unimplemented!() }
}
#[verifier::external_body] pub struct AbsBlockIndex { }
impl AbsBlockIndex {
	pub uninterp spec fn map(&self) -> Map<TileCoord3, BlockDefinition>;
	#[verifier::external_body]
	pub fn get_block(&self, coord: &TileCoord3) -> (r: Option<&BlockDefinition>)
		ensures r is Some <==> self.map().contains_key(*coord), r is Some ==> *r.unwrap() == self.map()[*coord]
	{ unimplemented!() }
}
#[verifier::external_body] pub struct AbsIndexCache { }
#[verifier::external_body] pub struct AbsCacheGuard { }
impl AbsIndexCache {
	// number of tiles the index of block k must have (ghost; fixed when the reader is opened)
	pub uninterp spec fn expected(&self, k: TileCoord3) -> int;
	#[verifier::external_body]
	pub fn lock(&self) -> (g: AbsCacheGuard) ensures forall|k: TileCoord3| g.expected(k) == self.expected(k) { unimplemented!() }
}
impl AbsCacheGuard {
	pub uninterp spec fn expected(&self, k: TileCoord3) -> int;
	#[verifier::external_body]
	pub fn get(&mut self, key: &TileCoord3) -> (r: Option<Arc<TileIndex>>)
		ensures forall|k: TileCoord3| final(self).expected(k) == old(self).expected(k), r is Some ==> r.unwrap().index@.len() == old(self).expected(*key)
	{ unimplemented!() }
	#[verifier::external_body]
	pub fn add(&mut self, key: TileCoord3, value: Arc<TileIndex>) -> (r: Arc<TileIndex>)
		requires value.index@.len() == old(self).expected(key)
		ensures forall|k: TileCoord3| final(self).expected(k) == old(self).expected(k), r.index@.len() == old(self).expected(key)
	{ unimplemented!() }
}
#[verifier::external_body] pub struct FileHeader { }
#[verifier::external_body] pub struct TileJSON { }
#[verifier::external_body] pub struct TilesReaderParameters { }

//@extract struct file="versatiles_container/src/container/versatiles/reader.rs" name="VersaTilesReader"
//@rewrite "BlockIndex" => "AbsBlockIndex"
//@rewrite "DataReader" => "AbsFile"
//@rewrite "Mutex<LimitedCache<TileCoord3, Arc<TileIndex>>>" => "AbsIndexCache"
//@end
impl VersaTilesReader {
	pub open spec fn inv(&self) -> bool {
		forall|k: TileCoord3| #[trigger] self.block_index.map().contains_key(k) ==> {
			let b = self.block_index.map()[k];
			b.ok() && b.offset == k && self.tile_index_cache.expected(k) == b.tiles_coverage.w() * b.tiles_coverage.h() }
	}
//@extract fn file="versatiles_container/src/container/versatiles/reader.rs" scope="impl VersaTilesReader" name="get_block_tile_index"
//@ret r
//@spec
		requires block.ok(), self.tile_index_cache.expected(block.offset) == block.tiles_coverage.w() * block.tiles_coverage.h()
		// an index with exactly one entry per tile of the block, or an error (never a panic: C19)
		ensures r is Ok ==> r.unwrap().index@.len() == block.tiles_coverage.w() * block.tiles_coverage.h()
//@end
//@extract fn file="versatiles_container/src/container/versatiles/reader.rs" scope="impl TilesReaderTrait for VersaTilesReader" name="get_tile_data"
//@rewrite "coord.x.shr(8)" => "(coord.x >> 8)" R7
//@rewrite "coord.y.shr(8)" => "(coord.y >> 8)" R7
//@ret r
//@spec
		// any coordinate: a tile, nothing, or an error
		requires self.inv()
		ensures r is Ok && r.unwrap() is Some ==> ({
			// the tile lies in the block (x >> 8, y >> 8, z) of the (possibly sparse) block index and inside that block's box
			let k = TileCoord3 { x: coord.x >> 8, y: coord.y >> 8, z: coord.z };
			self.block_index.map().contains_key(k) && self.block_index.map()[k].global_bbox.has(coord.x as int, coord.y as int) }),
//@end
}
} // verus!
fn main() {}
