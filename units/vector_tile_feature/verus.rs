// unit vector_tile_feature — versatiles_geometry vector_tile/feature.rs: the feature message codec against the Mapbox
// Vector Tile specification 2.1, section 4.2 (C11, C10, C19)
use vstd::prelude::*;
verus! {
//@include common/prelude.vrs
//@include common/byte_io.vrs
//@include common/pbf_spec.vrs
//@include common/pbf_blob.vrs
//@include common/pbf_reader.vrs
//@include common/pbf_writer.vrs

#[derive(Clone, Copy, PartialEq, Eq, Structural)]
//@extract enum file="versatiles_geometry/src/vector_tile/geometry_type.rs" name="GeomType"
//@end
pub open spec fn geom_code(g: GeomType) -> nat { match g { GeomType::Unknown => 0, GeomType::MultiPoint => 1, GeomType::MultiLineString => 2, GeomType::MultiPolygon => 3 } }
impl GeomType {
	// trusted: `*self as u64` is the declared discriminant
	#[verifier::external_body]
	pub fn as_u64(&self) -> (r: u64) ensures r == geom_code(*self) { unimplemented!() }
}
//@extract fn file="versatiles_geometry/src/vector_tile/geometry_type.rs" scope="impl From<u64> for GeomType" name="from" as="geom_type_from"
//@rewrite "Self" => "GeomType"
//@ret r
//@spec
	ensures value <= 3 ==> geom_code(r) == value, value > 3 ==> r == GeomType::Unknown
//@end

//@extract struct file="versatiles_geometry/src/vector_tile/feature.rs" name="VectorTileFeature"
//@end
impl VectorTileFeature {
	pub fn default() -> (r: VectorTileFeature)
		ensures r.id is None, r.tag_ids@.len() == 0, r.geom_type == GeomType::Unknown, r.geom_data@.len() == 0
	{ VectorTileFeature { id: None, tag_ids: Vec::new(), geom_type: GeomType::Unknown, geom_data: Blob::new_empty() } }   // verbatim field values of `impl Default`

	// MVT 2.1 §4.2: message Feature { optional uint64 id = 1; repeated uint32 tags = 2 [packed]; optional GeomType type = 3; repeated uint32 geometry = 4 [packed]; }
	pub open spec fn wire(&self) -> Seq<u8> {
		(match self.id { Some(v) => pbf_key(1, 0) + enc(v as nat), None => Seq::<u8>::empty() })
		+ (if self.tag_ids@.len() > 0 { let p = packed_u32(self.tag_ids@, self.tag_ids@.len() as int); pbf_key(2, 2) + enc(p.len() as nat) + p } else { Seq::<u8>::empty() })
		+ pbf_key(3, 0) + enc(geom_code(self.geom_type))
		+ (if self.geom_data@.len() > 0 { pbf_key(4, 2) + enc(self.geom_data@.len() as nat) + self.geom_data@ } else { Seq::<u8>::empty() })
	}

//@extract fn file="versatiles_geometry/src/vector_tile/feature.rs" scope="impl VectorTileFeature" name="to_blob"
//@ret r
//@spec
		// every present field is written, with its value, in field order: id (also id 0), tags, type, geometry
		ensures r is Ok, r.unwrap()@ == self.wire()
//@end
//@extract fn file="versatiles_geometry/src/vector_tile/feature.rs" scope="impl VectorTileFeature" name="read"
//@rewrite "reader: &mut dyn ValueReader<'_, LE>" => "reader: &mut ValueReaderSlice" R6
//@rewrite "GeomType::from(" => "geom_type_from(" R7
//@rewrite "VectorTileFeature::default()" => "VectorTileFeature::default()"
//@ret r
//@spec
		// arbitrary bytes: a feature or an error; no panic, terminates, allocations bounded by the input (C19)
		requires old(reader).wf()
		ensures final(reader).wf(), final(reader).cursor.data@ == old(reader).cursor.data@,
//@loop 1
			invariant reader.wf(), reader.cursor.data@ == old(reader).cursor.data@, reader.len == old(reader).len,
			decreases reader.len - reader.cursor.pos
//@end
}
} // verus!
fn main() {}
