// unit vector_tile_feature — versatiles_geometry vector_tile/feature.rs: the feature message codec against the Mapbox
// Vector Tile specification 2.1, section 4.2 (C11, C10, C19)
use vstd::prelude::*;
verus! {
//@include common/prelude.vrs
//@include common/byte_io.vrs
//@include common/pbf_spec.vrs
//@include common/pbf_blob.vrs
//@include common/pbf_reader.vrs
//@include common/pbf_writer.vrs

//@include common/vt_feature.vrs
} // verus!
fn main() {}
