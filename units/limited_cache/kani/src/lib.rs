// unit limited_cache (Kani) — versatiles_core/src/types/limited_cache.rs (C20)
// Inductive step: from an ARBITRARY cache state satisfying Inv, one symbolic operation re-establishes Inv and satisfies the
// operation's postcondition over the whole view => histories of any length. Bounded in the capacity of the HashMap stand-in (CAP).
#![allow(dead_code, unused_imports, unused_variables, unused_mut)]
use std::{fmt::Debug, hash::Hash, mem::size_of, ops::Div};

#[derive(Debug, Clone, Copy, PartialEq, Eq)]
pub struct VErr;
pub fn verr() -> VErr { VErr }
pub fn vassert(c: bool) { assert!(c); }
pub fn vpanic<A>() -> A { panic!() }

// ---- R6 stand-in for std::collections::HashMap (assumed contract: finite partial map), array backed, capacity CAP
pub const CAP: usize = 4;
pub struct HashMap<K, V> { pub slots: [Option<(K, V)>; CAP] }
pub struct Entry<'a, K, V> { map: &'a mut HashMap<K, V>, key: K }
impl<K: Eq + Clone, V> HashMap<K, V> {
	pub fn new() -> Self { Self { slots: [const { None }; CAP] } }
	pub fn len(&self) -> usize { let mut n = 0; let mut i = 0; while i < CAP { if self.slots[i].is_some() { n += 1; } i += 1; } n }
	fn find(&self, key: &K) -> Option<usize> { let mut i = 0; while i < CAP { if let Some((k, _)) = &self.slots[i] { if k == key { return Some(i); } } i += 1; } None }
	pub fn get(&self, key: &K) -> Option<&V> { match self.find(key) { Some(i) => self.slots[i].as_ref().map(|e| &e.1), None => None } }
	pub fn get_mut(&mut self, key: &K) -> Option<&mut V> { match self.find(key) { Some(i) => self.slots[i].as_mut().map(|e| &mut e.1), None => None } }
	pub fn values(&self) -> impl Iterator<Item = &V> { self.slots.iter().filter_map(|s| s.as_ref().map(|e| &e.1)) }
	pub fn retain<F: FnMut(&K, &mut V) -> bool>(&mut self, mut f: F) { for s in self.slots.iter_mut() { let keep = match s { Some((k, v)) => f(k, v), None => true }; if !keep { *s = None; } } }
	pub fn entry(&mut self, key: K) -> Entry<'_, K, V> { Entry { map: self, key } }
	pub fn contains_key(&self, key: &K) -> bool { self.find(key).is_some() }
}
impl<'a, K: Eq + Clone, V> Entry<'a, K, V> {
	pub fn or_insert(self, default: V) -> &'a mut V {
		let idx = match self.map.find(&self.key) { Some(i) => i, None => {
			let mut free = CAP; let mut i = 0; while i < CAP { if self.map.slots[i].is_none() { free = i; break; } i += 1; }
			assert!(free < CAP, "stand-in map capacity exceeded");
			self.map.slots[free] = Some((self.key, default)); free } };
		&mut self.map.slots[idx].as_mut().unwrap().1
	}
}

//@extract struct file="versatiles_core/src/types/limited_cache.rs" name="LimitedCache"
//@end
impl<K, V> LimitedCache<K, V>
where
	K: Clone + Eq + Hash + PartialEq,
	V: Clone,
{
//@extract fn file="versatiles_core/src/types/limited_cache.rs" scope="impl<K, V> LimitedCache<K, V> where K: Clone + Eq + Hash + PartialEq, V: Clone," name="with_maximum_size"
//@end
//@extract fn file="versatiles_core/src/types/limited_cache.rs" scope="impl<K, V> LimitedCache<K, V> where K: Clone + Eq + Hash + PartialEq, V: Clone," name="get"
//@end
//@extract fn file="versatiles_core/src/types/limited_cache.rs" scope="impl<K, V> LimitedCache<K, V> where K: Clone + Eq + Hash + PartialEq, V: Clone," name="get_or_set"
//@end
//@extract fn file="versatiles_core/src/types/limited_cache.rs" scope="impl<K, V> LimitedCache<K, V> where K: Clone + Eq + Hash + PartialEq, V: Clone," name="add"
//@end
//@extract fn file="versatiles_core/src/types/limited_cache.rs" scope="impl<K, V> LimitedCache<K, V> where K: Clone + Eq + Hash + PartialEq, V: Clone," name="cleanup"
//@end
}

#[cfg(kani)]
mod proofs {
	use super::*;
	type C = LimitedCache<u8, u8>;
	// trusted: <[u64]>::sort_unstable sorts (std sort is intractable for CBMC); stub = insertion sort
	fn sort_stub<T: Ord>(s: &mut [T]) { let n = s.len(); let mut i = 1; while i < n { let mut j = i; while j > 0 && s[j] < s[j - 1] { s.swap(j, j - 1); j -= 1; } i += 1; } }

	fn inv(c: &C) -> bool {
		if !(c.max_length >= 1 && c.max_length <= CAP && c.cache.len() <= c.max_length) { return false; }
		let mut i = 0;
		while i < CAP {
			if let Some((k, (_, s))) = &c.cache.slots[i] {
				if *s > c.last_index { return false; }
				let mut j = 0;
				while j < i {
					if let Some((k2, (_, s2))) = &c.cache.slots[j] {
						if k2 == k { return false; }                      // keys distinct
						if *s != 0 && *s == *s2 { return false; }         // non-zero stamps distinct
					}
					j += 1;
				}
			}
			i += 1;
		}
		true
	}
	fn any_cache() -> C {
		let mut c = LimitedCache { cache: HashMap::new(), max_length: kani::any(), last_index: kani::any() };
		kani::assume(c.last_index < u64::MAX - 8);   // the stamp counter does not overflow (2^64 operations)
		let mut i = 0;
		while i < CAP {
			if kani::any() { c.cache.slots[i] = Some((kani::any(), (kani::any(), kani::any()))); }
			i += 1;
		}
		kani::assume(inv(&c));
		c
	}
	fn view(c: &C, k: u8) -> Option<u8> { c.cache.get(&k).map(|e| e.0) }
	fn stamp(c: &C, k: u8) -> Option<u64> { c.cache.get(&k).map(|e| e.1) }

	// harness: kind=bounded bound="capacity <= 4 (HashMap stand-in), keys/values u8; history length unbounded (inductive step)" tier=quick props=C20 fn=LimitedCache::with_maximum_size timeout=900
	#[kani::proof]
	#[kani::unwind(6)]
	fn cache_base_case() {
		let n: usize = kani::any();
		kani::assume(n >= 2 && n / 2 <= CAP);
		let c: C = LimitedCache::with_maximum_size(n);
		assert!(inv(&c) && c.cache.len() == 0 && c.max_length == n / 2);
	}

	// harness: kind=bounded bound="capacity <= 4 (HashMap stand-in), keys/values u8; history length unbounded (inductive step)" tier=quick props=C20 fn=LimitedCache::get timeout=900
	#[kani::proof]
	#[kani::unwind(6)]
	fn cache_step_get() {
		let mut c = any_cache();
		let k: u8 = kani::any(); let probe: u8 = kani::any();
		let before_k = view(&c, k); let before_p = view(&c, probe); let stamp_p = stamp(&c, probe);
		let old_last = c.last_index; let old_len = c.cache.len();
		let r = c.get(&k);
		assert!(inv(&c));
		assert!(r == before_k);                                   // nothing, or the value stored under exactly that key
		assert!(view(&c, probe) == before_p && c.cache.len() == old_len);   // the view is unchanged
		if probe != k { assert!(stamp(&c, probe) == stamp_p); }  // only k's stamp changes ...
		if r.is_some() { assert!(stamp(&c, k) == Some(c.last_index) && c.last_index == old_last + 1); }   // ... to the fresh maximum
	}

	// harness: kind=bounded bound="capacity <= 4 (HashMap stand-in), keys/values u8; history length unbounded (inductive step)" tier=quick props=C20 fn=LimitedCache::add,LimitedCache::cleanup timeout=1800
	#[kani::proof]
	#[kani::unwind(6)]
	#[kani::stub(<[u64]>::sort_unstable, sort_stub)]
	fn cache_step_add() {
		let mut c = any_cache();
		let probe: u8 = kani::any();
		let before_p = view(&c, probe);
		let k: u8 = kani::any(); let v: u8 = kani::any();
		let before_k = view(&c, k);
		let r = c.add(k, v);
		assert!(inv(&c));                                                          // in particular len <= max_length
		if let Some(x) = view(&c, probe) { assert!(Some(x) == before_p || (probe == k && x == v)); }   // transparency over the whole view
		assert!(view(&c, k) == Some(r));                                           // k is present and the returned value is the stored one
		assert!(r == v || Some(r) == before_k);
	}

	// harness: kind=bounded bound="capacity <= 4 (HashMap stand-in), keys/values u8; history length unbounded (inductive step)" tier=quick props=C20 fn=LimitedCache::get_or_set timeout=1800
	#[kani::proof]
	#[kani::unwind(6)]
	#[kani::stub(<[u64]>::sort_unstable, sort_stub)]
	fn cache_step_get_or_set() {
		let mut c = any_cache();
		let k: u8 = kani::any(); let probe: u8 = kani::any();
		let before_k = view(&c, k); let before_p = view(&c, probe);
		let loader_ok: bool = kani::any(); let loaded: u8 = kani::any();
		let mut called = false;
		let r = c.get_or_set(&k, || { called = true; if loader_ok { Ok(loaded) } else { Err(verr()) } });
		assert!(inv(&c));
		match before_k {
			Some(x) => { assert!(r == Ok(x) && !called); assert!(view(&c, probe) == before_p); }              // hit: stored value, loader not called
			None => { assert!(called);
				if loader_ok { assert!(r == Ok(loaded) && view(&c, k) == Some(loaded)); }                      // miss: the computed value, now stored
				else { assert!(r.is_err() && view(&c, probe) == before_p); } }                                  // failing loader: Err, view unchanged
		}
		if let Some(x) = view(&c, probe) { assert!(Some(x) == before_p || (probe == k && loader_ok && x == loaded)); }
	}

	// harness: kind=bounded bound="capacity <= 4 (HashMap stand-in), keys/values u8; history length unbounded (inductive step)" tier=quick props=C20 fn=LimitedCache::add,LimitedCache::cleanup,LimitedCache::get timeout=1800
	#[kani::proof]
	#[kani::unwind(6)]
	#[kani::stub(<[u64]>::sort_unstable, sort_stub)]
	fn cache_just_used_survives() {
		let mut c = any_cache();
		kani::assume(c.max_length >= 2);          // with capacity 1 the next insertion necessarily replaces the only entry
		let k: u8 = kani::any();
		if kani::any() { kani::assume(c.get(&k).is_some()); }              // k was just used by a lookup ...
		else { kani::assume(view(&c, k).is_none()); c.add(k, kani::any()); }   // ... or just inserted
		let k2: u8 = kani::any(); kani::assume(k2 != k);
		c.add(k2, kani::any());                                             // the next (possibly evicting) operation
		assert!(c.cache.contains_key(&k));
	}

	// harness: kind=canary expect=fail tier=quick props=C20 timeout=900
	#[kani::proof]
	#[kani::unwind(6)]
	#[kani::stub(<[u64]>::sort_unstable, sort_stub)]
	fn cache_canary_must_fail() {
		let mut c = any_cache();
		let old_len = c.cache.len();
		c.add(kani::any(), kani::any());
		assert!(c.cache.len() == old_len + 1);   // wrong on purpose: ignores replacement and eviction
	}
}
