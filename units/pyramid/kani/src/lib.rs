// unit pyramid (Kani) — TileBBoxPyramid: every operation applied per level agrees with the set law (C15, C03, C06, C09)
// All 32 levels are symbolic; loops are bounded by the constant MAX_ZOOM_LEVEL = 32, so unwind(34) with
// unwinding assertions is complete. Function bodies come from /repo on every run (//@extract).
#![allow(dead_code, unused_imports, unused_variables, unused_mut)]
use std::array::from_fn;
use std::mem::swap;

#[derive(Debug, Clone, Copy, PartialEq, Eq)]
pub struct VErr;
pub fn verr() -> VErr { VErr }
pub fn vassert(c: bool) { assert!(c); }
pub fn vpanic<A>() -> A { panic!() }
pub type GeoBBoxUnused = ();

// trusted: 2^e for e <= 31 (std integer pow; CBMC would unroll the square-and-multiply loop)
pub fn pow2u32(e: u32) -> u32 { 1u32 << e }

//@rewrite "2u32.pow(level as u32)" => "pow2u32(level as u32)" R7
//@rewrite "Result<TileBBox, VErr>" => "Result<TileBBox, VErr>"

//@extract const file="versatiles_core/src/types/tile_bbox_pyramid.rs" name="MAX_ZOOM_LEVEL"
//@end
#[derive(Clone, Copy, PartialEq, Eq, Debug)]
//@extract struct file="versatiles_core/src/types/tile_coords.rs" name="TileCoord3"
//@end
#[derive(Clone, PartialEq, Eq, Debug)]
#[cfg_attr(kani, derive(kani::Arbitrary))]
//@extract struct file="versatiles_core/src/types/tile_bbox.rs" name="TileBBox"
//@end
#[derive(Clone)]
//@extract struct file="versatiles_core/src/types/tile_bbox_pyramid.rs" name="TileBBoxPyramid"
//@end

impl TileBBox {
//@extract fn file="versatiles_core/src/types/tile_bbox.rs" scope="impl TileBBox" name="new"
//@end
//@extract fn file="versatiles_core/src/types/tile_bbox.rs" scope="impl TileBBox" name="new_full"
//@end
//@extract fn file="versatiles_core/src/types/tile_bbox.rs" scope="impl TileBBox" name="new_empty"
//@end
//@extract fn file="versatiles_core/src/types/tile_bbox.rs" scope="impl TileBBox" name="is_empty"
//@end
//@extract fn file="versatiles_core/src/types/tile_bbox.rs" scope="impl TileBBox" name="width"
//@end
//@extract fn file="versatiles_core/src/types/tile_bbox.rs" scope="impl TileBBox" name="height"
//@end
//@extract fn file="versatiles_core/src/types/tile_bbox.rs" scope="impl TileBBox" name="count_tiles"
//@end
//@extract fn file="versatiles_core/src/types/tile_bbox.rs" scope="impl TileBBox" name="contains3"
//@end
//@extract fn file="versatiles_core/src/types/tile_bbox.rs" scope="impl TileBBox" name="set_empty"
//@end
//@extract fn file="versatiles_core/src/types/tile_bbox.rs" scope="impl TileBBox" name="include_coord"
//@end
//@extract fn file="versatiles_core/src/types/tile_bbox.rs" scope="impl TileBBox" name="add_border"
//@end
//@extract fn file="versatiles_core/src/types/tile_bbox.rs" scope="impl TileBBox" name="include_bbox"
//@end
//@extract fn file="versatiles_core/src/types/tile_bbox.rs" scope="impl TileBBox" name="intersect_bbox"
//@end
//@extract fn file="versatiles_core/src/types/tile_bbox.rs" scope="impl TileBBox" name="overlaps_bbox"
//@end
//@extract fn file="versatiles_core/src/utils/transform_coord.rs" scope="impl TransformCoord for TileBBox" name="flip_y"
//@end
//@extract fn file="versatiles_core/src/utils/transform_coord.rs" scope="impl TransformCoord for TileBBox" name="swap_xy"
//@end
}

impl TileBBoxPyramid {
//@extract fn file="versatiles_core/src/types/tile_bbox_pyramid.rs" scope="impl TileBBoxPyramid" name="new_full"
//@end
//@extract fn file="versatiles_core/src/types/tile_bbox_pyramid.rs" scope="impl TileBBoxPyramid" name="new_empty"
//@end
//@extract fn file="versatiles_core/src/types/tile_bbox_pyramid.rs" scope="impl TileBBoxPyramid" name="add_border"
//@end
//@extract fn file="versatiles_core/src/types/tile_bbox_pyramid.rs" scope="impl TileBBoxPyramid" name="intersect"
//@end
//@extract fn file="versatiles_core/src/types/tile_bbox_pyramid.rs" scope="impl TileBBoxPyramid" name="get_level_bbox"
//@end
//@extract fn file="versatiles_core/src/types/tile_bbox_pyramid.rs" scope="impl TileBBoxPyramid" name="set_level_bbox"
//@end
//@extract fn file="versatiles_core/src/types/tile_bbox_pyramid.rs" scope="impl TileBBoxPyramid" name="include_coord"
//@end
//@extract fn file="versatiles_core/src/types/tile_bbox_pyramid.rs" scope="impl TileBBoxPyramid" name="include_bbox"
//@end
//@extract fn file="versatiles_core/src/types/tile_bbox_pyramid.rs" scope="impl TileBBoxPyramid" name="include_bbox_pyramid"
//@end
//@extract fn file="versatiles_core/src/types/tile_bbox_pyramid.rs" scope="impl TileBBoxPyramid" name="contains_coord"
//@end
//@extract fn file="versatiles_core/src/types/tile_bbox_pyramid.rs" scope="impl TileBBoxPyramid" name="overlaps_bbox"
//@end
//@extract fn file="versatiles_core/src/types/tile_bbox_pyramid.rs" scope="impl TileBBoxPyramid" name="iter_levels"
//@end
//@extract fn file="versatiles_core/src/types/tile_bbox_pyramid.rs" scope="impl TileBBoxPyramid" name="get_zoom_min"
//@end
//@extract fn file="versatiles_core/src/types/tile_bbox_pyramid.rs" scope="impl TileBBoxPyramid" name="get_zoom_max"
//@end
//@extract fn file="versatiles_core/src/types/tile_bbox_pyramid.rs" scope="impl TileBBoxPyramid" name="set_zoom_min"
//@end
//@extract fn file="versatiles_core/src/types/tile_bbox_pyramid.rs" scope="impl TileBBoxPyramid" name="set_zoom_max"
//@end
//@extract fn file="versatiles_core/src/types/tile_bbox_pyramid.rs" scope="impl TileBBoxPyramid" name="count_tiles"
//@end
//@extract fn file="versatiles_core/src/types/tile_bbox_pyramid.rs" scope="impl TileBBoxPyramid" name="is_empty"
//@end
//@extract fn file="versatiles_core/src/utils/transform_coord.rs" scope="impl TransformCoord for TileBBoxPyramid" name="swap_xy"
//@end
//@extract fn file="versatiles_core/src/utils/transform_coord.rs" scope="impl TransformCoord for TileBBoxPyramid" name="flip_y"
//@end
}
impl PartialEq for TileBBoxPyramid {
//@extract fn file="versatiles_core/src/types/tile_bbox_pyramid.rs" scope="impl PartialEq for TileBBoxPyramid" name="eq"
//@end
}

// ---------------------------------------------------------------------------------------------
// harness-level contracts (oracle: operations on sets of tile coordinates)
#[cfg(kani)]
mod proofs {
	use super::*;

	fn has(b: &TileBBox, x: u32, y: u32) -> bool { x >= b.x_min && x <= b.x_max && y >= b.y_min && y <= b.y_max }
	fn empty(b: &TileBBox) -> bool { b.x_max < b.x_min || b.y_max < b.y_min }
	fn wf(b: &TileBBox, z: usize) -> bool {
		z < 32 && b.level as usize == z && b.max == ((1u64 << z) - 1) as u32 && b.x_max <= b.max && b.y_max <= b.max
	}
	fn any_pyramid() -> TileBBoxPyramid {
		// every well-formed pyramid: level i has level = i and max = 2^i - 1 (concrete), any corner coordinates with x_max, y_max <= max
		let mut p = TileBBoxPyramid { level_bbox: from_fn(|i| TileBBox { level: i as u8, max: ((1u64 << i) - 1) as u32, x_min: 0, y_min: 0, x_max: 0, y_max: 0 }) };
		let mut i = 0;
		while i < 32 {
			let b = &mut p.level_bbox[i];
			b.x_min = kani::any(); b.y_min = kani::any(); b.x_max = kani::any(); b.y_max = kani::any();
			kani::assume(b.x_max <= b.max && b.y_max <= b.max);
			i += 1;
		}
		p
	}
	fn any_wf_bbox() -> TileBBox {
		let b: TileBBox = kani::any();
		kani::assume(b.level < 32);
		kani::assume(wf(&b, b.level as usize));
		b
	}
	fn probe() -> (usize, u32, u32) {
		let z: usize = kani::any(); kani::assume(z < 32);
		(z, kani::any(), kani::any())
	}

	// harness: kind=complete why="32 levels is the constant MAX_ZOOM_LEVEL" tier=quick props=C15,C03,C06,C09 fn=TileBBoxPyramid::intersect timeout=900
	#[kani::proof]
	#[kani::unwind(34)]
	fn pyr_intersect() {
		let mut a = any_pyramid(); let b = any_pyramid();
		let old = a.clone();
		a.intersect(&b);
		let (z, x, y) = probe();
		kani::cover!(has(&old.level_bbox[z], x, y) && has(&b.level_bbox[z], x, y));
		assert!(has(&a.level_bbox[z], x, y) == (has(&old.level_bbox[z], x, y) && has(&b.level_bbox[z], x, y)));
		assert!(wf(&a.level_bbox[z], z));
	}

	// harness: kind=complete why="32 levels is the constant MAX_ZOOM_LEVEL" tier=quick props=C15,C06,C09 fn=TileBBoxPyramid::new_full,TileBBoxPyramid::new_empty timeout=900
	#[kani::proof]
	#[kani::unwind(34)]
	fn pyr_new_full_new_empty() {
		let maxz: u8 = kani::any();
		let p = TileBBoxPyramid::new_full(maxz);
		let e = TileBBoxPyramid::new_empty();
		let (z, x, y) = probe();
		let side = 1u64 << z;
		assert!(has(&p.level_bbox[z], x, y) == (z <= maxz as usize && (x as u64) < side && (y as u64) < side));
		assert!(wf(&p.level_bbox[z], z) && wf(&e.level_bbox[z], z));
		assert!(empty(&e.level_bbox[z]) && !has(&e.level_bbox[z], x, y));
	}

	// harness: kind=complete why="32 levels is the constant MAX_ZOOM_LEVEL" tier=quick props=C15,C06,C09 fn=TileBBoxPyramid::set_zoom_min,TileBBoxPyramid::set_zoom_max,TileBBoxPyramid::get_zoom_min,TileBBoxPyramid::get_zoom_max timeout=900
	#[kani::proof]
	#[kani::unwind(34)]
	fn pyr_zoom_limits() {
		let mut a = any_pyramid();
		let old = a.clone();
		let lo: u8 = kani::any(); let hi: u8 = kani::any();
		a.set_zoom_min(lo);
		a.set_zoom_max(hi);
		let (z, x, y) = probe();
		assert!(has(&a.level_bbox[z], x, y) == (has(&old.level_bbox[z], x, y) && z >= lo as usize && z <= hi as usize));
		assert!(wf(&a.level_bbox[z], z));
		// get_zoom_min / get_zoom_max: least / greatest non-empty level
		match old.get_zoom_min() {
			None => assert!(empty(&old.level_bbox[z])),
			Some(m) => { assert!((m as usize) < 32 && !empty(&old.level_bbox[m as usize])); if z < m as usize { assert!(empty(&old.level_bbox[z])); } }
		}
		match old.get_zoom_max() {
			None => assert!(empty(&old.level_bbox[z])),
			Some(m) => { assert!((m as usize) < 32 && !empty(&old.level_bbox[m as usize])); if z > m as usize { assert!(empty(&old.level_bbox[z])); } }
		}
	}

	// harness: kind=complete why="32 levels is the constant MAX_ZOOM_LEVEL" tier=quick props=C15,C03 fn=TileBBoxPyramid::include_coord,TileBBoxPyramid::contains_coord timeout=900
	#[kani::proof]
	#[kani::unwind(34)]
	fn pyr_include_contains_coord() {
		let mut a = any_pyramid();
		let old = a.clone();
		let c = TileCoord3 { x: kani::any(), y: kani::any(), z: kani::any() };
		// contains_coord is total (any z)
		let r = old.contains_coord(&c);
		assert!(r == ((c.z as usize) < 32 && has(&old.level_bbox[(c.z as usize) % 32], c.x, c.y)));
		// include_coord: coordinates of the level only (TileCoord3::new guarantees z <= 31)
		kani::assume(c.z < 32);
		let cz = c.z as usize;
		kani::assume(c.x <= old.level_bbox[cz].max && c.y <= old.level_bbox[cz].max);
		a.include_coord(&c);
		let (z, x, y) = probe();
		if z != cz {
			assert!(a.level_bbox[z] == old.level_bbox[z]);
		} else {
			let o = &old.level_bbox[z];
			let expect = if empty(o) { x == c.x && y == c.y } else {
				x >= o.x_min.min(c.x) && x <= o.x_max.max(c.x) && y >= o.y_min.min(c.y) && y <= o.y_max.max(c.y) };
			assert!(has(&a.level_bbox[z], x, y) == expect);
			assert!(a.contains_coord(&c));
		}
		assert!(wf(&a.level_bbox[z], z));
	}

	// (include_bbox_pyramid: CBMC ended with a resource failure for two symbolic pyramids at 12, 24 and 46 GB, and also for an argument with
	// only two non-empty levels; the method is proved by Verus in unit pyramid_real instead, the level-wise law is `pyr_include_bbox` below)
	// harness: kind=complete why="32 levels is the constant MAX_ZOOM_LEVEL" tier=thorough props=C15,C03,C08 fn=TileBBoxPyramid::include_bbox timeout=1800 mem=24
	#[kani::proof]
	#[kani::unwind(34)]
	fn pyr_include_bbox() {
		let old = any_pyramid();
		let (z, x, y) = probe();
		let o = &old.level_bbox[z];
		let mut c = old.clone();
		let bb = any_wf_bbox();
		c.include_bbox(&bb);
		if z != bb.level as usize { assert!(c.level_bbox[z] == old.level_bbox[z]); } else {
			let expect2 = if empty(&bb) { has(o, x, y) } else if empty(o) { has(&bb, x, y) } else {
				x >= o.x_min.min(bb.x_min) && x <= o.x_max.max(bb.x_max) && y >= o.y_min.min(bb.y_min) && y <= o.y_max.max(bb.y_max) };
			assert!(has(&c.level_bbox[z], x, y) == expect2);
		}
		assert!(wf(&c.level_bbox[z], z));
	}

	// harness: kind=complete why="32 levels is the constant MAX_ZOOM_LEVEL" tier=thorough props=C15,C06 fn=TileBBoxPyramid::add_border timeout=1800
	#[kani::proof]
	#[kani::unwind(34)]
	fn pyr_add_border() {
		let mut a = any_pyramid();
		let old = a.clone();
		let (bx0, by0, bx1, by1): (u32, u32, u32, u32) = kani::any();
		a.add_border(bx0, by0, bx1, by1);
		let (z, x, y) = probe();
		let o = &old.level_bbox[z];
		let expect = !empty(o)
			&& (x as i64) >= o.x_min as i64 - bx0 as i64 && (x as i64) <= o.x_max as i64 + bx1 as i64 && x <= o.max
			&& (y as i64) >= o.y_min as i64 - by0 as i64 && (y as i64) <= o.y_max as i64 + by1 as i64 && y <= o.max;
		assert!(has(&a.level_bbox[z], x, y) == expect);
		assert!(wf(&a.level_bbox[z], z));
	}

	// harness: kind=complete why="32 levels is the constant MAX_ZOOM_LEVEL" tier=thorough props=C15,C06 fn=TransformCoord_for_TileBBoxPyramid::flip_y,TransformCoord_for_TileBBoxPyramid::swap_xy timeout=1800
	#[kani::proof]
	#[kani::unwind(34)]
	fn pyr_flip_swap() {
		let mut a = any_pyramid();
		let old = a.clone();
		let (z, x, y) = probe();
		let mx = old.level_bbox[z].max;
		kani::assume(x <= mx && y <= mx);
		a.flip_y();
		assert!(has(&a.level_bbox[z], x, y) == has(&old.level_bbox[z], x, mx - y));
		assert!(wf(&a.level_bbox[z], z));
		a.flip_y();
		assert!(has(&a.level_bbox[z], x, y) == has(&old.level_bbox[z], x, y));
		let mut b = old.clone();
		b.swap_xy();
		assert!(has(&b.level_bbox[z], x, y) == has(&old.level_bbox[z], y, x));
		assert!(wf(&b.level_bbox[z], z));
		b.swap_xy();
		assert!(has(&b.level_bbox[z], x, y) == has(&old.level_bbox[z], x, y));
	}

	// harness: kind=complete why="32 levels is the constant MAX_ZOOM_LEVEL" tier=thorough props=C15 fn=TileBBoxPyramid::is_empty,TileBBoxPyramid::overlaps_bbox,PartialEq_for_TileBBoxPyramid::eq timeout=1800
	#[kani::proof]
	#[kani::unwind(34)]
	fn pyr_is_empty_overlaps_eq() {
		let a = any_pyramid(); let b = any_pyramid();
		let (z, x, y) = probe();
		if a.is_empty() { assert!(!has(&a.level_bbox[z], x, y)); }
		else { let w: usize = kani::any(); kani::assume(w < 32); kani::cover!(!empty(&a.level_bbox[w])); }
		if has(&a.level_bbox[z], x, y) { assert!(!a.is_empty()); }
		// overlaps_bbox: total in the level of the argument
		let bb: TileBBox = kani::any();
		let r = a.overlaps_bbox(&bb);
		if (bb.level as usize) >= 32 { assert!(!r); } else {
			let l = &a.level_bbox[bb.level as usize];
			if has(l, x, y) && has(&bb, x, y) { assert!(r); }
			if r { assert!(!empty(l) && !empty(&bb) && l.x_min.max(bb.x_min) <= l.x_max.min(bb.x_max) && l.y_min.max(bb.y_min) <= l.y_max.min(bb.y_max)); }
		}
		// eq: equal pyramids denote the same sets, different sets are unequal
		let e = a == b;
		if e { assert!(has(&a.level_bbox[z], x, y) == has(&b.level_bbox[z], x, y)); }
		if has(&a.level_bbox[z], x, y) != has(&b.level_bbox[z], x, y) { assert!(!e); }
	}

	// harness: kind=complete why="32 levels is the constant MAX_ZOOM_LEVEL" tier=thorough props=C15 fn=TileBBoxPyramid::count_tiles timeout=2400
	#[kani::proof]
	#[kani::unwind(34)]
	fn pyr_count_tiles() {
		let a = any_pyramid();
		let n = a.count_tiles();
		let mut s: u128 = 0;
		let mut i = 0;
		while i < 32 {
			let b = &a.level_bbox[i];
			let w = if b.x_max < b.x_min { 0u128 } else { (b.x_max - b.x_min) as u128 + 1 };
			let h = if b.y_max < b.y_min { 0u128 } else { (b.y_max - b.y_min) as u128 + 1 };
			s += w * h;
			i += 1;
		}
		assert!(n as u128 == s);
	}

	// harness: kind=canary expect=fail tier=quick props=C15,C03,C06,C09 timeout=600
	#[kani::proof]
	#[kani::unwind(34)]
	fn pyr_canary_must_fail() {
		let mut a = any_pyramid(); let b = any_pyramid();
		let old = a.clone();
		a.intersect(&b);
		let (z, x, y) = probe();
		// wrong law on purpose: intersection claimed to equal the left operand
		assert!(has(&a.level_bbox[z], x, y) == has(&old.level_bbox[z], x, y));
	}
}
