// unit vector_tile_layer — versatiles_geometry vector_tile/layer.rs::read and tile.rs::from_blob: decoding a layer / a tile
// message (C11: tables are built positionally, one entry per record; C19: arbitrary bytes give a value or an error)
use vstd::prelude::*;
use std::collections::HashMap;
use std::hash::Hash;
use std::fmt::Debug;
use std::ops::Div;
use vstd::std_specs::hash::*;
verus! {
//@include common/prelude.vrs
//@include common/byte_io.vrs
//@include common/pbf_spec.vrs
//@include common/pbf_blob.vrs
//@include common/pbf_reader.vrs
//@include common/pbf_writer.vrs
//@include common/vt_tables.vrs
//@include common/vt_feature.vrs

impl ValueReaderSlice {
	// R7 stand-ins on top of the verified readers: a PBF string as an opaque key; a GeoValue sub-message as an opaque value
	#[verifier::external_body]
	pub fn read_pbf_absstr(&mut self) -> (r: Result<AbsStr, VErr>)
		requires old(self).wf()
		ensures final(self).wf(), final(self).cursor.data@ == old(self).cursor.data@, final(self).len == old(self).len, final(self).cursor.pos >= old(self).cursor.pos,
	{ unimplemented!() }
}
// GeoValue::read: decodes one value sub-message (value typing is not under contract): any value or an error
#[verifier::external_body]
pub fn geo_value_read(reader: &mut ValueReaderSlice) -> (r: Result<GeoValue, VErr>) { unimplemented!() }

//@extract struct file="versatiles_geometry/src/vector_tile/layer.rs" name="VectorTileLayer"
//@rewrite "String" => "AbsStr"
//@end
impl PropertyManager {
//@extract fn file="versatiles_geometry/src/vector_tile/property_manager.rs" scope="impl PropertyManager" name="new"
//@rewrite "VTLPMap::default()" => "vtlpmap_default()" R7
//@ret r
//@spec
		requires obeys_key_model::<AbsStr>(), obeys_key_model::<GeoValue>()
		ensures r.inv(), r.key.list@.len() == 0, r.val.list@.len() == 0
//@end
}
// VTLPMap::default() = VTLPMap::new(vec![]): an empty table (the iterator chain of `new` is not under contract)
pub fn vtlpmap_default<T: Clone + Eq + Hash>() -> (r: VTLPMap<T>)
	requires obeys_key_model::<T>()
	ensures r.inv(), r.list@.len() == 0
{ VTLPMap { list: Vec::new(), map: HashMap::new() } }

// a one-byte key: the byte 0x1a decodes to (field 3, wire type 2), 0x22 to (field 4, wire type 2)
pub proof fn lemma_key_byte(d: Seq<u8>, p: int)
	requires 0 <= p < d.len()
	ensures d[p] == 0x1a ==> d[p] & 0x80 == 0 && ((dec_groups(d, p, 1) >> 3) as u32 == 3 && (dec_groups(d, p, 1) & 0x07) as u8 == 2),
		d[p] == 0x22 ==> d[p] & 0x80 == 0 && ((dec_groups(d, p, 1) >> 3) as u32 == 4 && (dec_groups(d, p, 1) & 0x07) as u8 == 2),
{
	let b = d[p];
	assert(dec_groups(d, p, 0) == 0);
	assert(dec_groups(d, p, 1) == 0u64 | (((b as u64) & 0x7F) << 0u64));
	assert(b == 0x1a ==> b & 0x80 == 0 && (((0u64 | (((b as u64) & 0x7F) << 0u64)) >> 3) as u32 == 3) && ((0u64 | (((b as u64) & 0x7F) << 0u64)) & 0x07) as u8 == 2) by (bit_vector);
	assert(b == 0x22 ==> b & 0x80 == 0 && (((0u64 | (((b as u64) & 0x7F) << 0u64)) >> 3) as u32 == 4) && ((0u64 | (((b as u64) & 0x7F) << 0u64)) & 0x07) as u8 == 2) by (bit_vector);
}

impl VectorTileLayer {
//@extract fn file="versatiles_geometry/src/vector_tile/layer.rs" scope="impl VectorTileLayer" name="read"
//@rewrite "reader: &mut dyn ValueReader<'_, LE>" => "reader: &mut ValueReaderSlice" R6
//@rewrite "VectorTileFeature::read( reader .get_pbf_sub_reader()? .as_mut(), )" => "VectorTileFeature::read(&mut reader.get_pbf_sub_reader()?)" R7
//@rewrite "GeoValue::read( reader .get_pbf_sub_reader()? .as_mut(), )" => "geo_value_read(&mut reader.get_pbf_sub_reader()?)" R7
//@rewrite "reader.read_pbf_string()" => "reader.read_pbf_absstr()" R7
//@rewrite "name: name .ok_or(verr())?" => "name: opt_ok_or(name)?" R7
//@ret r
//@spec
		// (tag ids are u32: a layer message of 4 GiB or more cannot be addressed by the format; stated as a precondition)
		requires old(reader).wf(), old(reader).len < u32::MAX, obeys_key_model::<AbsStr>(), obeys_key_model::<GeoValue>()
		ensures final(reader).wf(), final(reader).cursor.data@ == old(reader).cursor.data@,
			r is Ok ==> r.unwrap().property_manager.inv(),
//@loop 1
			invariant reader.wf(), reader.cursor.data@ == old(reader).cursor.data@, reader.len == old(reader).len, reader.len < u32::MAX,
				property_manager.inv(),
				property_manager.key.list@.len() + property_manager.val.list@.len() <= reader.cursor.pos,
			decreases reader.len - reader.cursor.pos
//@loopstart 1
			let ghost kl0 = property_manager.key.list@;
			let ghost vl0 = property_manager.val.list@;
			let ghost first = reader.cursor.data@[reader.cursor.pos as int];
			proof { lemma_key_byte(reader.cursor.data@, reader.cursor.pos as int); }
//@loopend 1
			// MVT 2.1 §4.1: field 3 (wire type 2, key byte 0x1a) is one entry of `keys`, field 4 (key byte 0x22) one entry of `values`:
			// every such record appends exactly one table entry at the next position — also when an equal entry exists already
			proof {
				assert(first == 0x1a ==> property_manager.key.list@.len() == kl0.len() + 1 && property_manager.key.list@.subrange(0, kl0.len() as int) =~= kl0 && property_manager.val.list@ == vl0);
				assert(first == 0x22 ==> property_manager.val.list@.len() == vl0.len() + 1 && property_manager.val.list@.subrange(0, vl0.len() as int) =~= vl0 && property_manager.key.list@ == kl0);
			}
//@end
}
//@extract struct file="versatiles_geometry/src/vector_tile/tile.rs" name="VectorTile"
//@end
impl VectorTile {
	pub fn default() -> (r: VectorTile) ensures r.layers@.len() == 0 { VectorTile { layers: Vec::new() } }   // #[derive(Default)]
//@extract fn file="versatiles_geometry/src/vector_tile/tile.rs" scope="impl VectorTile" name="from_blob"
//@rewrite "ValueReaderSlice::new_le(blob.as_slice())" => "ValueReaderSlice::new_le_from(blob)" R7
//@rewrite "VectorTileLayer::read( reader .get_pbf_sub_reader()? .as_mut(), )" => "VectorTileLayer::read(&mut reader.get_pbf_sub_reader()?)" R7
//@ret r
//@spec
		// arbitrary bytes (< 4 GiB): a tile or an error; never a panic, terminates (C19)
		requires blob@.len() < u32::MAX, obeys_key_model::<AbsStr>(), obeys_key_model::<GeoValue>()
//@loop 1
			invariant reader.wf(), reader.len < u32::MAX, obeys_key_model::<AbsStr>(), obeys_key_model::<GeoValue>(),
			decreases reader.len - reader.cursor.pos
//@end
}
impl ValueReaderSlice {
	// ValueReaderSlice::new_le(blob.as_slice()): a reader over the blob's bytes, positioned at 0
	#[verifier::external_body]
	pub fn new_le_from(blob: &Blob) -> (r: ValueReaderSlice) ensures r.wf(), r.cursor.pos == 0, r.cursor.data@ == blob@, r.len == blob@.len() { unimplemented!() }
}
} // verus!
#[derive(Clone, PartialEq, Eq, Hash, Debug)] pub struct AbsStr { s: String }
#[derive(Clone, PartialEq, Eq, Hash, Debug)] pub struct GeoValue { v: u8 }
fn main() {}
