// unit merged — versatiles_pipeline operations/read/from_vectortiles_merged.rs: build (parameter part) and get_tile_data (C10):
// the output tile exists exactly when at least one source has a tile; what is merged are the source tiles, decoded with their
// source's compression, in source order; the output is declared uncompressed. (merge_tiles itself: its layer re-indexing core is
// unit vector_tile_merge; its HashMap-by-name loop is not under contract and appears here as a function of the blob list.)
use vstd::prelude::*;
use std::mem::swap;
use std::ops::{Div, Rem};
verus! {
//@include common/prelude.vrs
//@include common/tile_bbox.vrs
//@include common/transform.vrs
//@include common/pbf_blob.vrs
//@include common/compression.vrs
//@include common/pyramid_abs.vrs
//@include common/source_abs.vrs

#[verifier::external_body] pub struct VPLNode { }
#[verifier::external_body] pub struct PipelineFactory { }
// R9 stand-in: an unconstrained value of the declared type
#[verifier::external_body] pub fn vhavoc<T>() -> T { unimplemented!() }
//@rewrite "Box<dyn OperationTrait>" => "AbsSource"
#[verifier::external_body] pub struct Args { }
impl Args { #[verifier::external_body] pub fn from_vpl_node(n: &VPLNode) -> (r: Result<Args, VErr>) { unimplemented!() } }
//@extract struct file="versatiles_pipeline/src/operations/read/from_vectortiles_merged.rs" name="Operation"
//@end

// R6 stand-in for merge_tiles (same file): a function of the list of (decoded) source tiles, or an error
pub uninterp spec fn merged(blobs: Seq<Seq<u8>>) -> Seq<u8>;
pub open spec fn blob_views(v: Seq<Blob>) -> Seq<Seq<u8>> { Seq::new(v.len(), |i: int| v[i]@) }
#[verifier::external_body]
pub fn merge_tiles(blobs: Vec<Blob>) -> (r: Result<Blob, VErr>) ensures r is Ok ==> r.unwrap()@ == merged(blob_views(blobs@)) { unimplemented!() }

impl Operation {
	// the decoded tiles of the first k sources that have a tile at c, in source order
	pub open spec fn inputs(&self, c: TileCoord3, k: int) -> Seq<Seq<u8>> decreases k {
		if k <= 0 { Seq::empty() } else {
			let s = self.sources@[k - 1];
			match s.tile_at(c) { Some(t) => self.inputs(c, k - 1).push(decode(s.params().tile_compression, t).unwrap()), None => self.inputs(c, k - 1) } }
	}
//@extract fn file="versatiles_pipeline/src/operations/read/from_vectortiles_merged.rs" scope="impl ReadOperationTrait for Operation" name="build"
//@rewrite "BoxFuture<'_, Result<AbsSource, anyhow::Error>>" => "Result<Operation, VErr>"
//@rewrite "where Self: Sized + OperationTrait," => ""
//@rewrite "Ok(Box::new(Self {" => "Ok((Self {"
//@rewrite "}) as AbsSource)" => "}))"
//@havoc "let sources =" type="Vec<AbsSource>"
//@ret r
//@spec
		ensures r is Ok ==> ({ let op = r.unwrap(); let s = op.sources@;
			s.len() >= 2
			// declared and delivered uncompressed, vector tiles
			&& op.parameters.tile_compression == TileCompression::Uncompressed && op.parameters.tile_format == TileFormat::PBF
			&& op.parameters.bbox_pyramid.wf()
			// advertised coverage contains the coverage of every source
			&& (forall|i: int, z: int, x: int, y: int| 0 <= i < s.len() && 0 <= z < 32 && (#[trigger] s[i].params().bbox_pyramid.level(z).has(x, y)) ==> op.parameters.bbox_pyramid.level(z).has(x, y)) }),
//@loop 1 iter=it
				invariant pyramid.wf(), sources@.len() >= 2, tile_compression == TileCompression::Uncompressed,
					it.index@ > 0 ==> tile_format == TileFormat::PBF,
					forall|j: int, z: int, x: int, y: int| 0 <= j < it.index@ && 0 <= z < 32 && (#[trigger] sources@[j].params().bbox_pyramid.level(z).has(x, y)) ==> pyramid.level(z).has(x, y),
//@end
//@extract fn file="versatiles_pipeline/src/operations/read/from_vectortiles_merged.rs" scope="impl OperationTrait for Operation" name="get_parameters"
//@ret r
//@spec
		ensures *r == self.parameters
//@end
//@extract fn file="versatiles_pipeline/src/operations/read/from_vectortiles_merged.rs" scope="impl OperationTrait for Operation" name="get_tile_data"
//@rewrite "vec![]" => "Vec::new()" R7 optional
//@ret r
//@spec
		ensures r is Ok ==> (match r.unwrap() {
				// no tile exactly when no source has one
				None => forall|i: int| 0 <= i < self.sources@.len() ==> (#[trigger] self.sources@[i]).tile_at(*coord) is None,
				// otherwise: the merge of the sources' tiles, each decoded with its source's compression, in source order
				Some(b) => (exists|i: int| 0 <= i < self.sources@.len() && (#[trigger] self.sources@[i]).tile_at(*coord) is Some)
					&& b@ == merged(self.inputs(*coord, self.sources@.len() as int)),
			}),
//@loop 1 iter=it
			invariant blob_views(blobs@) =~= self.inputs(*coord, it.index@ as int),
				blobs@.len() == 0 <==> forall|j: int| 0 <= j < it.index@ ==> (#[trigger] self.sources@[j]).tile_at(*coord) is None,
//@end
}
} // verus!
fn main() {}
