// unit tile_converter (Kani) — recompression pipeline of versatiles_container + utils::compression on the real text,
// codecs replaced by *tagging* stand-ins (compress_X prepends tag X, decompress_X strips it or fails): C04, C05, C08.
// All (source, target, force) combinations are enumerated symbolically; payload bounded (<= 2 bytes): the code never inspects it.
#![allow(dead_code, unused_imports, unused_variables, unused_mut)]
use std::sync::Arc;

#[derive(Debug, Clone, Copy, PartialEq, Eq)]
pub struct VErr;
pub fn verr() -> VErr { VErr }
pub fn vassert(c: bool) { assert!(c); }
pub fn vpanic<A>() -> A { panic!() }
pub fn vformat() -> String { String::new() }

// R6 stand-in: Blob = owned bytes (versatiles_core::types::Blob wraps a Vec<u8>); fixed capacity keeps CBMC cheap
pub const CAP: usize = 6;
#[derive(Clone, Copy, Debug)]
pub struct Blob { pub data: [u8; CAP], pub n: usize }
impl PartialEq for Blob { fn eq(&self, o: &Blob) -> bool { if self.n != o.n { return false; } let mut i = 0; while i < CAP { if i < self.n && self.data[i] != o.data[i] { return false; } i += 1; } true } }
impl Blob {
	pub fn len(&self) -> u64 { self.n as u64 }
	pub fn is_empty(&self) -> bool { self.n == 0 }
	pub fn from_payload(p: &[u8; 2], n: usize) -> Blob { let mut d = [0u8; CAP]; d[0] = p[0]; d[1] = p[1]; Blob { data: d, n } }
	fn push_front(&self, tag: u8) -> Blob { assert!(self.n < CAP); let mut d = [0u8; CAP]; d[0] = tag; let mut i = 0; while i + 1 < CAP { d[i + 1] = self.data[i]; i += 1; } Blob { data: d, n: self.n + 1 } }
	fn pop_front(&self) -> Blob { let mut d = [0u8; CAP]; let mut i = 0; while i + 1 < CAP { d[i] = self.data[i + 1]; i += 1; } Blob { data: d, n: self.n - 1 } }
}
const TAG_GZIP: u8 = 0x1f;
const TAG_BROTLI: u8 = 0xb0;
// assumed codec contract (DESIGN §2.3): decompress_X(compress_X(b)) = b; decompress_X fails on foreign data
pub fn compress_gzip(b: &Blob) -> Result<Blob, VErr> { Ok(b.push_front(TAG_GZIP)) }
pub fn compress_brotli(b: &Blob) -> Result<Blob, VErr> { Ok(b.push_front(TAG_BROTLI)) }
pub fn decompress_gzip(b: &Blob) -> Result<Blob, VErr> { if b.n > 0 && b.data[0] == TAG_GZIP { Ok(b.pop_front()) } else { Err(VErr) } }
pub fn decompress_brotli(b: &Blob) -> Result<Blob, VErr> { if b.n > 0 && b.data[0] == TAG_BROTLI { Ok(b.pop_front()) } else { Err(VErr) } }

// R6 stand-in for enumset::EnumSet<TileCompression>: a 3-bit set
#[derive(Clone, Copy, PartialEq, Eq, Debug)]
pub struct AbsSet(pub u8);
impl AbsSet {
	pub fn is_empty(&self) -> bool { self.0 & 7 == 0 }
	pub fn contains(&self, c: TileCompression) -> bool { self.0 & (1 << (c as u8)) != 0 }
}

#[derive(Clone, Copy, PartialEq, Eq, Debug)]
#[cfg_attr(kani, derive(kani::Arbitrary))]
//@extract enum file="versatiles_core/src/types/tile_compression.rs" name="TileCompression"
//@end
#[derive(Clone, Copy, PartialEq, Eq, Debug)]
#[cfg_attr(kani, derive(kani::Arbitrary))]
//@extract enum file="versatiles_core/src/utils/compression.rs" name="CompressionGoal"
//@end
//@extract struct file="versatiles_core/src/utils/compression.rs" name="TargetCompression"
//@rewrite "EnumSet<TileCompression>" => "AbsSet"
//@end
//@extract fn file="versatiles_core/src/utils/compression.rs" scope="top" name="optimize_compression"
//@end
//@extract fn file="versatiles_core/src/utils/compression.rs" scope="top" name="recompress"
//@end
//@extract fn file="versatiles_core/src/utils/compression.rs" scope="top" name="compress"
//@end
//@extract fn file="versatiles_core/src/utils/compression.rs" scope="top" name="decompress"
//@end

#[derive(Clone, Debug)]
//@extract enum file="versatiles_container/src/container/tile_converter.rs" name="FnConv"
//@end
#[derive(Clone)]
//@extract struct file="versatiles_container/src/container/tile_converter.rs" name="TileConverter"
//@end
impl FnConv {
//@extract fn file="versatiles_container/src/container/tile_converter.rs" scope="impl FnConv" name="run"
//@end
}
impl TileConverter {
//@extract fn file="versatiles_container/src/container/tile_converter.rs" scope="impl TileConverter" name="new_empty"
//@end
//@extract fn file="versatiles_container/src/container/tile_converter.rs" scope="impl TileConverter" name="is_empty"
//@end
//@extract fn file="versatiles_container/src/container/tile_converter.rs" scope="impl TileConverter" name="new_tile_recompressor"
//@end
//@extract fn file="versatiles_container/src/container/tile_converter.rs" scope="impl TileConverter" name="new_decompressor"
//@end
//@extract fn file="versatiles_container/src/container/tile_converter.rs" scope="impl TileConverter" name="push"
//@end
//@extract fn file="versatiles_container/src/container/tile_converter.rs" scope="impl TileConverter" name="process_blob"
//@end
}

#[cfg(kani)]
mod proofs {
	use super::*;
	// oracle from the property statement: the payload a blob denotes under a declared compression
	fn decode(c: TileCompression, b: &Blob) -> Option<Blob> {
		match c {
			TileCompression::Uncompressed => Some(*b),
			TileCompression::Gzip => if b.n > 0 && b.data[0] == TAG_GZIP { Some(b.pop_front()) } else { None },
			TileCompression::Brotli => if b.n > 0 && b.data[0] == TAG_BROTLI { Some(b.pop_front()) } else { None },
		}
	}
	fn any_payload() -> Blob {
		let n: usize = kani::any(); kani::assume(n <= 2);
		let p: [u8; 2] = kani::any();
		Blob::from_payload(&p, n)
	}
	fn encode(c: TileCompression, p: &Blob) -> Blob {
		match c { TileCompression::Uncompressed => *p, TileCompression::Gzip => compress_gzip(p).unwrap(), TileCompression::Brotli => compress_brotli(p).unwrap() }
	}

	// harness: kind=bounded bound="payload <= 2 bytes; all 3x3x2 (source, target, force) pipelines" tier=quick props=C04,C05 fn=TileConverter::new_tile_recompressor,TileConverter::process_blob,FnConv::run,TileConverter::push timeout=900 twin=compression::process_blob
	#[kani::proof]
	#[kani::unwind(8)]
	fn recompressor_preserves_payload() {
		let src: TileCompression = kani::any(); let dst: TileCompression = kani::any(); let force: bool = kani::any();
		let payload = any_payload();
		let stored = encode(src, &payload);
		let conv = TileConverter::new_tile_recompressor(&src, &dst, force).unwrap();
		assert!(conv.is_empty() == ((!force && src == dst) || (src == TileCompression::Uncompressed && dst == TileCompression::Uncompressed)));
		let out = conv.process_blob(stored).unwrap();
		assert!(decode(dst, &out) == Some(payload));
		if !force && src == dst { assert!(out == stored); }
		let dec = TileConverter::new_decompressor(&src);
		assert!(dec.process_blob(stored).unwrap() == payload);
	}

	// harness: kind=bounded bound="payload <= 2 bytes; all (stored, allowed set, goal) = 72 negotiation cases" tier=quick props=C05,C04 fn=optimize_compression timeout=900 twin=compression::optimize_compression
	#[kani::proof]
	#[kani::unwind(8)]
	fn negotiation_72_cases() {
		let stored_c: TileCompression = kani::any(); let goal: CompressionGoal = kani::any();
		let set = AbsSet(kani::any::<u8>() & 7);
		let payload = any_payload();
		let stored = encode(stored_c, &payload);
		let target = TargetCompression { compressions: set, compression_goal: goal };
		let r = optimize_compression(stored, &stored_c, &target);
		if !set.contains(TileCompression::Uncompressed) { assert!(r.is_err()); }
		else {
			let (out, c) = r.unwrap();
			assert!(set.contains(c));
			assert!(decode(c, &out) == Some(payload));
			if goal == CompressionGoal::IsIncompressible { assert!((c == stored_c && out == stored) || c == TileCompression::Uncompressed); }
			if goal != CompressionGoal::UseBestCompression && set.contains(stored_c) { assert!(c == stored_c && out == stored); }
			if goal == CompressionGoal::UseBestCompression && set.contains(TileCompression::Brotli) { assert!(c == TileCompression::Brotli); }
		}
	}

	// harness: kind=bounded bound="payload <= 2 bytes; all 3x3 (input, output) pairs" tier=quick props=C04,C08 fn=recompress,compress,decompress timeout=900 twin=compression::recompress
	#[kani::proof]
	#[kani::unwind(8)]
	fn recompress_preserves_payload() {
		let a: TileCompression = kani::any(); let b: TileCompression = kani::any();
		let payload = any_payload();
		let stored = encode(a, &payload);
		let out = recompress(stored, &a, &b).unwrap();
		assert!(decode(b, &out) == Some(payload));
	}

	// harness: kind=canary expect=fail tier=quick props=C04,C05,C08 timeout=600
	#[kani::proof]
	#[kani::unwind(8)]
	fn tile_converter_canary_must_fail() {
		let a: TileCompression = kani::any(); let b: TileCompression = kani::any();
		let payload = any_payload();
		let out = recompress(encode(a, &payload), &a, &b).unwrap();
		assert!(decode(a, &out) == Some(payload));   // wrong on purpose: decoded with the *input* compression
	}
}
