// unit tile_bbox_iter (Kani, bounded) — TileBBox::{iter_coords, into_iter_coords, iter_bbox_grid}: row-major enumeration and
// the split into an aligned grid is a partition (C15; used by C01 C08). Iterator adapters (itertools) are outside Verus.
#![allow(dead_code, unused_imports, unused_variables, unused_mut)]
use itertools::Itertools;

#[derive(Debug, Clone, Copy, PartialEq, Eq)]
pub struct VErr;
pub fn verr() -> VErr { VErr }
pub fn vassert(c: bool) { assert!(c); }
pub fn vpanic<A>() -> A { panic!() }
pub fn pow2u32(e: u32) -> u32 { 1u32 << e }
//@rewrite "2u32.pow(level as u32)" => "pow2u32(level as u32)" R7

#[derive(Clone, Copy, PartialEq, Eq, Debug)]
//@extract struct file="versatiles_core/src/types/tile_coords.rs" name="TileCoord3"
//@end
#[derive(Clone, PartialEq, Eq, Debug)]
//@extract struct file="versatiles_core/src/types/tile_bbox.rs" name="TileBBox"
//@end
impl TileCoord3 {
//@extract fn file="versatiles_core/src/types/tile_coords.rs" scope="impl TileCoord3" name="new"
//@end
}
impl TileBBox {
//@extract fn file="versatiles_core/src/types/tile_bbox.rs" scope="impl TileBBox" name="new"
//@end
//@extract fn file="versatiles_core/src/types/tile_bbox.rs" scope="impl TileBBox" name="is_empty"
//@end
//@extract fn file="versatiles_core/src/types/tile_bbox.rs" scope="impl TileBBox" name="set_empty"
//@end
//@extract fn file="versatiles_core/src/types/tile_bbox.rs" scope="impl TileBBox" name="intersect_bbox"
//@end
//@extract fn file="versatiles_core/src/types/tile_bbox.rs" scope="impl TileBBox" name="scale_down"
//@end
//@extract fn file="versatiles_core/src/types/tile_bbox.rs" scope="impl TileBBox" name="iter_coords"
//@end
//@extract fn file="versatiles_core/src/types/tile_bbox.rs" scope="impl TileBBox" name="into_iter_coords"
//@end
//@extract fn file="versatiles_core/src/types/tile_bbox.rs" scope="impl TileBBox" name="iter_bbox_grid"
//@end
}

#[cfg(kani)]
mod proofs {
	use super::*;
	fn has(b: &TileBBox, x: u32, y: u32) -> bool { x >= b.x_min && x <= b.x_max && y >= b.y_min && y <= b.y_max }
	fn any_box() -> TileBBox {
		let level: u8 = kani::any(); kani::assume(level <= 31);
		let b = TileBBox::new(level, kani::any(), kani::any(), kani::any(), kani::any());
		kani::assume(b.is_ok()); b.unwrap()
	}
	// harness: kind=bounded bound="boxes of at most 3 x 3 tiles at any offset and level" tier=thorough props=C15,C01 fn=TileBBox::iter_coords,TileBBox::into_iter_coords timeout=2400
	#[kani::proof]
	#[kani::unwind(12)]
	fn iter_coords_is_row_major() {
		let b = any_box();
		kani::assume(b.x_max - b.x_min <= 2 && b.y_max - b.y_min <= 2);
		let w = b.x_max - b.x_min + 1; let h = b.y_max - b.y_min + 1;
		let mut n = 0u32;
		for c in b.iter_coords() {
			// row-major: the n-th coordinate is (x_min + n % w, y_min + n / w): every tile exactly once, in index order
			assert!(c.z == b.level && c.x == b.x_min + n % w && c.y == b.y_min + n / w);
			n += 1;
		}
		assert!(n == w * h);
		let mut m = 0u32;
		for c in b.clone().into_iter_coords() { assert!(c.x == b.x_min + m % w && c.y == b.y_min + m / w && c.z == b.level); m += 1; }
		assert!(m == w * h);
	}
	fn grid_partition(size: u32) {
		let b = any_box();
		kani::assume(b.x_max / size - b.x_min / size <= 1 && b.y_max / size - b.y_min / size <= 1);   // at most 2 x 2 cells
		let (px, py): (u32, u32) = kani::any();
		let mut hits = 0u32;
		for cell in b.iter_bbox_grid(size) {
			assert!(!cell.is_empty() && cell.level == b.level);
			assert!(cell.x_min / size == cell.x_max / size && cell.y_min / size == cell.y_max / size);   // inside one aligned cell
			assert!(cell.x_min >= b.x_min && cell.x_max <= b.x_max && cell.y_min >= b.y_min && cell.y_max <= b.y_max);
			if has(&cell, px, py) { hits += 1; }
		}
		assert!(hits == if has(&b, px, py) { 1 } else { 0 });    // a partition: every tile of the box in exactly one cell, nothing else
	}
	// harness: kind=bounded bound="grid size 256 (the versatiles block grid), boxes spanning at most 2 x 2 cells, any level/offset" tier=thorough props=C15,C01 fn=TileBBox::iter_bbox_grid timeout=2400
	#[kani::proof]
	#[kani::unwind(7)]
	fn grid_partition_256() { grid_partition(256); }
	// harness: kind=bounded bound="grid size 32 (overlay / merge sub-boxes), boxes spanning at most 2 x 2 cells, any level/offset" tier=thorough props=C15,C08 fn=TileBBox::iter_bbox_grid timeout=2400
	#[kani::proof]
	#[kani::unwind(7)]
	fn grid_partition_32() { grid_partition(32); }
	// an empty box in ANY encoding (inverted on either axis, as set_empty / intersect_bbox of disjoint boxes leave it; fields are public)
	fn grid_of_empty_box(size: u32) {
		let level: u8 = kani::any(); kani::assume(level <= 31);
		let max = ((1u64 << level) - 1) as u32;
		let b = TileBBox { level, max, x_min: kani::any(), y_min: kani::any(), x_max: kani::any(), y_max: kani::any() };
		kani::assume(b.x_max <= max && b.y_max <= max);
		kani::assume(b.x_min > b.x_max || b.y_min > b.y_max);
		kani::assume(b.x_max / size <= b.x_min / size + 1 && b.y_max / size <= b.y_min / size + 1);   // at most 2 x 2 candidate cells
		let mut cells = 0u32;
		for _cell in b.iter_bbox_grid(size) { cells += 1; }
		assert!(cells == 0);    // no cell, and no panic on the way
	}
	// harness: kind=bounded bound="grid size 32, empty boxes in any encoding whose corner fields span at most 2 x 2 cells, any level" tier=quick props=C15,C08,C02 fn=TileBBox::iter_bbox_grid timeout=1200
	#[kani::proof]
	#[kani::unwind(7)]
	fn grid_of_empty_box_32() { grid_of_empty_box(32); }
	// harness: kind=canary expect=fail tier=quick props=C15,C08,C02 timeout=900
	#[kani::proof]
	#[kani::unwind(7)]
	fn grid_quick_canary_must_fail() {
		let b = TileBBox::new(6, 30, 30, 33, 33).unwrap();
		let mut cells = 0u32;
		for _cell in b.iter_bbox_grid(32) { cells += 1; }
		assert!(cells == 0);   // wrong on purpose: the box touches four cells
	}
	// harness: kind=canary expect=fail tier=thorough props=C15 timeout=1800
	#[kani::proof]
	#[kani::unwind(7)]
	fn tile_bbox_iter_canary_must_fail() {
		let b = any_box();
		kani::assume(b.x_max / 256 - b.x_min / 256 <= 1 && b.y_max / 256 - b.y_min / 256 <= 1);
		let mut cells = 0u32;
		for cell in b.iter_bbox_grid(256) { cells += 1; }
		assert!(cells == 1);   // wrong on purpose
	}
}
