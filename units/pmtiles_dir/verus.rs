// unit pmtiles_dir — PMTiles v3 directory: binary search with run-length / leaf fall-through (find_tile) and the
// column layout of the serialized directory (serialize_entries), against the PMTiles v3 specification (C16, C01, C19)
use vstd::prelude::*;
use std::cmp::Ordering;
verus! {
//@include common/prelude.vrs
//@include common/byte_io.vrs
//@include common/pbf_spec.vrs
//@include common/pbf_blob.vrs
//@include common/pbf_writer.vrs
//@include common/compression.vrs

#[derive(Clone, Copy, PartialEq, Eq, Debug, Structural)]
//@extract struct file="versatiles_core/src/types/byte_range.rs" name="ByteRange"
//@end
#[derive(Clone, Copy, PartialEq, Eq, Debug, Structural)]
//@extract struct file="versatiles_container/src/container/pmtiles/types/entry_v3.rs" name="EntryV3"
//@end
//@extract struct file="versatiles_container/src/container/pmtiles/types/entries_v3.rs" name="EntriesV3"
//@end
//@extract struct file="versatiles_container/src/container/pmtiles/types/entries_v3.rs" name="EntriesSliceV3"
//@end

// ---- the PMTiles v3 rules (spec section "Directories"), independent of this code's writer
//@include common/pmtiles_dir_spec.vrs
impl EntriesV3 {
//@extract fn file="versatiles_container/src/container/pmtiles/types/entries_v3.rs" scope="impl EntriesV3" name="find_tile"
//@ret r
//@spec
		// (a Vec of 32-byte entries holds at most isize::MAX / 32 elements: std allocation guarantee, part of the type invariant)
		requires sorted(self.entries@), self.entries@.len() <= 0x03ff_ffff_ffff_ffff
		ensures
			match r {
				Some(e) => exists|i: int| #![trigger self.entries@[i]] 0 <= i < self.entries@.len() && self.entries@[i] == e && covers(e, tile_id)
					&& (self.entries@[i].tile_id == tile_id || is_last_le(self.entries@, i, tile_id)),
				None => forall|i: int| #![trigger self.entries@[i]] is_last_le(self.entries@, i, tile_id) ==> !covers(self.entries@[i], tile_id),
			},
//@start
		broadcast use vstd::laws_cmp::group_laws_cmp;
//@loop 1
			invariant
				0 <= m <= self.entries@.len(), -1 <= n < self.entries@.len(),
				m <= n + 1,
				sorted(self.entries@), self.entries@.len() <= 0x03ff_ffff_ffff_ffff,
				forall|i: int| 0 <= i < m ==> self.entries@[i].tile_id < tile_id,
				forall|i: int| n < i < self.entries@.len() ==> self.entries@[i].tile_id > tile_id,
			decreases n - m + 1
//@at "let k = (n + m) >> 1;"
			let ghost sum = (n + m) as i64;
//@after "let k = (n + m) >> 1;"
			proof { assert(k == sum / 2) by (bit_vector) requires k == sum >> 1, 0 <= sum; assert(m <= k <= n); }
//@after "let entry_id = self.entries[k as usize].tile_id;"
			proof { assert(entry_id == self.entries@[k as int].tile_id); }
//@at "if n >= 0"
		proof {
			if n >= 0 { assert(is_last_le(self.entries@, n as int, tile_id)); }
			assert forall|i: int| #![trigger self.entries@[i]] is_last_le(self.entries@, i, tile_id) implies (n >= 0 && i == n) by {
				if n >= 0 { if i < n { assert(self.entries@[n as int].tile_id > tile_id); } } else { assert(self.entries@[i].tile_id > tile_id); }
			}
		}
//@end
}

impl<'a> EntriesSliceV3<'a> {
//@extract fn file="versatiles_container/src/container/pmtiles/types/entries_v3.rs" scope="impl EntriesSliceV3<'_>" name="len"
//@ret r
//@spec
		ensures r == self.entries@.len()
//@end
//@extract fn file="versatiles_container/src/container/pmtiles/types/entries_v3.rs" scope="impl EntriesSliceV3<'_>" name="serialize_entries"
//@ret r
//@spec
		requires sorted(self.entries@), ranges_ok(self.entries@)
		ensures r is Ok, r.unwrap()@ == directory_bytes(self.entries@)
//@at "let mut last_id: u64 = 0;"
		let ghost s = self.entries@;
		let ghost b0 = writer.sink.buf@;
//@loop 1 iter=it1
			invariant entries@ == s, sorted(s), writer.sink.buf@ == b0 + col_ids(s, it1.index@ as int),
				last_id == (if it1.index@ >= 1 { s[it1.index@ - 1].tile_id } else { 0 }),
//@loop 2 iter=it2
			invariant entries@ == s, writer.sink.buf@ == b0 + col_ids(s, s.len() as int) + col_runs(s, it2.index@ as int),
//@loop 3 iter=it3
			invariant entries@ == s, writer.sink.buf@ == b0 + col_ids(s, s.len() as int) + col_runs(s, s.len() as int) + col_lens(s, it3.index@ as int),
//@loop 4 iter=it4
			invariant entries@ == s, ranges_ok(s), writer.sink.buf@ == b0 + col_ids(s, s.len() as int) + col_runs(s, s.len() as int) + col_lens(s, s.len() as int) + col_offs(s, it4.index@ as int),
//@end
}

impl ByteRange {
//@extract fn file="versatiles_core/src/types/byte_range.rs" scope="impl ByteRange" name="new"
//@ret r
//@spec
		ensures r.offset == offset, r.length == length
//@end
}
impl EntryV3 {
//@extract fn file="versatiles_container/src/container/pmtiles/types/entry_v3.rs" scope="impl EntryV3" name="new"
//@ret r
//@spec
		ensures r.tile_id == tile_id, r.range == range, r.run_length == run_length
//@end
}
impl EntriesV3 {
//@extract fn file="versatiles_container/src/container/pmtiles/types/entries_v3.rs" scope="impl EntriesV3" name="new"
//@ret r
//@spec
		ensures r.entries@.len() == 0
//@end
//@extract fn file="versatiles_container/src/container/pmtiles/types/entries_v3.rs" scope="impl EntriesV3" name="push"
//@spec
		ensures final(self).entries@ == old(self).entries@.push(entry)
//@end
//@extract fn file="versatiles_container/src/container/pmtiles/types/entries_v3.rs" scope="impl EntriesV3" name="as_slice"
//@ret r
//@spec
		ensures r.entries@ == self.entries@
//@end
}
impl<'a> EntriesSliceV3<'a> {
	// R7 stand-in for `self.slice(idx..end)` = `&self.entries[idx..end]` (std range indexing)
	#[verifier::external_body]
	pub fn slice_range(&self, a: usize, b: usize) -> (r: EntriesSliceV3<'_>)
		requires a <= b <= self.entries@.len()
		ensures r.entries@ == self.entries@.subrange(a as int, b as int)
	{ unimplemented!() }
//@extract fn file="versatiles_container/src/container/pmtiles/types/entries_v3.rs" scope="impl EntriesSliceV3<'_>" name="get"
//@rewrite "self.entries.get(index).unwrap()" => "&self.entries[index]" R7
//@ret r
//@spec
		requires index < self.entries@.len()
		ensures *r == self.entries@[index as int]
//@end
}
//@extract struct file="versatiles_container/src/container/pmtiles/types/directory_v3.rs" name="Directory"
//@end

// leaf j of a directory split into leaves of `l` entries: the entries j*l .. min((j+1)*l, n)
pub open spec fn leaf_of(s: Seq<EntryV3>, l: int, j: int) -> Seq<EntryV3> {
	s.subrange(j * l, if (j + 1) * l <= s.len() { (j + 1) * l } else { s.len() as int }) }
// statement (PMTiles v3 spec, leaf directories): the root holds one leaf pointer (run_length 0) per leaf, carrying the leaf's
// first tile id and the byte range of the leaf's serialized directory inside the leaf section; the leaves tile the sorted
// entry list without gap or overlap
#[verifier::opaque]
pub open spec fn root_points_to_leaves(s: Seq<EntryV3>, l: int, roots: Seq<EntryV3>, leaves: Seq<u8>, c: TileCompression, k: int) -> bool {
	roots.len() == k && forall|j: int| 0 <= j < k ==> {
		let e = #[trigger] roots[j];
		e.run_length == 0 && e.tile_id == s[j * l].tile_id && e.range.offset + e.range.length <= leaves.len()
		&& decode(c, leaves.subrange(e.range.offset as int, e.range.offset + e.range.length)) == Some(directory_bytes(leaf_of(s, l, j)))
		&& (j > 0 ==> e.range.offset == roots[j - 1].range.offset + roots[j - 1].range.length) && (j == 0 ==> e.range.offset == 0) }
}

//@extract fn file="versatiles_container/src/container/pmtiles/types/entries_v3.rs" scope="impl EntriesV3" name="build_roots_leaves" anydepth="1"
//@rewrite "entries.slice(idx..end)" => "entries.slice_range(idx, end)" R7
//@rewrite "leaves_bytes.write_all(serialized.as_slice())?;" => "vec_extend(&mut leaves_bytes, &serialized.v);" R7
//@rewrite "Blob::from(leaves_bytes)" => "Blob::from_vec(leaves_bytes)" R7
//@ret r
//@spec
	requires sorted(entries.entries@), ranges_ok(entries.entries@), 0 < leaf_size <= 0x1000_0000_0000, entries.entries@.len() <= 0x1000_0000_0000
	ensures r is Ok ==> exists|roots: Seq<EntryV3>| #![trigger directory_bytes(roots)]
			root_points_to_leaves(entries.entries@, leaf_size as int, roots, r.unwrap().leaves_bytes@, *compression, (entries.entries@.len() + leaf_size - 1) / (leaf_size as int))
			&& decode(*compression, r.unwrap().root_bytes@) == Some(directory_bytes(roots)),
//@at "let mut idx: usize = 0;"
	let ghost s = entries.entries@;
	let ghost l = leaf_size as int;
//@loop 1
		invariant entries.entries@ == s, l == leaf_size, 0 < l <= 0x1000_0000_0000, s.len() <= 0x1000_0000_0000, sorted(s), ranges_ok(s),
			idx % leaf_size == 0, idx < s.len() + l, idx == 0 || idx - l < s.len(),
			leaves_bytes@.len() <= 0x7fff_ffff_ffff_ffff,
			root_points_to_leaves(s, l, root_entries.entries@, leaves_bytes@, *compression, idx as int / l), root_entries.entries@.len() == idx as int / l,
			root_entries.entries@.len() > 0 ==> leaves_bytes@.len() == root_entries.entries@.last().range.offset + root_entries.entries@.last().range.length,
			root_entries.entries@.len() == 0 ==> leaves_bytes@.len() == 0,
		decreases s.len() + l - idx
//@at "while idx < entries.len()"
	proof { lemma_rpl_empty(s, l, root_entries.entries@, leaves_bytes@, *compression); }
//@loopstart 1
		let ghost j = idx as int / l;
		let ghost roots0 = root_entries.entries@;
		let ghost leaves0 = leaves_bytes@;
		proof { lemma_mul_div(idx as int, l); }
//@after "let serialized = compress(entries.slice_range(idx, end).serialize_entries()?, compression)?;"
		proof {
			lemma_mul_div(idx as int, l);
			assert((j + 1) * l == j * l + l) by (nonlinear_arith);
			assert(entries.entries@.subrange(idx as int, end as int) =~= leaf_of(s, l, j));
		}
//@loopend 1
		proof {
			vec_len_bound(&leaves_bytes);
			lemma_mul_div_next(idx as int - l, l);
			lemma_rpl_step(s, l, roots0, leaves0, *compression, j, root_entries.entries@, leaves_bytes@, serialized@);
		}
//@at "let root_bytes = compress"
	proof {
		let roots = root_entries.entries@;
		lemma_mul_div(idx as int, l);
		let m = idx as int / l;
		assert((m - 1) * l == m * l - l) by (nonlinear_arith);
		assert(roots.len() == m);
		lemma_roots_sorted(s, l, roots, leaves_bytes@, *compression);
		lemma_ceil_div(s.len() as int, l, idx as int / l);
	}
//@at "Ok(Directory {"
	proof {
		let roots = root_entries.entries@;
		let k = (s.len() + l - 1) / l;
		assert(k == idx as int / l);
		assert(root_points_to_leaves(s, l, roots, leaves_bytes@, *compression, k));
		assert(decode(*compression, root_bytes@) == Some(directory_bytes(roots)));
	}
//@end

pub fn vec_extend(v: &mut Vec<u8>, s: &Vec<u8>) ensures final(v)@ == old(v)@ + s@
{
	let ghost pre = v@;
	let mut i: usize = 0;
	while i < s.len()
		invariant i <= s.len(), v@ == pre + s@.subrange(0, i as int),
		decreases s.len() - i
	{ v.push(s[i]); i += 1; proof { assert(v@ =~= pre + s@.subrange(0, i as int)); } }
	proof { assert(s@.subrange(0, s@.len() as int) =~= s@); }
}
// trusted: a Vec<u8> never holds more than isize::MAX bytes (std allocation guarantee)
#[verifier::external_body]
pub proof fn vec_len_bound(v: &Vec<u8>) ensures v@.len() <= 0x7fff_ffff_ffff_ffff { }
pub proof fn lemma_ceil_div(n: int, l: int, m: int)
	requires l > 0, n >= 0, m >= 0, m * l >= n, m == 0 || (m - 1) * l < n
	ensures (n + l - 1) / l == m
{
	if m == 0 { assert(n == 0) by (nonlinear_arith) requires m == 0, m * l >= n, n >= 0; vstd::arithmetic::div_mod::lemma_basic_div(l - 1, l); }
	else {
		let r = n + l - 1 - m * l;
		assert(0 <= r < l) by (nonlinear_arith) requires m * l >= n, (m - 1) * l < n, r == n + l - 1 - m * l, l > 0;
		assert(n + l - 1 == l * m + r) by (nonlinear_arith) requires r == n + l - 1 - m * l;
		vstd::arithmetic::div_mod::lemma_fundamental_div_mod_converse(n + l - 1, l, m, r);
	}
}
pub proof fn lemma_mul_div(idx: int, l: int)
	requires l > 0, idx >= 0, idx % l == 0
	ensures (idx / l) * l == idx, idx / l >= 0
{ vstd::arithmetic::div_mod::lemma_fundamental_div_mod(idx, l); vstd::arithmetic::mul::lemma_mul_is_commutative(l, idx / l); vstd::arithmetic::div_mod::lemma_div_pos_is_pos(idx, l); }
pub proof fn lemma_mul_div_next(idx: int, l: int)
	requires l > 0, idx >= 0, idx % l == 0
	ensures (idx + l) % l == 0, (idx + l) / l == idx / l + 1
{
	vstd::arithmetic::div_mod::lemma_fundamental_div_mod(idx, l);
	assert(idx + l == l * (idx / l + 1) + 0) by (nonlinear_arith) requires idx == l * (idx / l) + idx % l, idx % l == 0;
	vstd::arithmetic::div_mod::lemma_fundamental_div_mod_converse(idx + l, l, idx / l + 1, 0);
}
pub proof fn lemma_rpl_empty(s: Seq<EntryV3>, l: int, roots: Seq<EntryV3>, leaves: Seq<u8>, c: TileCompression)
	requires roots.len() == 0
	ensures root_points_to_leaves(s, l, roots, leaves, c, 0)
{ reveal(root_points_to_leaves); }
// appending the pointer of leaf j (serialized as `ser`) to the root entries and `ser` to the leaf section
pub proof fn lemma_rpl_step(s: Seq<EntryV3>, l: int, roots0: Seq<EntryV3>, leaves0: Seq<u8>, c: TileCompression, j: int, roots1: Seq<EntryV3>, leaves1: Seq<u8>, ser: Seq<u8>)
	requires root_points_to_leaves(s, l, roots0, leaves0, c, j), j >= 0,
		roots0.len() > 0 ==> leaves0.len() == roots0.last().range.offset + roots0.last().range.length,
		roots0.len() == 0 ==> leaves0.len() == 0,
		roots1.len() == roots0.len() + 1, roots1 == roots0.push(roots1.last()), leaves1 == leaves0 + ser,
		roots1.last().run_length == 0, roots1.last().tile_id == s[j * l].tile_id,
		roots1.last().range.offset == leaves0.len(), roots1.last().range.length == ser.len(),
		decode(c, ser) == Some(directory_bytes(leaf_of(s, l, j))),
	ensures root_points_to_leaves(s, l, roots1, leaves1, c, j + 1),
		leaves1.len() == roots1.last().range.offset + roots1.last().range.length,
{
	reveal(root_points_to_leaves);
	assert forall|i: int| 0 <= i < j + 1 implies ({
		let e = #[trigger] roots1[i];
		e.run_length == 0 && e.tile_id == s[i * l].tile_id && e.range.offset + e.range.length <= leaves1.len()
		&& decode(c, leaves1.subrange(e.range.offset as int, e.range.offset + e.range.length)) == Some(directory_bytes(leaf_of(s, l, i)))
		&& (i > 0 ==> e.range.offset == roots1[i - 1].range.offset + roots1[i - 1].range.length) && (i == 0 ==> e.range.offset == 0) }) by {
		if i < j {
			assert(roots1[i] == roots0[i]);
			let e = roots0[i];
			assert(leaves1.subrange(e.range.offset as int, e.range.offset + e.range.length) =~= leaves0.subrange(e.range.offset as int, e.range.offset + e.range.length));
			if i > 0 { assert(roots1[i - 1] == roots0[i - 1]); }
		} else {
			let e = roots1[i];
			assert(leaves1.subrange(e.range.offset as int, e.range.offset + e.range.length) =~= ser);
			if i > 0 { assert(roots1[i - 1] == roots0.last()); }
		}
	}
}
pub proof fn lemma_roots_sorted(s: Seq<EntryV3>, l: int, roots: Seq<EntryV3>, leaves: Seq<u8>, c: TileCompression)
	requires sorted(s), l > 0, root_points_to_leaves(s, l, roots, leaves, c, roots.len() as int), (roots.len() - 1) * l < s.len() || roots.len() == 0,
		leaves.len() <= 0x7fff_ffff_ffff_ffff
	ensures sorted(roots), ranges_ok(roots)
{
	reveal(root_points_to_leaves);
	assert forall|a: int, b: int| 0 <= a <= b < roots.len() implies roots[a].tile_id <= roots[b].tile_id by {
		assert(a * l <= b * l) by (nonlinear_arith) requires 0 <= a <= b, l > 0;
		assert(b * l <= (roots.len() - 1) * l) by (nonlinear_arith) requires b <= roots.len() - 1, l > 0;
		assert(0 <= a * l) by (nonlinear_arith) requires 0 <= a, l > 0;
	}
}
} // verus!
fn main() {}
