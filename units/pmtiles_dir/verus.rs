// unit pmtiles_dir — PMTiles v3 directory: binary search with run-length / leaf fall-through (find_tile) and the
// column layout of the serialized directory (serialize_entries), against the PMTiles v3 specification (C16, C01, C19)
use vstd::prelude::*;
use std::cmp::Ordering;
verus! {
//@include common/prelude.vrs
//@include common/byte_io.vrs
//@include common/pbf_spec.vrs
//@include common/pbf_blob.vrs
//@include common/pbf_writer.vrs

#[derive(Clone, Copy, PartialEq, Eq, Debug, Structural)]
//@extract struct file="versatiles_core/src/types/byte_range.rs" name="ByteRange"
//@end
#[derive(Clone, Copy, PartialEq, Eq, Debug, Structural)]
//@extract struct file="versatiles_container/src/container/pmtiles/types/entry_v3.rs" name="EntryV3"
//@end
//@extract struct file="versatiles_container/src/container/pmtiles/types/entries_v3.rs" name="EntriesV3"
//@end
//@extract struct file="versatiles_container/src/container/pmtiles/types/entries_v3.rs" name="EntriesSliceV3"
//@end

// ---- the PMTiles v3 rules (spec section "Directories"), independent of this code's writer
pub open spec fn sorted(s: Seq<EntryV3>) -> bool { forall|i: int, j: int| 0 <= i <= j < s.len() ==> s[i].tile_id <= s[j].tile_id }
// an entry with run_length = 0 is a leaf-directory pointer and matches every id from its own on
pub open spec fn covers(e: EntryV3, id: u64) -> bool { e.tile_id <= id && (e.run_length == 0 || id - e.tile_id < e.run_length) }
// the candidate entry for an id is the LAST entry whose tile id is <= id
pub open spec fn is_last_le(s: Seq<EntryV3>, i: int, id: u64) -> bool {
	0 <= i < s.len() && s[i].tile_id <= id && forall|j: int| i < j < s.len() ==> s[j].tile_id > id }

// column layout: n, then n id deltas, n run lengths, n lengths, n offsets (0 = contiguous with the previous entry, else offset + 1)
pub open spec fn col_ids(s: Seq<EntryV3>, k: int) -> Seq<u8> decreases k {
	if k <= 0 { Seq::empty() } else { col_ids(s, k - 1) + enc((s[k - 1].tile_id - (if k >= 2 { s[k - 2].tile_id } else { 0 })) as nat) } }
pub open spec fn col_runs(s: Seq<EntryV3>, k: int) -> Seq<u8> decreases k {
	if k <= 0 { Seq::empty() } else { col_runs(s, k - 1) + enc(s[k - 1].run_length as nat) } }
pub open spec fn col_lens(s: Seq<EntryV3>, k: int) -> Seq<u8> decreases k {
	if k <= 0 { Seq::empty() } else { col_lens(s, k - 1) + enc(s[k - 1].range.length as nat) } }
pub open spec fn off_code(s: Seq<EntryV3>, i: int) -> nat {
	if i > 0 && s[i].range.offset == s[i - 1].range.offset + s[i - 1].range.length { 0 } else { (s[i].range.offset + 1) as nat } }
pub open spec fn col_offs(s: Seq<EntryV3>, k: int) -> Seq<u8> decreases k {
	if k <= 0 { Seq::empty() } else { col_offs(s, k - 1) + enc(off_code(s, k - 1)) } }
pub open spec fn directory_bytes(s: Seq<EntryV3>) -> Seq<u8> {
	let n = s.len() as int; enc(n as nat) + col_ids(s, n) + col_runs(s, n) + col_lens(s, n) + col_offs(s, n) }
pub open spec fn ranges_ok(s: Seq<EntryV3>) -> bool {
	forall|i: int| 0 <= i < s.len() ==> (#[trigger] s[i]).range.offset + s[i].range.length <= u64::MAX && s[i].range.offset < u64::MAX }

impl EntriesV3 {
//@extract fn file="versatiles_container/src/container/pmtiles/types/entries_v3.rs" scope="impl EntriesV3" name="find_tile"
//@ret r
//@spec
		// (a Vec of 32-byte entries holds at most isize::MAX / 32 elements: std allocation guarantee, part of the type invariant)
		requires sorted(self.entries@), self.entries@.len() <= 0x03ff_ffff_ffff_ffff
		ensures
			match r {
				Some(e) => exists|i: int| #![trigger self.entries@[i]] 0 <= i < self.entries@.len() && self.entries@[i] == e && covers(e, tile_id)
					&& (self.entries@[i].tile_id == tile_id || is_last_le(self.entries@, i, tile_id)),
				None => forall|i: int| #![trigger self.entries@[i]] is_last_le(self.entries@, i, tile_id) ==> !covers(self.entries@[i], tile_id),
			},
//@start
		broadcast use vstd::laws_cmp::group_laws_cmp;
//@loop 1
			invariant
				0 <= m <= self.entries@.len(), -1 <= n < self.entries@.len(),
				m <= n + 1,
				sorted(self.entries@), self.entries@.len() <= 0x03ff_ffff_ffff_ffff,
				forall|i: int| 0 <= i < m ==> self.entries@[i].tile_id < tile_id,
				forall|i: int| n < i < self.entries@.len() ==> self.entries@[i].tile_id > tile_id,
			decreases n - m + 1
//@at "let k = (n + m) >> 1;"
			let ghost sum = (n + m) as i64;
//@after "let k = (n + m) >> 1;"
			proof { assert(k == sum / 2) by (bit_vector) requires k == sum >> 1, 0 <= sum; assert(m <= k <= n); }
//@after "let entry_id = self.entries[k as usize].tile_id;"
			proof { assert(entry_id == self.entries@[k as int].tile_id); }
//@at "if n >= 0"
		proof {
			if n >= 0 { assert(is_last_le(self.entries@, n as int, tile_id)); }
			assert forall|i: int| #![trigger self.entries@[i]] is_last_le(self.entries@, i, tile_id) implies (n >= 0 && i == n) by {
				if n >= 0 { if i < n { assert(self.entries@[n as int].tile_id > tile_id); } } else { assert(self.entries@[i].tile_id > tile_id); }
			}
		}
//@end
}

impl<'a> EntriesSliceV3<'a> {
//@extract fn file="versatiles_container/src/container/pmtiles/types/entries_v3.rs" scope="impl EntriesSliceV3<'_>" name="len"
//@ret r
//@spec
		ensures r == self.entries@.len()
//@end
//@extract fn file="versatiles_container/src/container/pmtiles/types/entries_v3.rs" scope="impl EntriesSliceV3<'_>" name="serialize_entries"
//@ret r
//@spec
		requires sorted(self.entries@), ranges_ok(self.entries@)
		ensures r is Ok, r.unwrap()@ == directory_bytes(self.entries@)
//@at "let mut last_id: u64 = 0;"
		let ghost s = self.entries@;
		let ghost b0 = writer.sink.buf@;
//@loop 1 iter=it1
			invariant entries@ == s, sorted(s), writer.sink.buf@ == b0 + col_ids(s, it1.index@ as int),
				last_id == (if it1.index@ >= 1 { s[it1.index@ - 1].tile_id } else { 0 }),
//@loop 2 iter=it2
			invariant entries@ == s, writer.sink.buf@ == b0 + col_ids(s, s.len() as int) + col_runs(s, it2.index@ as int),
//@loop 3 iter=it3
			invariant entries@ == s, writer.sink.buf@ == b0 + col_ids(s, s.len() as int) + col_runs(s, s.len() as int) + col_lens(s, it3.index@ as int),
//@loop 4 iter=it4
			invariant entries@ == s, ranges_ok(s), writer.sink.buf@ == b0 + col_ids(s, s.len() as int) + col_runs(s, s.len() as int) + col_lens(s, s.len() as int) + col_offs(s, it4.index@ as int),
//@end
}
} // verus!
fn main() {}
