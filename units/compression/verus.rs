// unit compression — utils/compression.rs + container/tile_converter.rs (C04, C05, C08)
use vstd::prelude::*;
verus! {
//@include common/prelude.vrs
//@include common/pbf_blob.vrs
//@include common/compression.vrs
//@include common/tile_converter.vrs

// C04 at the level of the recompressor: for every (src, dst, force) the payload is unchanged
pub proof fn lemma_recompressor_preserves_payload(c: TileConverter, src: TileCompression, dst: TileCompression, force: bool, a: Seq<u8>, b: Seq<u8>)
	requires c.pipeline@ == pipe_of(src, dst, force), pipe_rel(c.pipeline@, a, b)
	ensures decode(dst, b) == decode(src, a)
{ lemma_pipe_payload(src, dst, force, a, b); }

// vacuity: the codec axioms are satisfiable for at least the trivial compression
pub proof fn witness_decode() ensures decode(TileCompression::Uncompressed, seq![1u8]) == Some(seq![1u8]) { }
} // verus!
fn main() {}
