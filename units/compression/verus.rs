// unit compression — utils/compression.rs + container/tile_converter.rs (C04, C05, C08)
use vstd::prelude::*;
verus! {
//@include common/prelude.vrs
//@include common/pbf_blob.vrs
//@include common/compression.vrs
//@include common/tile_converter.vrs

// C04 at the level of the recompressor: for every (src, dst, force) the payload is unchanged
pub proof fn lemma_recompressor_preserves_payload(c: TileConverter, src: TileCompression, dst: TileCompression, force: bool, a: Seq<u8>, b: Seq<u8>)
	requires c.pipeline@ == pipe_of(src, dst, force), pipe_rel(c.pipeline@, a, b)
	ensures decode(dst, b) == decode(src, a)
{ lemma_pipe_payload(src, dst, force, a, b); }

// vacuity: the codec axioms are satisfiable for at least the trivial compression
pub proof fn witness_decode() ensures decode(TileCompression::Uncompressed, seq![1u8]) == Some(seq![1u8]) { }

// assumption A-convstream-1 (as A-overlay-1): inside a bulk stream a codec step does not fail (the real code unwraps it there)
#[verifier::external_body]
pub fn vcodec_ok(r: Result<Blob, VErr>) -> (b: Blob) ensures r is Ok, b == r.unwrap() { unimplemented!() }
impl TileConverter {
// R10: the per-tile closure of TileConverter::process_stream (the path every container writer and the converting reader's stream use);
// R6: `self.pipeline.clone()` (Arc refcount bump; Arc erased as everywhere in this fragment) -> the same vector
//@extract closure file="versatiles_container/src/container/tile_converter.rs" scope="impl TileConverter" name="process_stream" head="move |mut blob|" sig="pub fn stream_item(&self, mut blob: Blob) -> Blob" pre=""
//@rewrite "pipeline.iter()" => "self.pipeline.iter()" R6
//@rewrite "blob = f.run(blob).unwrap();" => "blob = vcodec_ok(f.run(blob));" R7
//@ret r
//@spec
		// C04: EVERY tile of a stream goes through the whole pipeline — the same relation process_blob establishes for a single tile
		ensures pipe_rel(self.pipeline@, blob@, r@)
//@start
		let ghost blob0 = blob@;
		proof { assert(self.pipeline@.take(self.pipeline@.len() as int) =~= self.pipeline@); }
//@loop 1 iter=it
			invariant pipe_rel(self.pipeline@.take(it.index@ as int), blob0, blob@),
//@loopstart 1
			let ghost pre = blob@;
//@loopend 1
			proof { let p = self.pipeline@; let i = it.index@ as int;
				assert(p.take(i + 1).drop_last() =~= p.take(i)); assert(p.take(i + 1).last() == p[i]);
				assert(step_rel(p[i], pre, blob@)); }
//@end
}
} // verus!
fn main() {}
