// unit update_properties — versatiles_pipeline operations/transform/vectortiles_update_properties.rs: Runner::run (C11): which layers of
// a tile the operation touches. Layers whose name is not the configured one are handed on exactly as decoded, in place and in order;
// every layer with the configured name gets filter_map_properties applied once. (What the callback does to a property set — the CSV
// join — is abstracted by R12; the layer codec and filter_map_properties' per-feature step are units vector_tile_layer(_enc) and
// vector_tile_merge.)
use vstd::prelude::*;
use std::mem::swap;
use std::ops::{Div, Rem};
verus! {
//@include common/prelude.vrs
//@include common/pbf_blob.vrs
//@include common/compression.vrs

// R6: String -> opaque comparable text
#[verifier::external_type_specification] #[verifier::external_body] pub struct ExAbsStr(AbsStr);
#[verifier::external_body]
pub fn absstr_eq(a: &AbsStr, b: &AbsStr) -> (r: bool) ensures r == (*a == *b) { unimplemented!() }
// R6: a decoded layer: its name and everything else (features, tables, extent, version) as one opaque body
pub struct VectorTileLayer { pub name: AbsStr, pub body: LayerBody }
#[verifier::external_body] pub struct LayerBody { }
// R12: the property callback of the operation (id lookup in the CSV data, replace/update/remove) as an opaque value
pub struct VCb { }
pub fn vupdate_callback() -> VCb { VCb { } }
// `fmp(l)`: the layer filter_map_properties leaves behind when it succeeds (None: it fails); it keeps the layer's name
pub uninterp spec fn fmp(l: VectorTileLayer) -> Option<VectorTileLayer>;
impl VectorTileLayer {
	#[verifier::external_body]
	pub fn filter_map_properties(&mut self, f: VCb) -> (r: Result<(), VErr>)
		ensures r is Ok ==> fmp(*old(self)) == Some(*final(self)) && final(self).name == old(self).name, r is Err ==> fmp(*old(self)) is None
	{ unimplemented!() }
}
pub struct VectorTile { pub layers: Vec<VectorTileLayer> }
// `vt_dec(b)`: the layers VectorTile::from_blob decodes (None: rejected); `vt_enc(l)`: the bytes VectorTile::to_blob writes (units
// vector_tile_layer / vector_tile_layer_enc: decoder total, encoder = MVT wire layout)
pub uninterp spec fn vt_dec(b: Seq<u8>) -> Option<Seq<VectorTileLayer>>;
pub uninterp spec fn vt_enc(l: Seq<VectorTileLayer>) -> Seq<u8>;
impl VectorTile {
	#[verifier::external_body]
	pub fn from_blob(blob: &Blob) -> (r: Result<VectorTile, VErr>) ensures r is Ok ==> vt_dec(blob@) == Some(r.unwrap().layers@), r is Err ==> vt_dec(blob@) is None { unimplemented!() }
	#[verifier::external_body]
	pub fn to_blob(&self) -> (r: Result<Blob, VErr>) ensures r is Ok ==> r.unwrap()@ == vt_enc(self.layers@) { unimplemented!() }
}
pub struct Args { pub layer_name: AbsStr }
pub struct Runner { pub args: Args, pub tile_compression: TileCompression }

// what the operation does to the list of layers
pub open spec fn updated(name: AbsStr, l0: Seq<VectorTileLayer>, l1: Seq<VectorTileLayer>) -> bool {
	l1.len() == l0.len() && forall|i: int| 0 <= i < l0.len() ==> (if (#[trigger] l0[i]).name == name { fmp(l0[i]) == Some(l1[i]) } else { l1[i] == l0[i] })
}
impl Runner {
//@extract fn file="versatiles_pipeline/src/operations/transform/vectortiles_update_properties.rs" scope="impl Runner" name="run"
//@callback "filter_map_properties" => "vupdate_callback()"
//@rewrite "for layer in tile.layers.iter_mut() {" => "let mut vli: usize = 0; while vli < tile.layers.len() { let vl = vli; vli += 1;" R7
//@rewrite "if &layer.name != layer_name {" => "if !absstr_eq(&tile.layers[vl].name, layer_name) {" R7
//@rewrite "layer.filter_map_properties(" => "tile.layers[vl].filter_map_properties(" R7
//@ret r
//@spec
		ensures r is Ok ==> (match r.unwrap() {
			// the source tile, decoded with the source's compression, is decoded as a vector tile; the result encodes its layers, of which only
			// those with the configured name went through filter_map_properties — all others are exactly the decoded ones, in place
			Some(out) => (exists|plain: Seq<u8>, l1: Seq<VectorTileLayer>| #![trigger vt_dec(plain), vt_enc(l1)]
				decode(self.tile_compression, blob@) == Some(plain) && vt_dec(plain) is Some
				&& updated(self.args.layer_name, vt_dec(plain).unwrap(), l1) && out@ == vt_enc(l1)),
			None => false,
		}),
//@at "let mut vli"
		let ghost l0 = tile.layers@;
//@loop 1
			invariant vli <= tile.layers@.len(), tile.layers@.len() == l0.len(), *layer_name == self.args.layer_name,
				forall|i: int| 0 <= i < vli ==> (if (#[trigger] l0[i]).name == self.args.layer_name { fmp(l0[i]) == Some(tile.layers@[i]) } else { tile.layers@[i] == l0[i] }),
				forall|i: int| vli <= i < l0.len() ==> tile.layers@[i] == l0[i],
			decreases tile.layers@.len() - vli,
//@end
}
} // verus!
#[derive(Clone, PartialEq, Eq, Hash, Debug)] pub struct AbsStr { s: String }
fn main() {}
