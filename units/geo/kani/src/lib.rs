// unit geo (Kani) — geographic box -> tile box: TileCoord2::from_geo, TileBBox::from_geo / as_geo_bbox, GeoBBox::check,
// TileBBoxPyramid::intersect_geo_bbox on the real text with bit-precise IEEE arithmetic (C15, C06, C09, C19).
// libm (tan, ln, exp, atan) is stubbed by nondeterministic functions: every statement proved here holds for ANY value they
// return (totality, non-emptiness, clamping); the x axis is linear and decided exactly. powi(2, z) is stubbed by the exact power of two.
#![allow(dead_code, unused_imports, unused_variables, unused_mut)]
use std::f64::consts::PI as PI32;
use std::ops::{Add, Sub};
use std::array::from_fn;

#[derive(Debug, Clone, Copy, PartialEq, Eq)]
pub struct VErr;
pub fn verr() -> VErr { VErr }
pub fn vassert(c: bool) { assert!(c); }
pub fn vpanic<A>() -> A { panic!() }
pub fn pow2u32(e: u32) -> u32 { 1u32 << e }
//@rewrite "2u32.pow(level as u32)" => "pow2u32(level as u32)" R7

//@extract const file="versatiles_core/src/types/tile_bbox_pyramid.rs" name="MAX_ZOOM_LEVEL"
//@end
#[derive(Clone, Copy, PartialEq, Debug)]
//@extract struct file="versatiles_core/src/types/geo_bbox.rs" name="GeoBBox"
//@end
impl GeoBBox {
//@extract fn file="versatiles_core/src/types/geo_bbox.rs" scope="impl GeoBBox" name="check"
//@end
}
#[derive(Clone, PartialEq, Eq, Debug)]
//@extract struct file="versatiles_core/src/types/tile_coords.rs" name="TileCoord2"
//@end
#[derive(Clone, Copy, PartialEq, Eq, Debug)]
//@extract struct file="versatiles_core/src/types/tile_coords.rs" name="TileCoord3"
//@end
#[derive(Clone, PartialEq, Eq, Debug)]
#[cfg_attr(kani, derive(kani::Arbitrary))]
//@extract struct file="versatiles_core/src/types/tile_bbox.rs" name="TileBBox"
//@end
#[derive(Clone)]
//@extract struct file="versatiles_core/src/types/tile_bbox_pyramid.rs" name="TileBBoxPyramid"
//@end
impl TileCoord2 {
//@extract fn file="versatiles_core/src/types/tile_coords.rs" scope="impl TileCoord2" name="from_geo"
//@end
}
impl TileCoord3 {
//@extract fn file="versatiles_core/src/types/tile_coords.rs" scope="impl TileCoord3" name="new"
//@end
//@extract fn file="versatiles_core/src/types/tile_coords.rs" scope="impl TileCoord3" name="as_geo"
//@end
}
impl TileBBox {
//@extract fn file="versatiles_core/src/types/tile_bbox.rs" scope="impl TileBBox" name="new"
//@end
//@extract fn file="versatiles_core/src/types/tile_bbox.rs" scope="impl TileBBox" name="new_empty"
//@end
//@extract fn file="versatiles_core/src/types/tile_bbox.rs" scope="impl TileBBox" name="from_geo"
//@end
//@extract fn file="versatiles_core/src/types/tile_bbox.rs" scope="impl TileBBox" name="as_geo_bbox"
//@end
//@extract fn file="versatiles_core/src/types/tile_bbox.rs" scope="impl TileBBox" name="is_empty"
//@end
//@extract fn file="versatiles_core/src/types/tile_bbox.rs" scope="impl TileBBox" name="set_empty"
//@end
//@extract fn file="versatiles_core/src/types/tile_bbox.rs" scope="impl TileBBox" name="intersect_bbox"
//@end
}
impl TileBBoxPyramid {
//@extract fn file="versatiles_core/src/types/tile_bbox_pyramid.rs" scope="impl TileBBoxPyramid" name="new_empty"
//@end
//@extract fn file="versatiles_core/src/types/tile_bbox_pyramid.rs" scope="impl TileBBoxPyramid" name="intersect_geo_bbox"
//@end
//@extract fn file="versatiles_core/src/types/tile_bbox_pyramid.rs" scope="impl TileBBoxPyramid" name="set_level_bbox"
//@end
//@extract fn file="versatiles_core/src/types/tile_bbox_pyramid.rs" scope="impl TileBBoxPyramid" name="from_geo_bbox"
//@end
}

#[cfg(kani)]
mod proofs {
	use super::*;
	// trusted stubs (DESIGN §2.3): libm is nondeterministic here; powi(2, e) is the exact power of two
	fn nondet1(_x: f64) -> f64 { kani::any() }
	fn powi_stub(b: f64, e: i32) -> f64 { kani::assume(b == 2.0 && e >= 0 && e <= 31); f64::from_bits(((1023 + e) as u64) << 52) }
	fn has(b: &TileBBox, x: u32, y: u32) -> bool { x >= b.x_min && x <= b.x_max && y >= b.y_min && y <= b.y_max }
	fn empty(b: &TileBBox) -> bool { b.x_max < b.x_min || b.y_max < b.y_min }
	fn wf_nonempty(b: &TileBBox, z: u8) -> bool { b.level == z && b.max == ((1u64 << z) - 1) as u32 && b.x_min <= b.x_max && b.y_min <= b.y_max && b.x_max <= b.max && b.y_max <= b.max }
	fn any_geo() -> GeoBBox { GeoBBox(kani::any(), kani::any(), kani::any(), kani::any()) }

	// harness: kind=complete why="loop-free; all f64 bit patterns (incl. NaN, infinities) for the four bounds, all z" tier=quick props=C15,C09,C06,C19 fn=TileBBox::from_geo,TileCoord2::from_geo,GeoBBox::check,TileBBox::new timeout=2400
	#[kani::proof]
	#[kani::stub(f64::tan, nondet1)]
	#[kani::stub(f64::ln, nondet1)]
	#[kani::stub(f64::powi, powi_stub)]
	fn geo_from_geo_total_nonempty() {
		let g = any_geo();
		let z: u8 = kani::any();
		let valid = g.0 >= -180.0 && g.1 >= -90.0 && g.2 <= 180.0 && g.3 <= 90.0 && g.0 <= g.2 && g.1 <= g.3;
		assert!(g.check().is_ok() == valid);                       // GeoBBox::check is exactly the documented validity
		match TileBBox::from_geo(z, &g) {
			// every valid geographic box, however small, maps to a non-empty well-formed tile box on every level
			Ok(b) => { assert!(valid && z <= 31); assert!(wf_nonempty(&b, z)); }
			Err(_) => assert!(!valid || z > 31),
		}
	}

	// harness: kind=complete why="loop-free; the x axis is linear: exact IEEE arithmetic; all valid west <= east, all z" tier=thorough props=C15,C06,C09 fn=TileCoord2::from_geo,TileBBox::from_geo timeout=2400
	#[kani::proof]
	#[kani::stub(f64::tan, nondet1)]
	#[kani::stub(f64::ln, nondet1)]
	#[kani::stub(f64::powi, powi_stub)]
	fn geo_x_axis_covers() {
		let w: f64 = kani::any(); let e: f64 = kani::any();
		let z: u8 = kani::any(); kani::assume(z <= 31);
		kani::assume(w >= -180.0 && e <= 180.0 && w <= e);
		let b = TileBBox::from_geo(z, &GeoBBox(w, 0.0, e, 0.0)).unwrap();
		let zoom = (1u64 << z) as f64;
		let xw = zoom * (w / 360.0 + 0.5); let xe = zoom * (e / 360.0 + 0.5);   // exact tile-space positions of the two meridians
		// the box starts at most the 1e-6 guard to the right of the west edge and ends at most the guard to the left of the east edge
		assert!((b.x_min as f64) <= xw + 1e-6);
		assert!((b.x_max as f64) + 1.0 >= xe - 1e-6 || b.x_max == b.max);
		// and it is tight: it starts in the tile containing the (guarded) west edge
		assert!((b.x_min as f64) + 1.0 > xw + 1e-6 || b.x_min == b.max || b.x_min == b.x_max);
	}

	// the documented rounding rule, exactly: west/north corner = floor(t + 1e-6), east/south corner = floor(t - 1e-6) but never
	// left of / above the first corner, both clamped to the level (t = position in tile units)
	fn x_axis_exact(z: u8) {
		let w: f64 = kani::any(); let e: f64 = kani::any();
		kani::assume(w >= -180.0 && e <= 180.0 && w <= e);
		let b = TileBBox::from_geo(z, &GeoBBox(w, 0.0, e, 0.0)).unwrap();
		let zoom = (1u64 << z) as f64;
		let xw = zoom * (w / 360.0 + 0.5); let xe = zoom * (e / 360.0 + 0.5);
		let lo = (xw + 1e-6).floor().min(zoom - 1.0).max(0.0) as u32;
		let hi = (xe - 1e-6).floor().min(zoom - 1.0).max(0.0) as u32;
		assert!(b.x_min == lo);                        // the tile containing the (guarded) west edge — also for a zero-width box
		assert!(b.x_max == if hi >= lo { hi } else { lo });
	}
	// harness: kind=complete why="loop-free; all valid west <= east at the fixed level 5 (exact IEEE arithmetic)" tier=quick props=C15,C06,C09 fn=TileBBox::from_geo,TileCoord2::from_geo timeout=2400
	#[kani::proof]
	#[kani::stub(f64::tan, nondet1)]
	#[kani::stub(f64::ln, nondet1)]
	#[kani::stub(f64::powi, powi_stub)]
	fn geo_x_axis_exact_rounding_z05() { x_axis_exact(5); }
	// harness: kind=complete why="loop-free; all valid west <= east, all levels (exact IEEE arithmetic)" tier=thorough props=C15,C06,C09 fn=TileBBox::from_geo,TileCoord2::from_geo timeout=3600
	#[kani::proof]
	#[kani::stub(f64::tan, nondet1)]
	#[kani::stub(f64::ln, nondet1)]
	#[kani::stub(f64::powi, powi_stub)]
	fn geo_x_axis_exact_rounding_all() { let z: u8 = kani::any(); kani::assume(z <= 31); x_axis_exact(z); }

	// harness: kind=complete why="loop-free; all tile ranges x0 <= x1 of all levels: box -> geographic bounds -> box is the identity on the x axis" tier=thorough props=C15 fn=TileBBox::as_geo_bbox,TileCoord3::as_geo,TileBBox::from_geo timeout=2400
	#[kani::proof]
	#[kani::stub(f64::tan, nondet1)]
	#[kani::stub(f64::ln, nondet1)]
	#[kani::stub(f64::exp, nondet1)]
	#[kani::stub(f64::atan, nondet1)]
	#[kani::stub(f64::powi, powi_stub)]
	fn geo_x_axis_roundtrip() {
		let z: u8 = kani::any(); kani::assume(z <= 31);
		let n: u64 = 1u64 << z;
		let x0: u32 = kani::any(); let x1: u32 = kani::any(); let y0: u32 = kani::any(); let y1: u32 = kani::any();
		kani::assume(x0 <= x1 && (x1 as u64) < n && y0 <= y1 && (y1 as u64) < n);
		let b = TileBBox::new(z, x0, y0, x1, y1).unwrap();
		let g = b.as_geo_bbox();                                    // no panic for any well-formed non-empty box
		// (latitudes come from the nondeterministic libm stubs: only the x axis is compared)
		let a = TileCoord2::from_geo(g.0, 0.0, z, false).unwrap();
		let c = TileCoord2::from_geo(g.2, 0.0, z, true).unwrap();
		assert!(a.x == x0 && c.x == x1);
	}

	// harness: kind=complete why="32 levels (constant), all valid geographic boxes, all well-formed pyramids" tier=thorough props=C15,C09,C06,C19 fn=TileBBoxPyramid::intersect_geo_bbox,TileBBoxPyramid::from_geo_bbox timeout=3600 mem=24
	#[kani::proof]
	#[kani::unwind(34)]
	#[kani::stub(f64::tan, nondet1)]
	#[kani::stub(f64::ln, nondet1)]
	#[kani::stub(f64::powi, powi_stub)]
	fn geo_pyramid_intersect_geo_bbox() {
		let mut p = TileBBoxPyramid { level_bbox: kani::any() };
		let mut i = 0;
		while i < 32 { let b = &p.level_bbox[i]; kani::assume(b.level as usize == i && b.max == ((1u64 << i) - 1) as u32 && b.x_max <= b.max && b.y_max <= b.max); i += 1; }
		let old = p.clone();
		let g = any_geo();
		kani::assume(g.check().is_ok());                            // the caller's obligation (filter_bbox::build, convert --bbox)
		p.intersect_geo_bbox(&g);                                   // then: no panic ...
		let z: usize = kani::any(); kani::assume(z < 32);
		let (x, y): (u32, u32) = kani::any();
		if has(&p.level_bbox[z], x, y) { assert!(has(&old.level_bbox[z], x, y)); }   // ... and the coverage only shrinks
		let n = &p.level_bbox[z];
		assert!(n.level as usize == z && n.x_max <= n.max && n.y_max <= n.max);
		x_axis_is_intersection(&old.level_bbox[z], n, z as u8, &g);
	}
	// on EVERY level the retained columns are exactly the old columns inside the geographic box (the x axis is exact IEEE arithmetic;
	// the y axis goes through the nondeterministic libm stubs and is not compared)
	fn x_axis_is_intersection(o: &TileBBox, n: &TileBBox, z: u8, g: &GeoBBox) {
		let gx0 = TileCoord2::from_geo(g.0, 0.0, z, false).unwrap().x;
		let gx1 = TileCoord2::from_geo(g.2, 0.0, z, true).unwrap().x.max(gx0);
		if empty(o) { assert!(empty(n)); } else { assert!(n.x_min == o.x_min.max(gx0) && n.x_max == o.x_max.min(gx1)); }
	}
	// harness: kind=bounded bound="one fixed geographic box [-10.5, -20.25, 30.75, 40.0]; any well-formed pyramid; every one of the 32 levels probed" tier=thorough props=C09,C06,C15 fn=TileBBoxPyramid::intersect_geo_bbox timeout=1800 mem=16
	#[kani::proof]
	#[kani::unwind(34)]
	#[kani::stub(f64::tan, nondet1)]
	#[kani::stub(f64::ln, nondet1)]
	#[kani::stub(f64::powi, powi_stub)]
	fn geo_pyramid_intersect_every_level_fixed_box() {
		let mut p = TileBBoxPyramid { level_bbox: kani::any() };
		let mut i = 0;
		while i < 32 { let b = &p.level_bbox[i]; kani::assume(b.level as usize == i && b.max == ((1u64 << i) - 1) as u32 && b.x_max <= b.max && b.y_max <= b.max); i += 1; }
		let old = p.clone();
		let g = GeoBBox(-10.5, -20.25, 30.75, 40.0);
		p.intersect_geo_bbox(&g);
		let z: usize = kani::any(); kani::assume(z < 32);
		x_axis_is_intersection(&old.level_bbox[z], &p.level_bbox[z], z as u8, &g);
	}

	// harness: kind=canary expect=fail tier=quick props=C15,C09,C06,C19 timeout=1200
	#[kani::proof]
	#[kani::stub(f64::tan, nondet1)]
	#[kani::stub(f64::ln, nondet1)]
	#[kani::stub(f64::powi, powi_stub)]
	fn geo_canary_must_fail() {
		let g = any_geo();
		let z: u8 = kani::any(); kani::assume(z <= 31);
		assert!(TileBBox::from_geo(z, &g).is_ok());   // wrong on purpose: invalid boxes are errors
	}
}
