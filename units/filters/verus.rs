// unit filters — versatiles_pipeline operations filter_zoom and filter_bbox (C09, C02, C03)
use vstd::prelude::*;
use std::mem::swap;
use std::ops::{Div, Rem};
verus! {
//@include common/prelude.vrs
//@include common/tile_bbox.vrs
//@include common/transform.vrs
//@include common/pbf_blob.vrs
//@include common/compression.vrs
//@include common/pyramid_abs.vrs
//@include common/source_abs.vrs

// R6: VPL node / factory -> opaque; Args::from_vpl_node is derive-generated (C18 territory): any argument values may come out of it
#[verifier::external_body] pub struct VPLNode { }
#[verifier::external_body] pub struct PipelineFactory { }
//@rewrite "Box<dyn OperationTrait>" => "AbsSource"

// statement of C09: the retained coverage is the source's, restricted to the zoom range resp. to the geographic box
pub open spec fn zoom_filtered(cov: TileBBoxPyramid, src: TileBBoxPyramid, lo: int, hi: int) -> bool {
	forall|c: TileCoord3| #[trigger] cov.has(c) <==> (src.has(c) && lo <= c.z <= hi) }
pub open spec fn bbox_filtered(cov: TileBBoxPyramid, src: TileBBoxPyramid, g: GeoBBox) -> bool {
	forall|c: TileCoord3| #[trigger] cov.has(c) <==> (src.has(c) && c.z < 32 && geo_box(g, c.z as int).has(c.x as int, c.y as int)) }

pub mod filter_zoom {
use super::*;
//@extract struct file="versatiles_pipeline/src/operations/transform/filter_zoom.rs" name="Args"
//@end
pub uninterp spec fn args_of(n: VPLNode) -> Args;   // the argument values the derive-generated decoder extracts from the node
impl Args { #[verifier::external_body] pub fn from_vpl_node(n: &VPLNode) -> (r: Result<Args, VErr>) ensures r is Ok ==> r.unwrap() == args_of(*n) { unimplemented!() } }
pub open spec fn lo_of(a: Args) -> int { match a.min { Some(m) => m as int, None => 0 } }
pub open spec fn hi_of(a: Args) -> int { match a.max { Some(m) => m as int, None => 255 } }
//@extract struct file="versatiles_pipeline/src/operations/transform/filter_zoom.rs" name="Operation"
//@end
impl Operation {
	pub open spec fn cov(&self) -> TileBBoxPyramid { self.parameters.bbox_pyramid }
	pub open spec fn inv(&self) -> bool { self.cov().wf() && self.source.src_ok() }
	// the tile this stage holds at c (C09): the source's tile, unchanged, iff c is inside the retained coverage
	pub open spec fn tile_at(&self, c: TileCoord3) -> Option<Seq<u8>> { if self.cov().has(c) { self.source.tile_at(c) } else { None } }

//@extract fn file="versatiles_pipeline/src/operations/transform/filter_zoom.rs" scope="impl Operation" name="build"
//@rewrite "BoxFuture<'_, Result<AbsSource, anyhow::Error>>" => "Result<Operation, VErr>"
//@rewrite "where Self: Sized + OperationTrait," => ""
//@rewrite "Ok(Box::new(Self {" => "Ok((Self {"
//@rewrite "}) as AbsSource)" => "}))"
//@ret r
//@spec
		requires source.src_ok()
		ensures r is Ok ==> r.unwrap().inv(),
			r is Ok ==> r.unwrap().source == source,
			// exactly the levels min..=max the arguments name (absent argument: no limit)
			r is Ok ==> zoom_filtered(r.unwrap().parameters.bbox_pyramid, source.params().bbox_pyramid, lo_of(args_of(vpl_node)), hi_of(args_of(vpl_node))),
//@at "let mut tilejson"
		proof {
			let lo: int = match args.min { Some(m) => m as int, None => 0 };
			let hi: int = match args.max { Some(m) => m as int, None => 255 };
			assert forall|c: TileCoord3| #[trigger] parameters.bbox_pyramid.has(c) <==> (source.params().bbox_pyramid.has(c) && lo <= c.z <= hi) by { }
			assert(zoom_filtered(parameters.bbox_pyramid, source.params().bbox_pyramid, lo, hi));
		}
//@end
//@extract fn file="versatiles_pipeline/src/operations/transform/filter_zoom.rs" scope="impl OperationTrait for Operation" name="get_parameters"
//@ret r
//@spec
		ensures *r == self.parameters
//@end
//@extract fn file="versatiles_pipeline/src/operations/transform/filter_zoom.rs" scope="impl OperationTrait for Operation" name="get_tile_data"
//@ret r
//@spec
		ensures r is Ok ==> (match r.unwrap() { Some(b) => self.tile_at(*coord) == Some(b@), None => self.tile_at(*coord) is None })
//@end
//@extract fn file="versatiles_pipeline/src/operations/transform/filter_zoom.rs" scope="impl OperationTrait for Operation" name="get_tile_stream"
//@ret r
//@spec
		requires self.inv(), bbox.wf()
		ensures forall|c: TileCoord3, b: Seq<u8>| r.items().contains((c, b)) <==> (bbox.has3(c) && self.tile_at(c) == Some(b))
//@at "bbox.intersect_pyramid"
		let ghost bbox0 = bbox;
//@end
}
}

pub mod filter_bbox {
use super::*;
//@extract struct file="versatiles_pipeline/src/operations/transform/filter_bbox.rs" name="Args"
//@end
pub uninterp spec fn args_of(n: VPLNode) -> Args;
impl Args { #[verifier::external_body] pub fn from_vpl_node(n: &VPLNode) -> (r: Result<Args, VErr>) ensures r is Ok ==> r.unwrap() == args_of(*n) { unimplemented!() } }
pub open spec fn geo_of(a: Args) -> GeoBBox { GeoBBox(a.bbox[0], a.bbox[1], a.bbox[2], a.bbox[3]) }
//@extract fn file="versatiles_core/src/types/geo_bbox.rs" scope="impl From<&[f64; 4]> for GeoBBox" name="from" as="geo_bbox_from"
//@rewrite "Self" => "GeoBBox"
//@ret r
//@spec
	ensures r.0 == input[0], r.1 == input[1], r.2 == input[2], r.3 == input[3]
//@end
//@extract struct file="versatiles_pipeline/src/operations/transform/filter_bbox.rs" name="Operation"
//@end
impl Operation {
	pub open spec fn cov(&self) -> TileBBoxPyramid { self.parameters.bbox_pyramid }
	pub open spec fn inv(&self) -> bool { self.cov().wf() && self.source.src_ok() }
	pub open spec fn tile_at(&self, c: TileCoord3) -> Option<Seq<u8>> { if self.cov().has(c) { self.source.tile_at(c) } else { None } }

//@extract fn file="versatiles_pipeline/src/operations/transform/filter_bbox.rs" scope="impl Operation" name="build"
//@rewrite "BoxFuture<'_, Result<AbsSource, anyhow::Error>>" => "Result<Operation, VErr>"
//@rewrite "where Self: Sized + OperationTrait," => ""
//@rewrite "Ok(Box::new(Self {" => "Ok((Self {"
//@rewrite "}) as AbsSource)" => "}))"
//@rewrite "GeoBBox::from(&args.bbox)" => "geo_bbox_from(&args.bbox)" R7
//@ret r
//@spec
		requires source.src_ok()
		// an invalid argument is reported as an error here (never a panic: intersect_geo_bbox's precondition is an obligation)
		ensures r is Ok ==> r.unwrap().inv(),
			r is Ok ==> r.unwrap().source == source,
			// exactly the tiles of the box the argument names; an invalid box is an error
			r is Ok ==> geo_valid(geo_of(args_of(vpl_node))) && bbox_filtered(r.unwrap().parameters.bbox_pyramid, source.params().bbox_pyramid, geo_of(args_of(vpl_node))),
//@at "let mut tilejson"
		proof {
			assert forall|c: TileCoord3| #[trigger] parameters.bbox_pyramid.has(c) <==> (source.params().bbox_pyramid.has(c) && c.z < 32 && geo_box(geo_bbox, c.z as int).has(c.x as int, c.y as int)) by { }
			assert(geo_valid(geo_bbox) && bbox_filtered(parameters.bbox_pyramid, source.params().bbox_pyramid, geo_bbox));
		}
//@end
//@extract fn file="versatiles_pipeline/src/operations/transform/filter_bbox.rs" scope="impl OperationTrait for Operation" name="get_tile_data"
//@ret r
//@spec
		ensures r is Ok ==> (match r.unwrap() { Some(b) => self.tile_at(*coord) == Some(b@), None => self.tile_at(*coord) is None })
//@end
//@extract fn file="versatiles_pipeline/src/operations/transform/filter_bbox.rs" scope="impl OperationTrait for Operation" name="get_tile_stream"
//@ret r
//@spec
		requires self.inv(), bbox.wf()
		ensures forall|c: TileCoord3, b: Seq<u8>| r.items().contains((c, b)) <==> (bbox.has3(c) && self.tile_at(c) == Some(b))
//@end
}
}

// chained filters behave as the intersection (C09): a filter whose source is itself a filter
pub proof fn lemma_chain_is_intersection(cov1: TileBBoxPyramid, cov2: TileBBoxPyramid, base: spec_fn(TileCoord3) -> Option<Seq<u8>>, c: TileCoord3)
	ensures ({
		let t1 = if cov1.has(c) { base(c) } else { None::<Seq<u8>> };
		let t2 = if cov2.has(c) { t1 } else { None::<Seq<u8>> };
		t2 == (if cov1.has(c) && cov2.has(c) { base(c) } else { None::<Seq<u8>> }) })
{ }
} // verus!
fn main() {}
