// unit overlay_stream (Kani, bounded) — from_overlayed Operation::{get_tile_stream, get_tile_data} on the real text (R5: async
// erased): the stream of a box delivers exactly the lookups inside the box — the first source in list order that has a tile
// wins, re-encoded to the declared compression (C08, C02). Bounded: 2 sources, zoom level 2, boxes of at most 3 x 2 tiles.
#![allow(dead_code, unused_imports, unused_variables, unused_mut)]
use itertools::Itertools;
use std::ops::{Div, Rem};

#[derive(Debug, Clone, Copy, PartialEq, Eq)]
pub struct VErr;
pub fn verr() -> VErr { VErr }
pub fn vassert(c: bool) { assert!(c); }
pub fn vpanic<A>() -> A { panic!() }
pub fn pow2u32(e: u32) -> u32 { 1u32 << e }
//@rewrite "2u32.pow(level as u32)" => "pow2u32(level as u32)" R7
//@rewrite "Box<dyn OperationTrait>" => "AbsSource"

#[derive(Clone, Copy, PartialEq, Eq, Debug)]
#[cfg_attr(kani, derive(kani::Arbitrary))]
//@extract enum file="versatiles_core/src/types/tile_compression.rs" name="TileCompression"
//@end
// R6 stand-in: a blob is a payload byte tagged with the compression it is encoded with; the codecs re-tag (tagging stand-in of DESIGN §3 C04)
#[derive(Clone, Copy, PartialEq, Eq, Debug)]
pub struct Blob { pub comp: TileCompression, pub payload: u8 }
pub fn recompress(blob: Blob, input: &TileCompression, output: &TileCompression) -> Result<Blob, VErr> {
	if blob.comp != *input { return Err(VErr); }
	Ok(Blob { comp: *output, payload: blob.payload })
}
#[derive(Clone, Copy, PartialEq, Eq, Debug)]
//@extract struct file="versatiles_core/src/types/tile_coords.rs" name="TileCoord3"
//@end
#[derive(Clone, PartialEq, Eq, Debug)]
//@extract struct file="versatiles_core/src/types/tile_bbox.rs" name="TileBBox"
//@end
impl TileCoord3 {
//@extract fn file="versatiles_core/src/types/tile_coords.rs" scope="impl TileCoord3" name="new"
//@end
}
impl TileBBox {
//@extract fn file="versatiles_core/src/types/tile_bbox.rs" scope="impl TileBBox" name="new"
//@end
//@extract fn file="versatiles_core/src/types/tile_bbox.rs" scope="impl TileBBox" name="new_empty"
//@end
//@extract fn file="versatiles_core/src/types/tile_bbox.rs" scope="impl TileBBox" name="is_empty"
//@end
//@extract fn file="versatiles_core/src/types/tile_bbox.rs" scope="impl TileBBox" name="set_empty"
//@end
//@extract fn file="versatiles_core/src/types/tile_bbox.rs" scope="impl TileBBox" name="width"
//@end
//@extract fn file="versatiles_core/src/types/tile_bbox.rs" scope="impl TileBBox" name="height"
//@end
//@extract fn file="versatiles_core/src/types/tile_bbox.rs" scope="impl TileBBox" name="count_tiles"
//@end
//@extract fn file="versatiles_core/src/types/tile_bbox.rs" scope="impl TileBBox" name="contains3"
//@end
//@extract fn file="versatiles_core/src/types/tile_bbox.rs" scope="impl TileBBox" name="include_coord"
//@end
//@extract fn file="versatiles_core/src/types/tile_bbox.rs" scope="impl TileBBox" name="include_coord3"
//@end
//@extract fn file="versatiles_core/src/types/tile_bbox.rs" scope="impl TileBBox" name="intersect_bbox"
//@end
//@extract fn file="versatiles_core/src/types/tile_bbox.rs" scope="impl TileBBox" name="scale_down"
//@end
//@extract fn file="versatiles_core/src/types/tile_bbox.rs" scope="impl TileBBox" name="iter_coords"
//@end
//@extract fn file="versatiles_core/src/types/tile_bbox.rs" scope="impl TileBBox" name="iter_bbox_grid"
//@end
//@extract fn file="versatiles_core/src/types/tile_bbox.rs" scope="impl TileBBox" name="get_tile_index3"
//@end
//@extract fn file="versatiles_core/src/types/tile_bbox.rs" scope="impl TileBBox" name="get_coord3_by_index"
//@end
}

// R6 stand-ins: TileStream = the finite list of its items; sources = 4 x 4 presence maps at zoom level 2 whose stream equals
// their lookups (C02 assumed of the sources)
pub struct TileStream { pub items: Vec<(TileCoord3, Blob)> }
impl TileStream {
	pub fn from_vec(vec: Vec<(TileCoord3, Blob)>) -> Self { TileStream { items: vec } }
	pub fn from_stream_iter(iter: impl Iterator<Item = TileStream>) -> TileStream { let mut items = Vec::new(); for s in iter { items.extend(s.items); } TileStream { items } }
	pub fn for_each_sync<F: FnMut((TileCoord3, Blob))>(self, mut callback: F) { for it in self.items { callback(it); } }
}
pub struct TilesReaderParameters { pub tile_compression: TileCompression }
pub struct TileJSON;
pub struct AbsSource { pub has: [[bool; 4]; 4], pub parameters: TilesReaderParameters, pub salt: u8 }
impl AbsSource {
	pub fn tile_at(&self, c: &TileCoord3) -> Option<Blob> {
		if c.z == 2 && c.x < 4 && c.y < 4 && self.has[c.y as usize][c.x as usize] { Some(Blob { comp: self.parameters.tile_compression, payload: self.salt ^ ((c.y * 4 + c.x) as u8) }) } else { None }
	}
	pub fn get_parameters(&self) -> &TilesReaderParameters { &self.parameters }
	pub fn get_tile_data(&self, coord: &TileCoord3) -> Result<Option<Blob>, VErr> { Ok(self.tile_at(coord)) }
	pub fn get_tile_stream(&self, bbox: TileBBox) -> TileStream {
		let mut items = Vec::new();
		let mut y = 0u32; while y < 4 { let mut x = 0u32; while x < 4 { let c = TileCoord3 { x, y, z: 2 };
			if bbox.level == 2 && x >= bbox.x_min && x <= bbox.x_max && y >= bbox.y_min && y <= bbox.y_max { if let Some(b) = self.tile_at(&c) { items.push((c, b)); } } x += 1; } y += 1; }
		TileStream { items }
	}
}

//@extract struct file="versatiles_pipeline/src/operations/read/from_overlayed.rs" name="Operation"
//@end
impl Operation {
//@extract fn file="versatiles_pipeline/src/operations/read/from_overlayed.rs" scope="impl OperationTrait for Operation" name="get_tile_data"
//@end
//@extract fn file="versatiles_pipeline/src/operations/read/from_overlayed.rs" scope="impl OperationTrait for Operation" name="get_tile_stream"
//@end
}

#[cfg(kani)]
mod proofs {
	use super::*;
	fn any_source() -> AbsSource { AbsSource { has: kani::any(), parameters: TilesReaderParameters { tile_compression: kani::any() }, salt: kani::any() } }
	fn overlay_check(w: u32, h: u32) {
		let op = Operation { parameters: TilesReaderParameters { tile_compression: kani::any() }, sources: vec![any_source(), any_source()], tilejson: TileJSON };
		let (x0, y0): (u32, u32) = kani::any();
		kani::assume(x0 + w < 4 && y0 + h < 4);
		let bbox = TileBBox::new(2, x0, y0, x0 + w, y0 + h).unwrap();
		let stream = op.get_tile_stream(bbox.clone());
		let probe = TileCoord3 { x: kani::any(), y: kani::any(), z: 2 };
		kani::assume(probe.x < 4 && probe.y < 4);
		let lookup = op.get_tile_data(&probe).unwrap();
		// oracle from the statement of C08: first listed source that has a tile, re-encoded to the declared compression
		let first = match op.sources[0].tile_at(&probe) { Some(b) => Some(b), None => op.sources[1].tile_at(&probe) };
		assert!(lookup == first.map(|b| Blob { comp: op.parameters.tile_compression, payload: b.payload }));
		let mut hits = 0u32; let mut found: Option<Blob> = None;
		let mut i = 0; while i < stream.items.len() { let (c, b) = stream.items[i]; assert!(bbox.contains3(&c)); if c == probe { hits += 1; found = Some(b); } i += 1; }
		if bbox.contains3(&probe) { assert!(found == lookup && hits == if lookup.is_some() { 1 } else { 0 }); } else { assert!(hits == 0); }
	}
	// harness: kind=bounded bound="2 sources with arbitrary 4 x 4 presence maps at zoom 2, arbitrary compressions; requested box of 3 x 1 tiles at any position" tier=quick props=C08,C02 fn=from_overlayed::get_tile_stream,from_overlayed::get_tile_data timeout=3000 mem=24
	#[kani::proof]
	#[kani::unwind(18)]
	fn overlay_stream_equals_lookups_3x1() { overlay_check(2, 0); }
	// harness: kind=bounded bound="2 sources with arbitrary 4 x 4 presence maps at zoom 2, arbitrary compressions; requested box of 2 x 2 tiles at any position" tier=thorough props=C08,C02 fn=from_overlayed::get_tile_stream,from_overlayed::get_tile_data timeout=3000 mem=24
	#[kani::proof]
	#[kani::unwind(18)]
	fn overlay_stream_equals_lookups_2x2() { overlay_check(1, 1); }
	// harness: kind=canary expect=fail tier=quick props=C08,C02 timeout=3000 mem=24
	#[kani::proof]
	#[kani::unwind(18)]
	fn overlay_stream_canary_must_fail() {
		let op = Operation { parameters: TilesReaderParameters { tile_compression: kani::any() }, sources: vec![any_source(), any_source()], tilejson: TileJSON };
		let probe = TileCoord3 { x: 1, y: 1, z: 2 };
		assert!(op.get_tile_data(&probe).unwrap() == op.sources[1].tile_at(&probe));   // wrong on purpose: ignores the first source
	}
}
