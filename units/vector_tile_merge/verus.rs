// unit vector_tile_merge — the re-indexing core of merging vector tile layers (C10; tables: C11):
// PropertyManager::encode_tag_ids, VectorTileLayer::{encode_tag_ids, decode_tag_ids, add_vector_tile_features, add_from_layer}.
// Each feature moved from one layer into another keeps its id, geometry type and geometry bytes, and the property set its tag ids
// denote in the receiving layer's tables is the set they denoted in the source layer's tables; features already in the receiving
// layer keep theirs.
use vstd::prelude::*;
use std::collections::HashMap;
use std::hash::Hash;
use std::fmt::Debug;
use std::ops::Div;
use std::mem::swap;
use vstd::std_specs::hash::*;
verus! {
//@include common/prelude.vrs
//@include common/byte_io.vrs
//@include common/pbf_spec.vrs
//@include common/pbf_blob.vrs
//@include common/pbf_reader.vrs
//@include common/pbf_writer.vrs
//@include common/vt_tables.vrs
//@include common/vt_feature.vrs
//@include common/vt_props.vrs

impl GeoProperties {
	// R6 stand-in for `properties.into_iter()` (btree_map::IntoIter, trusted): every (key, value) pair of the map exactly once
	#[verifier::external_body]
	pub fn into_pairs(self) -> (r: Vec<(AbsStr, GeoValue)>)
		ensures forall|i: int| 0 <= i < r@.len() ==> self.0.view().contains_key((#[trigger] r@[i]).0) && self.0.view()[r@[i].0] == r@[i].1,
			forall|k: AbsStr| self.0.view().contains_key(k) ==> exists|i: int| 0 <= i < r@.len() && (#[trigger] r@[i]).0 == k,
			forall|i: int, j: int| 0 <= i < j < r@.len() ==> r@[i].0 != r@[j].0,
			r@.len() <= 0x3fff_ffff,    // (a map that lives in memory has fewer than 2^30 entries of >= 56 bytes: allocation bound)
	{ unimplemented!() }
}
// all tag ids of the first n pairs address entries of the tables
pub open spec fn pair_ok(nk: int, nv: int, tags: Seq<u32>, i: int) -> bool { tags[2 * i] < nk && tags[2 * i + 1] < nv }
pub open spec fn tags_in_range(nk: int, nv: int, tags: Seq<u32>, n: int) -> bool {
	forall|i: int| 0 <= i < n ==> #[trigger] pair_ok(nk, nv, tags, i)
}
pub proof fn lemma_in_range_at(nk: int, nv: int, tags: Seq<u32>, n: int, i: int)
	requires tags_in_range(nk, nv, tags, n), 0 <= i < n
	ensures tags[2 * i] < nk, tags[2 * i + 1] < nv
{ assert(pair_ok(nk, nv, tags, i)); }
pub proof fn lemma_in_range_mono(nk0: int, nv0: int, nk1: int, nv1: int, tags: Seq<u32>, n: int)
	requires tags_in_range(nk0, nv0, tags, n), nk0 <= nk1, nv0 <= nv1
	ensures tags_in_range(nk1, nv1, tags, n)
{ assert forall|i: int| 0 <= i < n implies #[trigger] pair_ok(nk1, nv1, tags, i) by { assert(pair_ok(nk0, nv0, tags, i)); } }
// extending the tables (old entries keep their positions) and the tag list does not change what the first n pairs denote
pub proof fn lemma_tags_map_stable(k0: Seq<AbsStr>, v0: Seq<GeoValue>, t0: Seq<u32>, k1: Seq<AbsStr>, v1: Seq<GeoValue>, t1: Seq<u32>, n: int)
	requires 0 <= n, 2 * n <= t0.len() <= t1.len(), tags_in_range(k0.len() as int, v0.len() as int, t0, n),
		k0.len() <= k1.len(), v0.len() <= v1.len(),
		forall|i: int| 0 <= i < k0.len() ==> k1[i] == k0[i], forall|i: int| 0 <= i < v0.len() ==> v1[i] == v0[i], forall|i: int| 0 <= i < 2 * n ==> t1[i] == t0[i],
	ensures tags_map(k1, v1, t1, n) == tags_map(k0, v0, t0, n)
	decreases n
{
	if n > 0 {
		lemma_tags_map_stable(k0, v0, t0, k1, v1, t1, n - 1);
		assert(pair_ok(k0.len() as int, v0.len() as int, t0, n - 1));
		assert(tags_in_range(k0.len() as int, v0.len() as int, t0, n - 1));
	}
}

impl PropertyManager {
	// the first n pairs have been encoded: the tag ids so far denote exactly those pairs
	pub open spec fn enc_so_far(&self, tags: Seq<u32>, pairs: Seq<(AbsStr, GeoValue)>, n: int) -> bool {
		let m = tags_map(self.key.list@, self.val.list@, tags, n);
		(forall|k: AbsStr| #[trigger] m.contains_key(k) <==> exists|j: int| 0 <= j < n && (#[trigger] pairs[j]).0 == k)
		&& (forall|j: int| 0 <= j < n ==> m[(#[trigger] pairs[j]).0] == pairs[j].1)
	}
//@extract fn file="versatiles_geometry/src/vector_tile/property_manager.rs" scope="impl PropertyManager" name="encode_tag_ids"
//@rewrite "for (key, val) in properties.into_iter() {" => "let vpairs = properties.into_pairs(); for vi in 0..vpairs.len() { let key = clone_eq(&vpairs[vi].0); let val = clone_eq(&vpairs[vi].1);" R6
//@ret r
//@spec
		requires old(self).inv(), old(self).key.list@.len() < 0x3fff_ffff, old(self).val.list@.len() < 0x3fff_ffff,
		ensures final(self).inv(),
			// the tables only grow at the end: every index handed out earlier still addresses the same entry
			old(self).key.list@.len() <= final(self).key.list@.len(), forall|i: int| 0 <= i < old(self).key.list@.len() ==> final(self).key.list@[i] == old(self).key.list@[i],
			old(self).val.list@.len() <= final(self).val.list@.len(), forall|i: int| 0 <= i < old(self).val.list@.len() ==> final(self).val.list@[i] == old(self).val.list@[i],
			final(self).key.list@.len() <= old(self).key.list@.len() + 0x3fff_ffff, final(self).val.list@.len() <= old(self).val.list@.len() + 0x3fff_ffff,
			// the tag ids denote exactly the given property set in the (new) tables
			r@.len() % 2 == 0, tags_in_range(final(self).key.list@.len() as int, final(self).val.list@.len() as int, r@, r@.len() as int / 2),
			tags_map(final(self).key.list@, final(self).val.list@, r@, r@.len() as int / 2) == properties.0.view(),
//@at "let vpairs ="
		let ghost pm = properties.0.view();
//@loop 1
			invariant self.inv(),
				tag_ids@.len() == 2 * vi,
				old(self).key.list@.len() <= self.key.list@.len() <= old(self).key.list@.len() + vi, forall|i: int| 0 <= i < old(self).key.list@.len() ==> self.key.list@[i] == old(self).key.list@[i],
				old(self).val.list@.len() <= self.val.list@.len() <= old(self).val.list@.len() + vi, forall|i: int| 0 <= i < old(self).val.list@.len() ==> self.val.list@[i] == old(self).val.list@[i],
				old(self).key.list@.len() < 0x3fff_ffff, old(self).val.list@.len() < 0x3fff_ffff, vpairs@.len() <= 0x3fff_ffff,
				tags_in_range(self.key.list@.len() as int, self.val.list@.len() as int, tag_ids@, vi as int),
				forall|i: int, j: int| 0 <= i < j < vpairs@.len() ==> vpairs@[i].0 != vpairs@[j].0,
				// what has been encoded so far denotes exactly the first vi pairs
				self.enc_so_far(tag_ids@, vpairs@, vi as int),
//@loopstart 1
			let ghost k0 = self.key.list@; let ghost v0 = self.val.list@; let ghost t0 = tag_ids@;
//@loopend 1
			proof {
				assert(tag_ids@.len() == t0.len() + 2 && forall|i: int| 0 <= i < t0.len() ==> tag_ids@[i] == t0[i]);
				assert(tags_in_range(self.key.list@.len() as int, self.val.list@.len() as int, tag_ids@, vi + 1)) by {
					assert forall|i: int| 0 <= i < vi + 1 implies (#[trigger] tag_ids@[2 * i]) < self.key.list@.len() && tag_ids@[2 * i + 1] < self.val.list@.len() by {
						if i < vi { lemma_in_range_at(k0.len() as int, v0.len() as int, t0, vi as int, i); assert(tag_ids@[2 * i] == t0[2 * i] && tag_ids@[2 * i + 1] == t0[2 * i + 1]); } }
				}
				lemma_tags_map_stable(k0, v0, t0, self.key.list@, self.val.list@, tag_ids@, vi as int);
				assert(tags_map(self.key.list@, self.val.list@, tag_ids@, vi + 1) == tags_map(self.key.list@, self.val.list@, tag_ids@, vi as int).insert(vpairs@[vi as int].0, vpairs@[vi as int].1));
				assert forall|j: int| 0 <= j < vi + 1 implies tags_map(self.key.list@, self.val.list@, tag_ids@, vi + 1)[(#[trigger] vpairs@[j]).0] == vpairs@[j].1 by {
					if j < vi { assert(vpairs@[j].0 != vpairs@[vi as int].0); } }
			}
//@end
}

//@extract struct file="versatiles_geometry/src/vector_tile/layer.rs" name="VectorTileLayer"
//@rewrite "String" => "AbsStr"
//@end
// trusted: #[derive(Clone)] on VectorTileFeature is field-wise
#[verifier::external_body]
pub fn clone_feature(f: &VectorTileFeature) -> (r: VectorTileFeature)
	ensures r.id == f.id, r.tag_ids@ == f.tag_ids@, r.geom_type == f.geom_type, r.geom_data@ == f.geom_data@
{ unimplemented!() }
// assumption A-merge-1 (memory bound): a key/value table that exists in memory has fewer than 2^30 entries, so positions fit the
// 32-bit tag ids (VTLPMap::add casts the length to u32 without a check)
#[verifier::external_body]
pub proof fn axiom_tables_fit(pm: &PropertyManager) ensures pm.key.list@.len() < 0x3fff_ffff, pm.val.list@.len() < 0x3fff_ffff { }

// Option::map(|properties| Ok((feature, properties))) (R7)
pub fn vmap_ok_fn(o: Option<GeoProperties>, feature: VectorTileFeature) -> (r: Option<Result<(VectorTileFeature, GeoProperties), VErr>>)
	ensures match o { Some(p) => r == Some(Ok::<(VectorTileFeature, GeoProperties), VErr>((feature, p))), None => r is None }
{ match o { Some(p) => Some(Ok((feature, p))), None => None } }
// same feature up to the tag ids (which index layer-specific tables)
pub open spec fn same_body(f: VectorTileFeature, g: VectorTileFeature) -> bool { f.id == g.id && f.geom_type == g.geom_type && f.geom_data@ == g.geom_data@ }
impl VectorTileLayer {
	// the property set feature i denotes in this layer's tables (MVT 2.1 §4.4)
	pub open spec fn props_of(&self, i: int) -> Map<AbsStr, GeoValue> {
		let t = self.features@[i].tag_ids@; tags_map(self.property_manager.key.list@, self.property_manager.val.list@, t, t.len() as int / 2) }
	pub open spec fn tags_ok(&self, i: int) -> bool {
		let t = self.features@[i].tag_ids@; t.len() % 2 == 0 && tags_in_range(self.property_manager.key.list@.len() as int, self.property_manager.val.list@.len() as int, t, t.len() as int / 2) }
	pub open spec fn layer_ok(&self) -> bool { self.property_manager.inv() && forall|i: int| 0 <= i < self.features@.len() ==> #[trigger] self.tags_ok(i) }
	pub open spec fn same_frame(&self, o: &VectorTileLayer) -> bool { self.name == o.name && self.extent == o.extent && self.version == o.version }

//@extract fn file="versatiles_geometry/src/vector_tile/layer.rs" scope="impl VectorTileLayer" name="encode_tag_ids"
//@ret r
//@spec
		requires old(self).property_manager.inv(), old(self).property_manager.key.list@.len() < 0x3fff_ffff, old(self).property_manager.val.list@.len() < 0x3fff_ffff,
		ensures final(self).property_manager.inv(), final(self).features == old(self).features, final(self).same_frame(old(self)),
			old(self).property_manager.key.list@.len() <= final(self).property_manager.key.list@.len(),
			forall|i: int| 0 <= i < old(self).property_manager.key.list@.len() ==> final(self).property_manager.key.list@[i] == old(self).property_manager.key.list@[i],
			old(self).property_manager.val.list@.len() <= final(self).property_manager.val.list@.len(),
			forall|i: int| 0 <= i < old(self).property_manager.val.list@.len() ==> final(self).property_manager.val.list@[i] == old(self).property_manager.val.list@[i],
			r@.len() % 2 == 0, tags_in_range(final(self).property_manager.key.list@.len() as int, final(self).property_manager.val.list@.len() as int, r@, r@.len() as int / 2),
			tags_map(final(self).property_manager.key.list@, final(self).property_manager.val.list@, r@, r@.len() as int / 2) == properties.0.view(),
//@end
//@extract fn file="versatiles_geometry/src/vector_tile/layer.rs" scope="impl VectorTileLayer" name="decode_tag_ids"
//@rewrite "tag_ids: &[u32]" => "tag_ids: &Vec<u32>" R6
//@ret r
//@spec
		ensures r is Ok ==> tag_ids@.len() % 2 == 0 && tags_in_range(self.property_manager.key.list@.len() as int, self.property_manager.val.list@.len() as int, tag_ids@, tag_ids@.len() as int / 2),
			r is Ok ==> r.unwrap().0.view() == tags_map(self.property_manager.key.list@, self.property_manager.val.list@, tag_ids@, tag_ids@.len() as int / 2),
//@end
	// ---- filter_map_properties: the per-feature closure (lifted, R10). A feature whose tag ids do not address the layer's tables (they
	// come from the file) must lead to an error, not to a panic (C19); the properties handed to the callback are the decoded ones (C11)
//@extract closure file="versatiles_geometry/src/vector_tile/layer.rs" scope="impl VectorTileLayer" name="filter_map_properties" head="|feature: VectorTileFeature|" sig="pub fn fmp_item<F: Fn(GeoProperties) -> Option<GeoProperties>>(&self, filter_fn: &F, feature: VectorTileFeature) -> Option<Result<(VectorTileFeature, GeoProperties), VErr>>"
//@rewrite "filter_fn(" => "vmap_ok_fn(filter_fn(" R7
//@rewrite ".map(|properties| Ok((feature, properties)))" => ", feature)" R7
//@ret r
//@spec
		requires forall|p: GeoProperties| filter_fn.requires((p,)),
		ensures match r {
			Some(Ok(pair)) => same_body(pair.0, feature) && pair.0.tag_ids@ == feature.tag_ids@
				&& feature.tag_ids@.len() % 2 == 0 && tags_in_range(self.property_manager.key.list@.len() as int, self.property_manager.val.list@.len() as int, feature.tag_ids@, feature.tag_ids@.len() as int / 2),
			_ => true,
		},
//@end
//@extract fn file="versatiles_geometry/src/vector_tile/layer.rs" scope="impl VectorTileLayer" name="add_vector_tile_features"
//@spec
		requires old(self).layer_ok(), old(self).property_manager.key.list@.len() < 0x3fff_ffff, old(self).property_manager.val.list@.len() < 0x3fff_ffff,
		ensures final(self).layer_ok(), final(self).same_frame(old(self)),
			final(self).features@.len() == old(self).features@.len() + 1,
			// the new feature: same id, geometry type and geometry; its tag ids denote the given property set
			same_body(final(self).features@[old(self).features@.len() as int], feature),
			final(self).props_of(old(self).features@.len() as int) == properties.0.view(),
			// the features already present are untouched and denote what they denoted
			forall|i: int| 0 <= i < old(self).features@.len() ==> #[trigger] final(self).features@[i] == old(self).features@[i],
			forall|i: int| 0 <= i < old(self).features@.len() ==> #[trigger] final(self).props_of(i) == old(self).props_of(i),
//@start
		let ghost fb = feature;
//@after "self.features.push(feature);"
		proof {
			let n = old(self).features@.len() as int;
			assert(same_body(self.features@[n], fb));
			assert(self.tags_ok(n));
			assert(self.props_of(n) == properties.0.view());
			assert forall|i: int| 0 <= i < n implies self.features@[i] == old(self).features@[i] && #[trigger] self.props_of(i) == old(self).props_of(i) && self.tags_ok(i) by {
				assert(old(self).tags_ok(i));
				let t = old(self).features@[i].tag_ids@;
				lemma_tags_map_stable(old(self).property_manager.key.list@, old(self).property_manager.val.list@, t, self.property_manager.key.list@, self.property_manager.val.list@, t, t.len() as int / 2);
				lemma_in_range_mono(old(self).property_manager.key.list@.len() as int, old(self).property_manager.val.list@.len() as int, self.property_manager.key.list@.len() as int, self.property_manager.val.list@.len() as int, t, t.len() as int / 2);
			}
			assert forall|i: int| 0 <= i < self.features@.len() implies #[trigger] self.tags_ok(i) by { if i < n { assert(self.props_of(i) == old(self).props_of(i)); } }
		}
//@end
//@extract fn file="versatiles_geometry/src/vector_tile/layer.rs" scope="impl VectorTileLayer" name="add_from_layer"
//@rewrite "vec![]" => "Vec::new()" R7 optional
//@rewrite "for feature in features {" => "for vi in 0..features.len() { let feature = clone_feature(&features[vi]);" R6
//@ret r
//@spec
		requires old(self).layer_ok(),
		ensures r is Ok ==> (final(self).layer_ok() && final(self).same_frame(old(self))
			&& final(self).features@.len() == old(self).features@.len() + layer.features@.len()
			// every feature of the added layer arrives, in order, with its id, geometry and property set
			&& (forall|j: int| 0 <= j < layer.features@.len() ==> same_body(final(self).features@[old(self).features@.len() + j], #[trigger] layer.features@[j])
				&& final(self).props_of(old(self).features@.len() + j) == layer.props_of(j))
			// the features already present are untouched and denote what they denoted
			&& (forall|i: int| 0 <= i < old(self).features@.len() ==> final(self).features@[i] == old(self).features@[i] && #[trigger] final(self).props_of(i) == old(self).props_of(i))),
//@at "let mut features ="
		let ghost layer0 = layer;
//@loop 1
			invariant self.layer_ok(), self.same_frame(old(self)),
				features@ == layer0.features@, layer.property_manager == layer0.property_manager,
				self.features@.len() == old(self).features@.len() + vi,
				forall|j: int| 0 <= j < vi ==> same_body(self.features@[old(self).features@.len() + j], #[trigger] layer0.features@[j])
					&& self.props_of(old(self).features@.len() + j) == layer0.props_of(j),
				forall|i: int| 0 <= i < old(self).features@.len() ==> #[trigger] self.features@[i] == old(self).features@[i],
				forall|i: int| 0 <= i < old(self).features@.len() ==> #[trigger] self.props_of(i) == old(self).props_of(i),
//@loopstart 1
			proof { axiom_tables_fit(&self.property_manager); }
			let ghost pre = *self;
//@loopend 1
			proof {
				let n0 = old(self).features@.len() as int;
				assert(pre.features@.len() == n0 + vi);
				assert forall|j: int| 0 <= j < vi + 1 implies same_body(self.features@[n0 + j], #[trigger] layer0.features@[j]) && self.props_of(n0 + j) == layer0.props_of(j) by {
					if j < vi {
						assert(self.features@[n0 + j] == pre.features@[n0 + j]);
						assert(self.props_of(n0 + j) == pre.props_of(n0 + j));
						assert(same_body(pre.features@[n0 + j], layer0.features@[j]));
					} else {
						assert(layer0.props_of(j) == tags_map(layer.property_manager.key.list@, layer.property_manager.val.list@, features@[j].tag_ids@, features@[j].tag_ids@.len() as int / 2));
					}
				}
				assert forall|i: int| 0 <= i < n0 implies self.features@[i] == old(self).features@[i] && #[trigger] self.props_of(i) == old(self).props_of(i) by {
					assert(self.features@[i] == pre.features@[i]);
					assert(self.props_of(i) == pre.props_of(i));
					assert(pre.props_of(i) == old(self).props_of(i));
				}
			}
//@end
}
} // verus!
#[derive(Clone, PartialEq, Eq, Hash, Debug)] pub struct AbsStr { s: String }
#[derive(Clone, PartialEq, Eq, Hash, Debug)] pub struct GeoValue { v: u8 }
fn main() {}
