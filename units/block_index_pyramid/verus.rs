// unit block_index_pyramid — versatiles_container/src/container/versatiles/types/block_index.rs: the coverage a versatiles
// container advertises (BlockIndex::get_bbox_pyramid = hull of the global boxes of all listed blocks), over the real
// std HashMap iteration (vstd's prophetic iterator model: `iter()` yields every key/value pair of the map once) — C03, C01, C16
use vstd::prelude::*;
use std::collections::HashMap;
use std::mem::swap;
use std::ops::{Div, Rem, Shr};
use vstd::std_specs::hash::*;
use vstd::std_specs::iter::IteratorSpec;
verus! {
//@include common/prelude.vrs
//@include common/tile_bbox.vrs
//@include common/pyramid_abs.vrs

#[derive(Clone, Copy, PartialEq, Eq, Debug, Structural)]
//@extract struct file="versatiles_core/src/types/byte_range.rs" name="ByteRange"
//@end
//@extract struct file="versatiles_container/src/container/versatiles/types/block_definition.rs" name="BlockDefinition"
//@end
impl BlockDefinition {
//@extract fn file="versatiles_container/src/container/versatiles/types/block_definition.rs" scope="impl BlockDefinition" name="get_global_bbox"
//@ret r
//@spec
		ensures *r == self.global_bbox
//@end
}
//@extract struct file="versatiles_container/src/container/versatiles/types/block_index.rs" name="BlockIndex"
//@end
impl BlockIndex {
	// every listed block carries a well-formed global box (what BlockDefinition::from_blob / ::new establish: Kani unit versatiles_codec)
	pub open spec fn ok(&self) -> bool {
		forall|k: TileCoord3| self.lookup@.contains_key(k) ==> (#[trigger] self.lookup@[k]).global_bbox.wf()
	}
//@extract fn file="versatiles_container/src/container/versatiles/types/block_index.rs" scope="impl BlockIndex" name="get_bbox_pyramid"
//@ret r
//@spec
		requires obeys_key_model::<TileCoord3>(), self.ok()
		// C03: the advertised coverage contains the global box of every listed block (a tile the reader returns lies in
		// the global box of its block: unit versatiles_reader), and a level without any block is advertised empty
		ensures r.wf(),
			forall|k: TileCoord3, x: int, y: int| self.lookup@.contains_key(k) && (#[trigger] self.lookup@[k]).global_bbox.has(x, y)
				==> #[trigger] r.level(self.lookup@[k].global_bbox.level as int).has(x, y),
			forall|z: int| 0 <= z < 32 && (forall|k: TileCoord3| self.lookup@.contains_key(k) ==> (#[trigger] self.lookup@[k]).global_bbox.level != z)
				==> (#[trigger] r.level(z)).empty(),
//@loop 1 iter=it
			invariant pyramid.wf(), self.ok(), obeys_key_model::<TileCoord3>(),
				forall|i: int| 0 <= i < it.seq().len() ==> self.lookup@.contains_key(*(#[trigger] it.seq()[i]).0) && self.lookup@[*it.seq()[i].0] == *it.seq()[i].1,
				forall|k: TileCoord3| self.lookup@.contains_key(k) ==> exists|i: int| 0 <= i < it.seq().len() && *(#[trigger] it.seq()[i]).0 == k,
				forall|i: int, x: int, y: int| 0 <= i < it.index@ && (#[trigger] it.seq()[i]).1.global_bbox.has(x, y)
					==> #[trigger] pyramid.level(it.seq()[i].1.global_bbox.level as int).has(x, y),
				forall|z: int| 0 <= z < 32 && (forall|i: int| 0 <= i < it.index@ ==> (#[trigger] it.seq()[i]).1.global_bbox.level != z)
					==> (#[trigger] pyramid.level(z)).empty(),
//@end
}
} // verus!
impl PartialEq for TileCoord3 { fn eq(&self, o: &Self) -> bool { self.x == o.x && self.y == o.y && self.z == o.z } }
impl Eq for TileCoord3 {}
impl std::hash::Hash for TileCoord3 { fn hash<H: std::hash::Hasher>(&self, h: &mut H) { self.x.hash(h); self.y.hash(h); self.z.hash(h); } }
fn main() {}
