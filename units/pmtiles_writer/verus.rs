// unit pmtiles_writer — versatiles_container/src/container/pmtiles/writer.rs: PMTilesWriter::write_to_writer (C01): the layout of the
// written archive. Header at 0 (127 bytes), root directory directly behind it and entirely inside the first 16384 bytes, metadata at
// 16384, tile data behind the metadata, leaf directories behind the tile data — no section overwrites another; every tile the source
// streams is in the tile section at the range its directory entry holds (relative to the tile section), with its Hilbert tile id.
use vstd::prelude::*;
use std::mem::swap;
use std::ops::{Div, Rem};
verus! {
//@include common/prelude.vrs
//@include common/tile_bbox.vrs
//@include common/transform.vrs
//@include common/pbf_blob.vrs
//@include common/compression.vrs
//@include common/pyramid_abs.vrs
//@include common/source_abs.vrs

#[derive(Clone, Copy, PartialEq, Eq, Debug, Structural)]
//@extract struct file="versatiles_core/src/types/byte_range.rs" name="ByteRange"
//@end
impl ByteRange {
//@extract fn file="versatiles_core/src/types/byte_range.rs" scope="impl ByteRange" name="new"
//@ret r
//@spec
		ensures r.offset == offset, r.length == length
//@end
//@extract fn file="versatiles_core/src/types/byte_range.rs" scope="impl ByteRange" name="get_shifted_backward"
//@ret r
//@spec
		requires self.offset >= offset
		ensures r.offset == self.offset - offset, r.length == self.length
//@end
}
#[derive(Clone, Copy, PartialEq, Eq, Debug, Structural)]
//@extract struct file="versatiles_container/src/container/pmtiles/types/entry_v3.rs" name="EntryV3"
//@end
impl EntryV3 {
//@extract fn file="versatiles_container/src/container/pmtiles/types/entry_v3.rs" scope="impl EntryV3" name="new"
//@ret r
//@spec
		ensures r.tile_id == tile_id, r.range == range, r.run_length == run_length
//@end
}
//@extract struct file="versatiles_container/src/container/pmtiles/types/entries_v3.rs" name="EntriesV3"
//@end
//@extract struct file="versatiles_container/src/container/pmtiles/types/directory_v3.rs" name="Directory"
//@end
pub open spec fn came_from(e: EntryV3, e0: Seq<EntryV3>) -> bool { exists|j: int| 0 <= j < e0.len() && e == #[trigger] e0[j] }
impl EntriesV3 {
//@extract fn file="versatiles_container/src/container/pmtiles/types/entries_v3.rs" scope="impl EntriesV3" name="new"
//@ret r
//@spec
		ensures r.entries@.len() == 0
//@end
//@extract fn file="versatiles_container/src/container/pmtiles/types/entries_v3.rs" scope="impl EntriesV3" name="push"
//@spec
		ensures final(self).entries@ == old(self).entries@.push(entry)
//@end
//@extract fn file="versatiles_container/src/container/pmtiles/types/entries_v3.rs" scope="impl EntriesV3" name="len"
//@ret r
//@spec
		ensures r == self.entries@.len()
//@end
//@extract fn file="versatiles_container/src/container/pmtiles/types/entries_v3.rs" scope="impl EntriesV3" name="tile_count"
//@ret r
//@spec
		ensures r == self.entries@.len()
//@end
	// as_directory (sort + size search; its leaf split is unit pmtiles_dir): the root directory fits the given budget; the entries are
	// permuted (sorted by id), none is lost
	#[verifier::external_body]
	pub fn as_directory(&mut self, target_root_len: u64, compression: &TileCompression) -> (r: Result<Directory, VErr>)
		ensures r is Ok ==> r.unwrap().root_bytes@.len() <= target_root_len, final(self).entries@.len() == old(self).entries@.len(),
			forall|i: int| 0 <= i < final(self).entries@.len() ==> #[trigger] came_from(final(self).entries@[i], old(self).entries@),
			r is Ok ==> r.unwrap().root_bytes@ == dir_root(final(self).entries@, *compression) && r.unwrap().leaves_bytes@ == dir_leaves(final(self).entries@, *compression),
	{ unimplemented!() }
}
// `dir_root(e, c)` / `dir_leaves(e, c)`: the root and leaf directory bytes as_directory produces for the sorted entries e (leaf split: unit
// pmtiles_dir::build_roots_leaves; column layout: serialize_entries; decoder: pmtiles_dir_dec)
pub uninterp spec fn dir_root(e: Seq<EntryV3>, c: TileCompression) -> Seq<u8>;
pub uninterp spec fn dir_leaves(e: Seq<EntryV3>, c: TileCompression) -> Seq<u8>;
// R6: the 127-byte header: only the fields this function sets are visible (serialize / layout: Kani unit pmtiles_codec, complete)
pub struct HeaderV3 { pub root_dir: ByteRange, pub metadata: ByteRange, pub leaf_dirs: ByteRange, pub tile_data: ByteRange, pub addressed_tiles_count: u64,
	pub tile_entries_count: u64, pub tile_contents_count: u64, pub clustered: bool, pub internal_compression: PMTilesCompression, pub rest: HeaderRest }
#[verifier::external_body] pub struct HeaderRest { }
#[derive(Clone, Copy, PartialEq, Eq, Structural)]
pub enum PMTilesCompression { Unknown, None, Gzip, Brotli, Zstd }
impl PMTilesCompression { #[verifier::external_body] pub fn from_value(c: TileCompression) -> (r: Result<PMTilesCompression, VErr>) { unimplemented!() } }
pub uninterp spec fn header_wire(h: HeaderV3) -> Seq<u8>;
impl HeaderV3 {
	#[verifier::external_body]
	pub fn from_parameters(p: &TilesReaderParameters) -> (r: HeaderV3) { unimplemented!() }
	pub fn len() -> (r: u64) ensures r == 127 { 127 }      // verbatim value of HeaderV3::len()
	#[verifier::external_body]
	pub fn serialize(&self) -> (r: Result<Blob, VErr>) ensures r is Ok ==> r.unwrap()@ == header_wire(*self) && r.unwrap()@.len() == 127 { unimplemented!() }
}
// R6: &mut dyn DataWriterTrait -> a byte string with a write position (std::io::Cursor<Vec<u8>> / File: writing at the position
// overwrites or extends, a gap is zero-filled). Assumption A-writer-1: the writes themselves do not fail inside the tile loop.
pub open spec fn write_at(b: Seq<u8>, p: int, x: Seq<u8>) -> Seq<u8> {
	Seq::new((if b.len() > p + x.len() { b.len() as int } else { p + x.len() }) as nat, |i: int| if p <= i < p + x.len() { x[i - p] } else if i < b.len() { b[i] } else { 0u8 })
}
pub proof fn lemma_write_at_self(b: Seq<u8>, p: int, x: Seq<u8>)
	requires 0 <= p
	ensures write_at(b, p, x).len() >= p + x.len(), write_at(b, p, x).subrange(p, p + x.len() as int) == x
{ assert(write_at(b, p, x).subrange(p, p + x.len() as int) =~= x); }
// a write leaves every window that does not overlap it as it was
pub proof fn lemma_write_at_other(b: Seq<u8>, p: int, x: Seq<u8>, lo: int, hi: int)
	requires 0 <= p, 0 <= lo <= hi <= b.len(), hi <= p || p + x.len() <= lo
	ensures write_at(b, p, x).len() >= b.len(), write_at(b, p, x).subrange(lo, hi) == b.subrange(lo, hi)
{ assert(write_at(b, p, x).subrange(lo, hi) =~= b.subrange(lo, hi)); }
pub struct AbsPosWriter { pub bytes: Ghost<Seq<u8>>, pub pos: u64 }
impl AbsPosWriter {
	#[verifier::external_body]
	pub fn set_position(&mut self, p: u64) -> (r: Result<(), VErr>) ensures r is Ok ==> final(self).pos == p && final(self).bytes@ == old(self).bytes@, r is Err ==> *final(self) == *old(self) { unimplemented!() }
	#[verifier::external_body]
	pub fn get_position(&mut self) -> (r: Result<u64, VErr>) ensures *final(self) == *old(self), r is Ok ==> r.unwrap() == old(self).pos { unimplemented!() }
	#[verifier::external_body]
	pub fn append(&mut self, blob: &Blob) -> (r: Result<ByteRange, VErr>)
		ensures r is Ok, r.unwrap().offset == old(self).pos && r.unwrap().length == blob@.len() && final(self).pos == old(self).pos + blob@.len()
			&& final(self).bytes@ == write_at(old(self).bytes@, old(self).pos as int, blob@),
	{ unimplemented!() }
	#[verifier::external_body]
	pub fn write_start(&mut self, blob: &Blob) -> (r: Result<(), VErr>)
		ensures r is Ok ==> final(self).pos == old(self).pos && final(self).bytes@ == write_at(old(self).bytes@, 0, blob@)
	{ unimplemented!() }
}
#[verifier::external_body] pub struct ProgressBar { }
impl ProgressBar {
	#[verifier::external_body] pub fn inc(&mut self, n: u64) { }
	#[verifier::external_body] pub fn set_position(&mut self, n: u64) { }
	#[verifier::external_body] pub fn finish(&mut self) { }
}
#[verifier::external_body] pub fn get_progress_bar0() -> ProgressBar { unimplemented!() }
// the 256-blocks of every level of the coverage (iter_levels / iter_bbox_grid(256): units pyramid_real, tile_bbox_iter): well-formed boxes
#[verifier::external_body] pub fn vblocks(p: &TileBBoxPyramid) -> (r: Vec<TileBBox>) ensures forall|i: int| 0 <= i < r@.len() ==> (#[trigger] r@[i]).wf() { unimplemented!() }
#[verifier::external_body] pub fn vsort_blocks(v: &mut Vec<TileBBox>) ensures final(v)@.len() == old(v)@.len(), forall|i: int| 0 <= i < final(v)@.len() ==> exists|j: int| 0 <= j < old(v)@.len() && (#[trigger] final(v)@[i]) == old(v)@[j] { unimplemented!() }
// `tile_id(c)`: the Hilbert id coord.get_tile_id() returns (Kani unit pmtiles_codec)
pub uninterp spec fn tile_id(c: TileCoord3) -> u64;
#[verifier::external_body]
pub fn coord_get_tile_id(c: &TileCoord3) -> (r: Result<u64, VErr>) ensures r is Ok <==> c.valid(), r is Ok ==> r.unwrap() == tile_id(*c) { unimplemented!() }
// the stream as a sequence (tile_stream.rs: next() yields every item once, in some order)
impl TileStream {
	pub uninterp spec fn rest(&self) -> Seq<(TileCoord3, Seq<u8>)>;
	#[verifier::external_body]
	pub fn next(&mut self) -> (r: Option<(TileCoord3, Blob)>)
		ensures match r { Some(it) => old(self).rest().len() > 0 && (it.0, it.1@) == old(self).rest()[0] && final(self).rest() == old(self).rest().subrange(1, old(self).rest().len() as int),
			None => old(self).rest().len() == 0 && final(self).rest() == old(self).rest() }
	{ unimplemented!() }
}
#[verifier::external_body]
pub proof fn axiom_stream_rest(s: &TileStream) ensures forall|c: TileCoord3, b: Seq<u8>| s.rest().contains((c, b)) <==> s.items().contains((c, b)) { }
#[verifier::external_body]
pub fn tilejson_into_blob(t: &TileJSON) -> (r: Blob) { unimplemented!() }

// the tile section (from offset tds) holds the bytes b at the range of entry e
pub open spec fn entry_in(f: Seq<u8>, tds: int, e: EntryV3, c: TileCoord3, b: Seq<u8>) -> bool {
	e.tile_id == tile_id(c) && e.run_length == 1 && e.range.length == b.len() && tds + e.range.offset + e.range.length <= f.len()
	&& f.subrange(tds + e.range.offset, tds + e.range.offset + e.range.length) == b
}
// entry e addresses, inside the tile section starting at tds, the bytes of the tile the source has at c, under c's Hilbert id
pub open spec fn good(src: AbsSource, f: Seq<u8>, tds: int, e: EntryV3, c: TileCoord3) -> bool { src.tile_at(c) is Some && entry_in(f, tds, e, c, src.tile_at(c).unwrap()) }
pub open spec fn all_good(src: AbsSource, f: Seq<u8>, tds: int, es: Seq<EntryV3>, cs: Seq<TileCoord3>, lim: int) -> bool {
	cs.len() == es.len() && forall|i: int| 0 <= i < es.len() ==> #[trigger] good(src, f, tds, es[i], cs[i]) && tds + es[i].range.offset + es[i].range.length <= lim
}
pub open spec fn has_tile(src: AbsSource, f: Seq<u8>, tds: int, e: EntryV3) -> bool { exists|c: TileCoord3| #[trigger] good(src, f, tds, e, c) }
pub open spec fn all_addressed(src: AbsSource, f: Seq<u8>, tds: int, ents: Seq<EntryV3>) -> bool {
	forall|i: int| 0 <= i < ents.len() ==> #[trigger] has_tile(src, f, tds, ents[i])
}
// a write at or behind `lim` (or entirely in front of the tile section) keeps every entry good
pub proof fn lemma_all_good_write(src: AbsSource, f: Seq<u8>, tds: int, es: Seq<EntryV3>, cs: Seq<TileCoord3>, lim: int, p: int, x: Seq<u8>)
	requires all_good(src, f, tds, es, cs, lim), 0 <= p, 0 <= tds, lim <= f.len(), lim <= p || p + x.len() <= tds
	ensures all_good(src, write_at(f, p, x), tds, es, cs, lim)
{
	assert forall|i: int| 0 <= i < es.len() implies #[trigger] good(src, write_at(f, p, x), tds, es[i], cs[i]) && tds + es[i].range.offset + es[i].range.length <= lim by {
		assert(good(src, f, tds, es[i], cs[i]));
		lemma_write_at_other(f, p, x, tds + es[i].range.offset, tds + es[i].range.offset + es[i].range.length);
	}
}
pub proof fn lemma_all_addressed(src: AbsSource, f: Seq<u8>, tds: int, e0: Seq<EntryV3>, cs0: Seq<TileCoord3>, lim: int, e1: Seq<EntryV3>)
	requires all_good(src, f, tds, e0, cs0, lim), forall|i: int| 0 <= i < e1.len() ==> #[trigger] came_from(e1[i], e0)
	ensures all_addressed(src, f, tds, e1)
{
	assert forall|i: int| 0 <= i < e1.len() implies #[trigger] has_tile(src, f, tds, e1[i]) by {
		assert(came_from(e1[i], e0));
		let j = choose|j: int| 0 <= j < e0.len() && e1[i] == #[trigger] e0[j];
		assert(good(src, f, tds, e0[j], cs0[j]));
	}
}
pub struct PMTilesWriter { }
impl PMTilesWriter {
//@extract fn file="versatiles_container/src/container/pmtiles/writer.rs" scope="impl TilesWriterTrait for PMTilesWriter" name="write_to_writer"
//@prerewrite "get_progress_bar( \"converting tiles\", blocks.iter().map(|block| block.count_tiles()).sum::<u64>(), )" => "get_progress_bar0()"
//@prerewrite "pyramid .iter_levels() .flat_map(|level_bbox| level_bbox.iter_bbox_grid(256)) .collect()" => "vblocks(pyramid)"
//@prerewrite "blocks.sort_by_cached_key(|b| b.get_tile_id().unwrap());" => "vsort_blocks(&mut blocks);"
//@prerewrite "let mut metadata: Blob = reader.get_tilejson().into();" => "let mut metadata: Blob = tilejson_into_blob(reader.get_tilejson());"
//@prerewrite "tile_count += bbox.count_tiles(); progress.set_position(tile_count);" => ""
//@rewrite "reader: &mut dyn TilesReaderTrait" => "reader: &mut AbsSource" R6
//@rewrite "writer: &mut dyn DataWriterTrait" => "writer: &mut AbsPosWriter" R6
//@rewrite "coord.get_tile_id()" => "coord_get_tile_id(&coord)" R7
//@rewrite "while let Some((coord, blob)) = stream.next() {" => "loop { let vnext = stream.next(); if vnext.is_none() { break; } let (coord, blob) = vnext.unwrap();" R7
//@ret r
//@spec
		// a fresh writer (the callers create the file / blob for this call)
		requires old(writer).bytes@.len() == 0, forall|c: TileCoord3| (#[trigger] old(reader).tile_at(c)) is Some ==> c.valid(),
		ensures r is Ok ==> ({ let f = final(writer).bytes@;
			exists|h: HeaderV3, root: Seq<u8>, meta: Seq<u8>, leaves: Seq<u8>| #![trigger header_wire(h), write_at(root, 0, meta), write_at(leaves, 0, meta)]
				// header, root directory, metadata, tile data, leaf directories: where the PMTiles v3 layout wants them, none overwriting another
				f.subrange(0, 127) == header_wire(h)
				&& h.root_dir.offset == 127 && h.root_dir.length == root.len() && 127 + root.len() <= 16384 && f.subrange(127, 127 + root.len() as int) == root
				&& h.metadata.offset == 16384 && h.metadata.length == meta.len() && f.subrange(16384, 16384 + meta.len() as int) == meta
				&& h.tile_data.offset == 16384 + meta.len()
				&& h.leaf_dirs.offset == h.tile_data.offset + h.tile_data.length && h.leaf_dirs.length == leaves.len()
				&& f.subrange(h.leaf_dirs.offset as int, h.leaf_dirs.offset as int + leaves.len() as int) == leaves
				// the directories are those of a list of entries each of which addresses, in the tile section, the bytes of a tile of the source under its Hilbert id
				&& (exists|ents: Seq<EntryV3>| #![trigger dir_root(ents, TileCompression::Gzip)] root == dir_root(ents, TileCompression::Gzip) && leaves == dir_leaves(ents, TileCompression::Gzip)
					&& all_addressed(*old(reader), f, h.tile_data.offset as int, ents)) }),
//@after "vsort_blocks(&mut blocks);"
		proof { assert forall|i: int| 0 <= i < blocks@.len() implies (#[trigger] blocks@[i]).wf() by { } }
//@at "let tile_data_start ="
		let ghost meta = metadata@;
		proof { lemma_write_at_self(old(writer).bytes@, 16384, meta); }
//@after "let tile_data_start = writer.get_position()?;"
		let ghost src = *reader;
		let ghost mut cs: Ghost<Seq<TileCoord3>> = Ghost(Seq::empty());
		proof { assert(writer.pos == writer.bytes@.len()); assert(src == *old(reader)); }
		proof { assert(writer.bytes@.subrange(16384, 16384 + meta.len() as int) == meta); }
//@loop 1 iter=it
			invariant *reader == src, forall|i: int| 0 <= i < blocks@.len() ==> (#[trigger] blocks@[i]).wf(),
				writer.pos == writer.bytes@.len(), all_good(src, writer.bytes@, tile_data_start as int, entries.entries@, cs@, writer.pos as int), forall|c: TileCoord3| (#[trigger] src.tile_at(c)) is Some ==> c.valid(),
				tile_data_start == 16384 + meta.len(), writer.pos >= tile_data_start, writer.bytes@.len() >= 16384 + meta.len(),
				writer.bytes@.subrange(16384, 16384 + meta.len() as int) == meta,
				header.metadata.offset == 16384 && header.metadata.length == meta.len(),
//@after "let mut stream = reader.get_bbox_tile_stream(bbox.clone());"
			proof { axiom_stream_rest(&stream);
				assert forall|i: int| 0 <= i < stream.rest().len() implies (#[trigger] stream.rest()[i]).0.valid() by {
					let x = stream.rest()[i]; assert(stream.rest().contains(x)); assert(stream.items().contains((x.0, x.1))); assert(src.tile_at(x.0) == Some(x.1)); }
				assert forall|i: int| 0 <= i < stream.rest().len() implies src.tile_at((#[trigger] stream.rest()[i]).0) == Some(stream.rest()[i].1) by {
					let x = stream.rest()[i]; assert(stream.rest().contains(x)); assert(stream.items().contains((x.0, x.1))); } }
//@loop 2
				invariant *reader == src, writer.pos == writer.bytes@.len(), all_good(src, writer.bytes@, tile_data_start as int, entries.entries@, cs@, writer.pos as int),
					forall|i: int| 0 <= i < stream.rest().len() ==> src.tile_at((#[trigger] stream.rest()[i]).0) == Some(stream.rest()[i].1), tile_data_start == 16384 + meta.len(), writer.pos >= tile_data_start, writer.bytes@.len() >= 16384 + meta.len(),
					writer.bytes@.subrange(16384, 16384 + meta.len() as int) == meta,
					header.metadata.offset == 16384 && header.metadata.length == meta.len(),
					forall|i: int| 0 <= i < stream.rest().len() ==> (#[trigger] stream.rest()[i]).0.valid(),
				decreases stream.rest().len(),
//@loopstart 2
				let ghost b0 = writer.bytes@; let ghost p0 = writer.pos as int; let ghost rest0 = stream.rest();
//@after "let (coord, blob) = vnext.unwrap();"
				proof { assert(rest0[0].0.valid()); assert(src.tile_at(rest0[0].0) == Some(rest0[0].1));
					assert forall|i: int| 0 <= i < stream.rest().len() implies (#[trigger] stream.rest()[i]).0.valid() && src.tile_at(stream.rest()[i].0) == Some(stream.rest()[i].1) by { assert(stream.rest()[i] == rest0[i + 1]); } }
				let ghost es0 = entries.entries@;
//@after "let range = writer.append(&blob).unwrap();"
				proof { lemma_write_at_other(b0, p0, blob@, 16384, 16384 + meta.len() as int); lemma_all_good_write(src, b0, tile_data_start as int, es0, cs@, p0, p0, blob@); lemma_write_at_self(b0, p0, blob@); }
//@after "entries.push(EntryV3::new(id, range.get_shifted_backward(tile_data_start), 1));"
				proof { cs = Ghost(cs@.push(coord));
					let e = entries.entries@[es0.len() as int];
					assert(good(src, writer.bytes@, tile_data_start as int, e, coord));
					assert forall|i: int| 0 <= i < entries.entries@.len() implies #[trigger] good(src, writer.bytes@, tile_data_start as int, entries.entries@[i], cs@[i]) && tile_data_start + entries.entries@[i].range.offset + entries.entries@[i].range.length <= writer.pos by {
						if i < es0.len() { assert(good(src, writer.bytes@, tile_data_start as int, es0[i], cs@[i])); } } }
//@at "writer.set_position(HeaderV3::len())?;"
		proof { assert(src == *old(reader)); }
		let ghost b1 = writer.bytes@; let ghost e0 = entries.entries@; let ghost cs0 = cs@; let ghost tds = tile_data_start as int; let ghost tde = tile_data_end as int;
		proof { assert(all_good(src, b1, tds, e0, cs0, tde)); }
//@after "header.root_dir = writer.append(&directory.root_bytes)?;"
		let ghost root = directory.root_bytes@; let ghost b2 = writer.bytes@;
		proof { lemma_write_at_other(b1, 127, root, 16384, 16384 + meta.len() as int); lemma_write_at_self(b1, 127, root); lemma_all_good_write(src, b1, tds, e0, cs0, tde, 127, root); }
//@after "header.leaf_dirs = writer.append(&directory.leaves_bytes)?;"
		let ghost leaves = directory.leaves_bytes@; let ghost b3 = writer.bytes@;
		proof { lemma_write_at_other(b2, tile_data_end as int, leaves, 16384, 16384 + meta.len() as int); lemma_write_at_other(b2, tile_data_end as int, leaves, 127, 127 + root.len() as int);
			lemma_write_at_self(b2, tile_data_end as int, leaves); lemma_all_good_write(src, b2, tds, e0, cs0, tde, tde, leaves); }
//@at "Ok(())"
		proof { let hw = header_wire(header);
			lemma_write_at_other(b3, 0, hw, 16384, 16384 + meta.len() as int); lemma_write_at_other(b3, 0, hw, 127, 127 + root.len() as int);
			lemma_write_at_other(b3, 0, hw, tile_data_end as int, tile_data_end as int + leaves.len() as int); lemma_write_at_self(b3, 0, hw);
			assert(write_at(root, 0, meta).len() >= 0); assert(write_at(leaves, 0, meta).len() >= 0);
			lemma_all_good_write(src, b3, tds, e0, cs0, tde, 0, hw);
			let e1 = entries.entries@; let f = writer.bytes@;
			assert(root == dir_root(e1, TileCompression::Gzip)); assert(leaves == dir_leaves(e1, TileCompression::Gzip));
			assert(header.tile_data.offset as int == tds);
			let hoff = header.tile_data.offset as int; let src0 = *old(reader);
			assert(src0 == src && hoff == tds);
			lemma_all_addressed(src, f, tds, e0, cs0, tde, e1);
			assert(all_addressed(src0, f, hoff, e1));
			assert(exists|ents: Seq<EntryV3>| #![trigger dir_root(ents, TileCompression::Gzip)] root == dir_root(ents, TileCompression::Gzip) && leaves == dir_leaves(ents, TileCompression::Gzip)
				&& all_addressed(src0, f, hoff, ents)); }
//@end
}
} // verus!
fn main() {}
