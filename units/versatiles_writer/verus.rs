// unit versatiles_writer — versatiles_container/src/container/versatiles/writer.rs: VersaTilesWriter::write_block, the write side of a
// block (C01): every tile the source streams for the block's box is in the written tile section at the (block-relative) byte range that
// the written index holds at the tile's row-major position; small tiles with equal bytes share a range; positions no tile was streamed
// for keep the empty range. (The read side: units versatiles_reader, tile_index, versatiles_stream.)
use vstd::prelude::*;
use std::mem::swap;
use std::ops::{Div, Rem};
verus! {
//@include common/prelude.vrs
//@include common/tile_bbox.vrs
//@include common/transform.vrs
//@include common/pbf_blob.vrs
//@include common/compression.vrs
//@include common/pyramid_abs.vrs
//@include common/source_abs.vrs

#[derive(Clone, Copy, PartialEq, Eq, Debug, Structural)]
//@extract struct file="versatiles_core/src/types/byte_range.rs" name="ByteRange"
//@end
impl ByteRange {
//@extract fn file="versatiles_core/src/types/byte_range.rs" scope="impl ByteRange" name="new"
//@ret r
//@spec
		ensures r.offset == offset, r.length == length
//@end
//@extract fn file="versatiles_core/src/types/byte_range.rs" scope="impl ByteRange" name="shift_backward"
//@spec
		ensures final(self).length == old(self).length, old(self).offset >= offset ==> final(self).offset == old(self).offset - offset
//@end
}
//@extract struct file="versatiles_container/src/container/versatiles/types/block_definition.rs" name="BlockDefinition"
//@end
impl BlockDefinition {
//@extract fn file="versatiles_container/src/container/versatiles/types/block_definition.rs" scope="impl BlockDefinition" name="get_global_bbox"
//@ret r
//@spec
		ensures *r == self.global_bbox
//@end
}
//@extract struct file="versatiles_container/src/container/versatiles/types/tile_index.rs" name="TileIndex"
//@end
// `index_wire(s)`: the bytes TileIndex::as_blob writes for the entries s — the 12-byte records of the v02 layout (proved in unit tile_index)
pub uninterp spec fn index_wire(s: Seq<ByteRange>) -> Seq<u8>;
impl TileIndex {
//@extract fn file="versatiles_container/src/container/versatiles/types/tile_index.rs" scope="impl TileIndex" name="new_empty"
//@rewrite "vec![ByteRange::new(0, 0); count]" => "vec_of_empty_ranges(count)" R7
//@ret r
//@spec
		ensures r.index@.len() == count, forall|i: int| 0 <= i < count ==> (#[trigger] r.index@[i]).offset == 0 && r.index@[i].length == 0
//@end
//@extract fn file="versatiles_container/src/container/versatiles/types/tile_index.rs" scope="impl TileIndex" name="set"
//@spec
		requires index < old(self).index@.len()
		ensures final(self).index@ == old(self).index@.update(index as int, tile_byte_range)
//@end
	// as_brotli_blob = compress_brotli(as_blob()) (unit tile_index + codec axiom)
	#[verifier::external_body]
	pub fn as_brotli_blob(&self) -> (r: Result<Blob, VErr>) ensures r is Ok ==> dec_brotli(r.unwrap()@) == Some(index_wire(self.index@)) { unimplemented!() }
}
// vec![x; n] (std macro): n copies
#[verifier::external_body]
pub fn vec_of_empty_ranges(count: usize) -> (r: Vec<ByteRange>) ensures r@.len() == count, forall|i: int| 0 <= i < count ==> (#[trigger] r@[i]).offset == 0 && r@[i].length == 0 { unimplemented!() }

// R6: &mut dyn DataWriterTrait -> a growing byte string (DataWriterBlob / DataWriterFile: append writes at the end; assumption A-writer-1:
// the append itself does not fail — the real code unwraps it inside the stream callback)
pub struct AbsWriter { pub bytes: Vec<u8> }
impl AbsWriter {
	#[verifier::external_body]
	pub fn get_position(&mut self) -> (r: Result<u64, VErr>) ensures r is Ok ==> r.unwrap() == old(self).bytes@.len(), final(self).bytes@ == old(self).bytes@ { unimplemented!() }
	#[verifier::external_body]
	pub fn append(&mut self, blob: &Blob) -> (r: Result<ByteRange, VErr>)
		// (assumption A-file-size: a file has fewer than 2^62 bytes)
		ensures r is Ok, r.unwrap().offset == old(self).bytes@.len(), r.unwrap().length == blob@.len(), final(self).bytes@ == old(self).bytes@ + blob@, final(self).bytes@.len() < 0x3fff_ffff_ffff_ffff
	{ unimplemented!() }
}
// R6: HashMap<Vec<u8>, ByteRange> (looked up by slice) -> finite map from byte strings to ranges
#[verifier::external_body] pub struct ByteLookup { }
impl ByteLookup {
	pub uninterp spec fn map(&self) -> Map<Seq<u8>, ByteRange>;
	#[verifier::external_body]
	pub fn new() -> (r: ByteLookup) ensures r.map() == Map::<Seq<u8>, ByteRange>::empty() { unimplemented!() }
	#[verifier::external_body]
	pub fn get(&self, k: &Vec<u8>) -> (r: Option<&ByteRange>) ensures match r { Some(v) => self.map().contains_key(k@) && self.map()[k@] == *v, None => !self.map().contains_key(k@) } { unimplemented!() }
	#[verifier::external_body]
	pub fn insert(&mut self, k: Vec<u8>, v: ByteRange) -> (r: Option<ByteRange>) ensures final(self).map() == old(self).map().insert(k@, v) { unimplemented!() }
}
// trusted (tile_stream.rs): for_each_sync visits every item of the stream exactly once, one after the other, in some order
#[verifier::external_body]
pub struct ItemIter { }
impl ItemIter {
	pub uninterp spec fn seq(&self) -> Seq<(TileCoord3, Seq<u8>)>;
	pub uninterp spec fn pos(&self) -> int;
	#[verifier::external_body]
	pub fn next(&mut self) -> (r: Option<(TileCoord3, Blob)>)
		ensures final(self).seq() == old(self).seq(), 0 <= final(self).pos() <= final(self).seq().len(),
			match r {
				Some(it) => old(self).pos() < old(self).seq().len() && (it.0, it.1@) == old(self).seq()[old(self).pos()] && final(self).pos() == old(self).pos() + 1,
				None => old(self).pos() >= old(self).seq().len() && final(self).pos() == old(self).pos(),
			}
	{ unimplemented!() }
}
impl TileStream {
	#[verifier::external_body]
	pub fn into_item_iter(self) -> (r: ItemIter)
		ensures r.pos() == 0, forall|c: TileCoord3, b: Seq<u8>| r.seq().contains((c, b)) <==> self.items().contains((c, b))
	{ unimplemented!() }
}
#[verifier::external_body] pub struct ProgressBar { }
impl ProgressBar { #[verifier::external_body] pub fn inc(&mut self, n: u64) { } }

// the entry e addresses the bytes b inside the tile section t (block-relative offsets)
pub open spec fn entry_is(e: ByteRange, t: Seq<u8>, b: Seq<u8>) -> bool { e.offset + e.length <= t.len() && e.length == b.len() && t.subrange(e.offset as int, e.offset + e.length) == b }
pub open spec fn idx_of(bbox: TileBBox, c: TileCoord3) -> int { (c.y - bbox.y_min) * bbox.w() + (c.x - bbox.x_min) }
// what write_block leaves behind for the box of a block
pub open spec fn block_written(src: AbsSource, bbox: TileBBox, t: Seq<u8>, idx: Seq<ByteRange>) -> bool {
	idx.len() == bbox.w() * bbox.h()
	&& forall|c: TileCoord3| #![trigger src.tile_at(c)] bbox.has3(c) ==> (match src.tile_at(c) {
		Some(b) => entry_is(idx[idx_of(bbox, c)], t, b),
		None => idx[idx_of(bbox, c)].offset == 0 && idx[idx_of(bbox, c)].length == 0 })
}

// ---- the loop invariant of write_block, as predicates over sequences, and its preservation lemmas
pub open spec fn tsec(w: Seq<u8>, n0: int) -> Seq<u8> { w.subrange(n0, w.len() as int) }
pub open spec fn items_of(src: AbsSource, bbox: TileBBox, s: Seq<(TileCoord3, Seq<u8>)>) -> bool {
	forall|c: TileCoord3, b: Seq<u8>| s.contains((c, b)) <==> (bbox.has3(c) && src.tile_at(c) == Some(b)) }
pub open spec fn lookup_ok(m: Map<Seq<u8>, ByteRange>, t: Seq<u8>) -> bool { forall|k: Seq<u8>| #[trigger] m.contains_key(k) ==> entry_is(m[k], t, k) }
pub open spec fn seen_ok(bbox: TileBBox, idx: Seq<ByteRange>, t: Seq<u8>, s: Seq<(TileCoord3, Seq<u8>)>, pos: int) -> bool {
	forall|q: int| 0 <= q < pos ==> entry_is(idx[idx_of(bbox, (#[trigger] s[q]).0)], t, s[q].1) }
pub open spec fn untouched(bbox: TileBBox, idx: Seq<ByteRange>, s: Seq<(TileCoord3, Seq<u8>)>, pos: int) -> bool {
	forall|i: int| 0 <= i < idx.len() && (forall|q: int| 0 <= q < pos ==> idx_of(bbox, (#[trigger] s[q]).0) != i) ==> (#[trigger] idx[i]).offset == 0 && idx[i].length == 0 }
pub proof fn lemma_entry_stable(e: ByteRange, t: Seq<u8>, x: Seq<u8>, b: Seq<u8>)
	requires entry_is(e, t, b) ensures entry_is(e, t + x, b)
{ assert((t + x).subrange(e.offset as int, e.offset + e.length) =~= t.subrange(e.offset as int, e.offset + e.length)); }
pub proof fn lemma_idx_injective(bbox: TileBBox, c1: TileCoord3, c2: TileCoord3)
	requires bbox.wf(), bbox.has3(c1), bbox.has3(c2), idx_of(bbox, c1) == idx_of(bbox, c2)
	ensures c1 == c2, 0 <= idx_of(bbox, c1) < bbox.w() * bbox.h()
{ lemma_coord_index_inverse(bbox, c1.x as int, c1.y as int); lemma_coord_index_inverse(bbox, c2.x as int, c2.y as int); }
// one step: item s[pos] = (c, b) gets the entry e (either a range found in the lookup, or the freshly appended one); t1 extends t0
pub proof fn lemma_step(src: AbsSource, bbox: TileBBox, idx0: Seq<ByteRange>, t0: Seq<u8>, x: Seq<u8>, s: Seq<(TileCoord3, Seq<u8>)>, pos: int, e: ByteRange)
	requires bbox.wf(), items_of(src, bbox, s), 0 <= pos < s.len(), idx0.len() == bbox.w() * bbox.h(),
		seen_ok(bbox, idx0, t0, s, pos), untouched(bbox, idx0, s, pos), entry_is(e, t0 + x, s[pos].1),
	ensures ({ let i = idx_of(bbox, s[pos].0); 0 <= i < idx0.len()
		&& seen_ok(bbox, idx0.update(i, e), t0 + x, s, pos + 1) && untouched(bbox, idx0.update(i, e), s, pos + 1) }),
{
	let c = s[pos].0; let b = s[pos].1; let i = idx_of(bbox, c); let idx1 = idx0.update(i, e); let t1 = t0 + x;
	assert(s.contains(s[pos]));
	lemma_idx_injective(bbox, c, c);
	assert forall|q: int| 0 <= q < pos + 1 implies entry_is(idx1[idx_of(bbox, (#[trigger] s[q]).0)], t1, s[q].1) by {
		assert(s.contains(s[q]));
		lemma_idx_injective(bbox, s[q].0, s[q].0);
		if idx_of(bbox, s[q].0) == i { lemma_idx_injective(bbox, s[q].0, c); assert(src.tile_at(c) == Some(s[q].1)); assert(s[q].1 == b); }
		else { lemma_entry_stable(idx0[idx_of(bbox, s[q].0)], t0, x, s[q].1); }
	}
	assert forall|j: int| 0 <= j < idx1.len() && (forall|q: int| 0 <= q < pos + 1 ==> idx_of(bbox, (#[trigger] s[q]).0) != j) implies (#[trigger] idx1[j]).offset == 0 && idx1[j].length == 0 by {
		assert(idx_of(bbox, s[pos].0) != j);
		assert(idx1[j] == idx0[j]);
		assert(idx0[j].offset == 0 && idx0[j].length == 0);
	}
}
pub proof fn lemma_tail(a: Seq<u8>)
	ensures forall|y: Seq<u8>| #[trigger] tsec(a + y, a.len() as int) == y
{ assert forall|y: Seq<u8>| #[trigger] tsec(a + y, a.len() as int) == y by { assert(tsec(a + y, a.len() as int) =~= y); } }
pub proof fn lemma_lookup_stable(m: Map<Seq<u8>, ByteRange>, t: Seq<u8>, x: Seq<u8>)
	requires lookup_ok(m, t) ensures lookup_ok(m, t + x)
{ assert forall|k: Seq<u8>| #[trigger] m.contains_key(k) implies entry_is(m[k], t + x, k) by { lemma_entry_stable(m[k], t, x, k); } }
pub proof fn lemma_final(src: AbsSource, bbox: TileBBox, idx: Seq<ByteRange>, t: Seq<u8>, s: Seq<(TileCoord3, Seq<u8>)>)
	requires bbox.wf(), items_of(src, bbox, s), idx.len() == bbox.w() * bbox.h(), seen_ok(bbox, idx, t, s, s.len() as int), untouched(bbox, idx, s, s.len() as int)
	ensures block_written(src, bbox, t, idx)
{
	assert forall|c: TileCoord3| #![trigger src.tile_at(c)] bbox.has3(c) implies (match src.tile_at(c) {
		Some(b) => entry_is(idx[idx_of(bbox, c)], t, b),
		None => idx[idx_of(bbox, c)].offset == 0 && idx[idx_of(bbox, c)].length == 0 }) by {
		lemma_idx_injective(bbox, c, c);
		match src.tile_at(c) {
			Some(b) => { assert(s.contains((c, b))); let q = choose|q: int| 0 <= q < s.len() && s[q] == (c, b); assert(entry_is(idx[idx_of(bbox, s[q].0)], t, s[q].1)); }
			None => {
				assert forall|q: int| 0 <= q < s.len() implies idx_of(bbox, (#[trigger] s[q]).0) != idx_of(bbox, c) by {
					assert(s.contains(s[q]));
					if idx_of(bbox, s[q].0) == idx_of(bbox, c) { lemma_idx_injective(bbox, s[q].0, c); }
				}
			}
		}
	}
}
pub struct VersaTilesWriter { }
impl VersaTilesWriter {
//@extract fn file="versatiles_container/src/container/versatiles/writer.rs" scope="impl VersaTilesWriter" name="write_block" foreach="1"
//@rewrite "reader: &mut dyn TilesReaderTrait" => "reader: &mut AbsSource" R6
//@rewrite "writer: &mut dyn DataWriterTrait" => "writer: &mut AbsWriter" R6
//@rewrite "progress: &mut Box<dyn ProgressTrait>" => "progress: &mut ProgressBar" R6
//@rewrite "HashMap<Vec<u8>, ByteRange> = HashMap::new()" => "ByteLookup = ByteLookup::new()" R6
//@rewrite "tile_hash_lookup.get(blob.as_slice())" => "tile_hash_lookup.get(&blob.v)" R6
//@rewrite "tile_hash_lookup.insert(blob.into_vec(), range)" => "tile_hash_lookup.insert(blob.v, range)" R6
//@ret r
//@spec
		requires block.global_bbox.wf(),
		ensures *final(reader) == *old(reader), r is Ok ==> final(writer).bytes@.len() < 0x3fff_ffff_ffff_ffff,
			r is Ok ==> (exists|t: Seq<u8>, ib: Seq<u8>, idx: Seq<ByteRange>| #![trigger block_written(*old(reader), block.global_bbox, t, idx), dec_brotli(ib)]
			// the file grows by the tile section and the (brotli-compressed) index; the two returned ranges address them
			final(writer).bytes@ == old(writer).bytes@ + t + ib
			&& r.unwrap().0.offset == old(writer).bytes@.len() && r.unwrap().0.length == t.len()
			&& r.unwrap().1.offset == old(writer).bytes@.len() + t.len() && r.unwrap().1.length == ib.len()
			&& dec_brotli(ib) == Some(index_wire(idx))
			// every tile of the source inside the block's box is addressed by the index entry at its row-major position
			&& block_written(*old(reader), block.global_bbox, t, idx)),
//@at "let offset0 ="
		let ghost w0 = writer.bytes@;
		let ghost src = *reader;
//@at "let mut vfe_iter"
		let ghost gb = *bbox;
//@after "let mut vfe_iter = (tile_stream).into_item_iter();"
		let ghost n0 = w0.len() as int;
		proof { assert(tsec(writer.bytes@, n0) =~= Seq::<u8>::empty()); }
//@loop 1
					invariant gb.wf(), *bbox == gb, gb == block.global_bbox, offset0 == n0, n0 == w0.len(),
						writer.bytes@.len() >= n0, writer.bytes@.subrange(0, n0) == w0,
						tile_index.index@.len() == gb.w() * gb.h(),
						0 <= vfe_iter.pos() <= vfe_iter.seq().len(), items_of(src, gb, vfe_iter.seq()),
						lookup_ok(tile_hash_lookup.map(), tsec(writer.bytes@, n0)),
						seen_ok(gb, tile_index.index@, tsec(writer.bytes@, n0), vfe_iter.seq(), vfe_iter.pos()),
						untouched(gb, tile_index.index@, vfe_iter.seq(), vfe_iter.pos()),
					ensures vfe_iter.pos() >= vfe_iter.seq().len(),
					decreases vfe_iter.seq().len() - vfe_iter.pos(),
//@at "let index = bbox.get_tile_index2"
				let ghost p = vfe_iter.pos() - 1; let ghost sq = vfe_iter.seq(); let ghost idx0 = tile_index.index@; let ghost t0 = tsec(writer.bytes@, n0);
				proof { assert(sq[p] == (coord, blob@)); assert(sq.contains(sq[p])); assert(gb.has3(coord)); }
//@at "tile_index.set(index, *range);"
						proof { assert(t0 + Seq::<u8>::empty() =~= t0); lemma_step(src, gb, idx0, t0, Seq::<u8>::empty(), sq, p, *range); }
//@after "range.shift_backward(offset0);"
				proof {
					assert(tsec(writer.bytes@, n0) =~= t0 + blob@);
					assert((t0 + blob@).subrange(range.offset as int, range.offset + range.length) =~= blob@);
					lemma_step(src, gb, idx0, t0, blob@, sq, p, range);
					lemma_lookup_stable(tile_hash_lookup.map(), t0, blob@);
					assert(writer.bytes@.subrange(0, n0) =~= w0);
				}
//@at "let offset1 ="
		let ghost tfin = tsec(writer.bytes@, n0);
		let ghost wb = writer.bytes@;
		proof { lemma_final(src, gb, tile_index.index@, tfin, vfe_iter.seq()); assert(wb =~= w0 + tfin); lemma_tail(wb); }
//@at "Ok((ByteRange::new(offset0, offset1 - offset0), index_range))"
		proof { let ib = tsec(writer.bytes@, wb.len() as int);
			assert(writer.bytes@ =~= w0 + tfin + ib);
			assert(block_written(src, gb, tfin, tile_index.index@));
			assert(dec_brotli(ib) == Some(index_wire(tile_index.index@))); }
//@end
}

// ---- write_blocks: the loop over the blocks of the coverage and the block index written behind them -------------------------------
// trusted: #[derive(Clone)] is field-wise
impl Clone for BlockDefinition { fn clone(&self) -> (r: Self) ensures r == *self {
	BlockDefinition { offset: self.offset, global_bbox: self.global_bbox.clone(), tiles_coverage: self.tiles_coverage.clone(), tiles_range: self.tiles_range, index_range: self.index_range } } }
impl BlockDefinition {
//@extract fn file="versatiles_container/src/container/versatiles/types/block_definition.rs" scope="impl BlockDefinition" name="set_tiles_range"
//@spec
		ensures *final(self) == (BlockDefinition { tiles_range: range, ..*old(self) })
//@end
//@extract fn file="versatiles_container/src/container/versatiles/types/block_definition.rs" scope="impl BlockDefinition" name="set_index_range"
//@spec
		ensures *final(self) == (BlockDefinition { index_range: range, ..*old(self) })
//@end
}
// the block definitions of the coverage (iter_levels / iter_bbox_grid(256) / BlockDefinition::new: units pyramid_real, tile_bbox_iter,
// Kani unit versatiles_codec): boxes of one 256-block each, well-formed
#[verifier::external_body]
pub fn vblock_defs(p: &TileBBoxPyramid) -> (r: Vec<BlockDefinition>) ensures forall|i: int| 0 <= i < r@.len() ==> (#[trigger] r@[i]).global_bbox.wf() { unimplemented!() }
#[verifier::external_body] pub fn get_progress_bar0() -> ProgressBar { unimplemented!() }
impl ProgressBar { #[verifier::external_body] pub fn finish(&mut self) { } }
// R6: BlockIndex (unit block_index: HashMap from block coordinate to definition; as_blob: the 33-byte records)
#[verifier::external_body] pub struct BlockIndex { }
pub uninterp spec fn bindex_wire(m: Map<TileCoord3, BlockDefinition>) -> Seq<u8>;
impl BlockIndex {
	pub uninterp spec fn map(&self) -> Map<TileCoord3, BlockDefinition>;
	#[verifier::external_body]
	pub fn new_empty() -> (r: BlockIndex) ensures r.map() == Map::<TileCoord3, BlockDefinition>::empty() { unimplemented!() }
	#[verifier::external_body]
	pub fn add_block(&mut self, block: BlockDefinition) ensures final(self).map() == old(self).map().insert(block.offset, block) { unimplemented!() }
	#[verifier::external_body]
	pub fn as_brotli_blob(&self) -> (r: Result<Blob, VErr>) ensures r is Ok ==> dec_brotli(r.unwrap()@) == Some(bindex_wire(self.map())) { unimplemented!() }
}
impl ByteRange {
//@extract fn file="versatiles_core/src/types/byte_range.rs" scope="impl ByteRange" name="empty"
//@ret r
//@spec
		ensures r.offset == 0, r.length == 0
//@end
}
pub open spec fn sub(f: Seq<u8>, r: ByteRange) -> Seq<u8> { f.subrange(r.offset as int, r.offset + r.length) }
// a block of the index: its two ranges lie in the file; the second decodes (brotli) to a tile index that addresses, inside the first,
// every tile the source has in the block's box
pub open spec fn block_ok(src: AbsSource, f: Seq<u8>, b: BlockDefinition) -> bool {
	b.tiles_range.offset + b.tiles_range.length <= f.len() && b.index_range.offset + b.index_range.length <= f.len()
	&& exists|idx: Seq<ByteRange>| #![trigger index_wire(idx)] dec_brotli(sub(f, b.index_range)) == Some(index_wire(idx)) && block_written(src, b.global_bbox, sub(f, b.tiles_range), idx)
}
pub open spec fn index_ok(src: AbsSource, f: Seq<u8>, m: Map<TileCoord3, BlockDefinition>) -> bool { forall|c: TileCoord3| #[trigger] m.contains_key(c) ==> block_ok(src, f, m[c]) && m[c].offset == c }
pub proof fn lemma_block_ok_stable(src: AbsSource, f: Seq<u8>, x: Seq<u8>, b: BlockDefinition)
	requires block_ok(src, f, b) ensures block_ok(src, f + x, b)
{
	let idx = choose|idx: Seq<ByteRange>| #![trigger index_wire(idx)] dec_brotli(sub(f, b.index_range)) == Some(index_wire(idx)) && block_written(src, b.global_bbox, sub(f, b.tiles_range), idx);
	assert(sub(f + x, b.index_range) =~= sub(f, b.index_range)); assert(sub(f + x, b.tiles_range) =~= sub(f, b.tiles_range));
	assert(dec_brotli(sub(f + x, b.index_range)) == Some(index_wire(idx)));
}
pub proof fn lemma_index_ok_stable(src: AbsSource, f: Seq<u8>, x: Seq<u8>, m: Map<TileCoord3, BlockDefinition>)
	requires index_ok(src, f, m) ensures index_ok(src, f + x, m)
{ assert forall|c: TileCoord3| #[trigger] m.contains_key(c) implies block_ok(src, f + x, m[c]) && m[c].offset == c by { lemma_block_ok_stable(src, f, x, m[c]); } }
impl VersaTilesWriter {
//@extract fn file="versatiles_container/src/container/versatiles/writer.rs" scope="impl VersaTilesWriter" name="write_blocks"
//@prerewrite "pyramid .iter_levels() .flat_map(|level_bbox| { level_bbox .iter_bbox_grid(256) .map(|bbox_block| BlockDefinition::new(&bbox_block)) }) .collect()" => "vblock_defs(&pyramid)"
//@prerewrite "get_progress_bar( \"converting tiles\", blocks.iter().map(|block| block.count_tiles()).sum::<u64>(), )" => "get_progress_bar0()"
//@prerewrite "tiles_count += block.count_tiles(); progress.set_position(tiles_count);" => ""
//@rewrite "reader: &mut dyn TilesReaderTrait" => "reader: &mut AbsSource" R6
//@rewrite "writer: &mut dyn DataWriterTrait" => "writer: &mut AbsWriter" R6
//@rewrite "for mut block in blocks.into_iter() {" => "let mut vbi: usize = 0; while vbi < blocks.len() { let mut block = blocks[vbi].clone(); vbi += 1;" R7
//@ret r
//@spec
		requires old(writer).bytes@.len() < 0x3fff_ffff_ffff_ffff,
		ensures r is Ok ==> (exists|m: Map<TileCoord3, BlockDefinition>| #![trigger bindex_wire(m)]
			// the block index is the last thing written (the returned range, unless the source is empty); every block it lists is intact in the file
			(r.unwrap().length > 0 ==> r.unwrap().offset + r.unwrap().length == final(writer).bytes@.len() && dec_brotli(sub(final(writer).bytes@, r.unwrap())) == Some(bindex_wire(m)))
			&& index_ok(*old(reader), final(writer).bytes@, m)),
//@start
		let ghost src = *reader;
//@at "if pyramid.is_empty()"
		proof { assert(index_ok(src, writer.bytes@, Map::<TileCoord3, BlockDefinition>::empty())); assert(bindex_wire(Map::<TileCoord3, BlockDefinition>::empty()).len() >= 0); }
//@loop 1
			invariant *reader == src, src == *old(reader), forall|i: int| 0 <= i < blocks@.len() ==> (#[trigger] blocks@[i]).global_bbox.wf(),
				vbi <= blocks@.len(), writer.bytes@.len() < 0x3fff_ffff_ffff_ffff,
				index_ok(src, writer.bytes@, block_index.map()),
			decreases blocks@.len() - vbi,
//@at "let (tiles_range, index_range) ="
			let ghost f0 = writer.bytes@; let ghost m0 = block_index.map();
//@after "let (tiles_range, index_range) = Self::write_block(&block, reader, writer, &mut progress)?;"
			let ghost f1 = writer.bytes@;
			proof {
				let (t, ib, idx) = choose|t: Seq<u8>, ib: Seq<u8>, idx: Seq<ByteRange>| #![trigger block_written(src, block.global_bbox, t, idx), dec_brotli(ib)]
					f1 == f0 + t + ib && tiles_range.offset == f0.len() && tiles_range.length == t.len() && index_range.offset == f0.len() + t.len() && index_range.length == ib.len()
					&& dec_brotli(ib) == Some(index_wire(idx)) && block_written(src, block.global_bbox, t, idx);
				assert(f1 =~= f0 + (t + ib));
				lemma_index_ok_stable(src, f0, t + ib, m0);
				assert(sub(f1, tiles_range) =~= t); assert(sub(f1, index_range) =~= ib);
				let b1 = BlockDefinition { tiles_range: tiles_range, index_range: index_range, ..block };
				assert(dec_brotli(sub(f1, b1.index_range)) == Some(index_wire(idx)) && block_written(src, b1.global_bbox, sub(f1, b1.tiles_range), idx));
				assert(block_ok(src, f1, b1));
			}
//@after "block_index.add_block(block);"
			proof { assert forall|c: TileCoord3| #[trigger] block_index.map().contains_key(c) implies block_ok(src, f1, block_index.map()[c]) && block_index.map()[c].offset == c by {
				if c != block.offset { assert(m0.contains_key(c)); } } }
//@at "let range = writer.append(&block_index.as_brotli_blob()?)?;"
		let ghost f2 = writer.bytes@; let ghost m2 = block_index.map();
//@after "let range = writer.append(&block_index.as_brotli_blob()?)?;"
		proof { let ib2 = sub(writer.bytes@, range);
			lemma_tail(f2);
			assert(ib2 =~= tsec(writer.bytes@, f2.len() as int));
			assert(writer.bytes@ =~= f2 + ib2);
			lemma_index_ok_stable(src, f2, ib2, m2);
			lemma_tail(f2);
			assert(dec_brotli(ib2) == Some(bindex_wire(m2))); }
//@end
}
} // verus!
fn main() {}
