// unit merge_tiles — versatiles_pipeline operations/read/from_vectortiles_merged.rs: merge_tiles (C10): one output layer per distinct
// layer name; the layer of a name is the first source layer of that name with every later one of that name added (add_from_layer) in
// source order; the output tile encodes exactly these layers. (add_from_layer itself: unit vector_tile_merge; codec: vector_tile_layer*.)
use vstd::prelude::*;
use std::collections::HashMap;
use std::hash::Hash;
use vstd::std_specs::hash::*;
verus! {
//@include common/prelude.vrs
//@include common/pbf_blob.vrs

// R6: String -> opaque hashable text; a decoded layer: its name and an opaque body
#[verifier::external_type_specification] #[verifier::external_body] pub struct ExAbsStr(AbsStr);
#[verifier::external_body]
pub fn clone_str(a: &AbsStr) -> (r: AbsStr) ensures r == *a { unimplemented!() }
pub struct VectorTileLayer { pub name: AbsStr, pub body: LayerBody }
#[verifier::external_body] pub struct LayerBody { }
// `afl(a, b)`: layer a after a.add_from_layer(b) succeeded (None: it fails); the name of a is kept (unit vector_tile_merge: the features
// of b are appended in order with their ids, geometries and property sets)
pub uninterp spec fn afl(a: VectorTileLayer, b: VectorTileLayer) -> Option<VectorTileLayer>;
impl VectorTileLayer {
	#[verifier::external_body]
	pub fn add_from_layer(&mut self, layer: VectorTileLayer) -> (r: Result<(), VErr>)
		ensures r is Ok ==> afl(*old(self), layer) == Some(*final(self)) && final(self).name == old(self).name, r is Err ==> afl(*old(self), layer) is None
	{ unimplemented!() }
}
pub struct VectorTile { pub layers: Vec<VectorTileLayer> }
pub uninterp spec fn vt_dec(b: Seq<u8>) -> Option<Seq<VectorTileLayer>>;
pub uninterp spec fn vt_enc(l: Seq<VectorTileLayer>) -> Seq<u8>;
impl VectorTile {
	#[verifier::external_body]
	pub fn from_blob(blob: &Blob) -> (r: Result<VectorTile, VErr>) ensures r is Ok ==> vt_dec(blob@) == Some(r.unwrap().layers@), r is Err ==> vt_dec(blob@) is None { unimplemented!() }
	pub fn new(layers: Vec<VectorTileLayer>) -> (r: VectorTile) ensures r.layers == layers { VectorTile { layers } }   // verbatim body of VectorTile::new (unit vector_tile_layer_enc)
	#[verifier::external_body]
	pub fn to_blob(&self) -> (r: Result<Blob, VErr>) ensures r is Ok ==> r.unwrap()@ == vt_enc(self.layers@) { unimplemented!() }
}
// R6: `layers.into_values().collect()` -> the values of the map in some order (HashMap iteration order is unspecified), each once
#[verifier::external_body]
pub fn into_layer_vec(m: HashMap<AbsStr, VectorTileLayer>) -> (r: Vec<VectorTileLayer>)
	ensures r@.len() == m@.dom().len(), forall|k: AbsStr| m@.contains_key(k) ==> exists|i: int| 0 <= i < r@.len() && #[trigger] r@[i] == m@[k],
		forall|i: int| 0 <= i < r@.len() ==> m@.contains_key((#[trigger] r@[i]).name) && m@[r@[i].name] == r@[i],
{ unimplemented!() }

// ---- the statement: fold over all source layers in source order
pub open spec fn step(m: Map<AbsStr, VectorTileLayer>, l: VectorTileLayer) -> Option<Map<AbsStr, VectorTileLayer>> {
	if m.contains_key(l.name) { match afl(m[l.name], l) { Some(x) => Some(m.insert(l.name, x)), None => None } } else { Some(m.insert(l.name, l)) }
}
pub open spec fn fold_layers(m: Map<AbsStr, VectorTileLayer>, ls: Seq<VectorTileLayer>, k: int) -> Option<Map<AbsStr, VectorTileLayer>> decreases k {
	if k <= 0 { Some(m) } else { match fold_layers(m, ls, k - 1) { Some(x) => step(x, ls[k - 1]), None => None } }
}
pub open spec fn fold_tiles(blobs: Seq<Blob>, k: int) -> Option<Map<AbsStr, VectorTileLayer>> decreases k {
	if k <= 0 { Some(Map::empty()) } else { match (fold_tiles(blobs, k - 1), vt_dec(blobs[k - 1]@)) { (Some(m), Some(ls)) => fold_layers(m, ls, ls.len() as int), _ => None } }
}
// every layer is stored under its own name
pub open spec fn keyed(m: Map<AbsStr, VectorTileLayer>) -> bool { forall|k: AbsStr| #[trigger] m.contains_key(k) ==> m[k].name == k }

//@extract fn file="versatiles_pipeline/src/operations/read/from_vectortiles_merged.rs" scope="top" name="merge_tiles"
//@rewrite "HashMap::<String, VectorTileLayer>::new()" => "HashMap::<AbsStr, VectorTileLayer>::new()" R6
//@rewrite "for blob in blobs.into_iter() { let tile = VectorTile::from_blob(&blob)?;" => "for vi in 0..blobs.len() { let tile = VectorTile::from_blob(&blobs[vi])?;" R7
//@rewrite "for new_layer in tile.layers {" => "let mut vrest = tile.layers; while vrest.len() > 0 { let new_layer = vrest.remove(0);" R7
//@rewrite "if let Some(layer) = layers.get_mut(&new_layer.name) { layer.add_from_layer(new_layer)?; }" => "if layers.contains_key(&new_layer.name) { let mut layer = layers.remove(&new_layer.name).unwrap(); layer.add_from_layer(new_layer)?; layers.insert(clone_str(&layer.name), layer); }" R7
//@rewrite "layers.insert(new_layer.name.clone(), new_layer);" => "layers.insert(clone_str(&new_layer.name), new_layer);" R7
//@rewrite "layers.into_values().collect()" => "into_layer_vec(layers)" R6
//@ret r
//@spec
		requires obeys_key_model::<AbsStr>()
		ensures r is Ok ==> (fold_tiles(blobs@, blobs@.len() as int) is Some && ({ let m = fold_tiles(blobs@, blobs@.len() as int).unwrap();
			exists|out: Seq<VectorTileLayer>| #![trigger vt_enc(out)] r.unwrap()@ == vt_enc(out)
				// one layer per distinct name, each the fold of the source layers of that name
				&& out.len() == m.dom().len() && (forall|k: AbsStr| m.contains_key(k) ==> exists|i: int| 0 <= i < out.len() && #[trigger] out[i] == m[k])
				&& (forall|i: int| 0 <= i < out.len() ==> m.contains_key((#[trigger] out[i]).name) && m[out[i].name] == out[i]) })),
//@loop 1
		invariant obeys_key_model::<AbsStr>(), fold_tiles(blobs@, vi as int) == Some(layers@), keyed(layers@),
//@loopstart 1
		let ghost m0 = layers@;
//@at "let mut vrest"
			let ghost ls = tile.layers@;
//@loop 2
			invariant obeys_key_model::<AbsStr>(), vrest@.len() <= ls.len(), keyed(layers@),
				vrest@ == ls.subrange(ls.len() - vrest@.len(), ls.len() as int),
				fold_layers(m0, ls, ls.len() - vrest@.len()) == Some(layers@),
			decreases vrest@.len(),
//@loopstart 2
				let ghost mb = layers@; let ghost kb = ls.len() - vrest@.len();
				proof { assert(vrest@[0] == ls[kb]); }
//@loopend 2
				proof { assert(fold_layers(m0, ls, kb + 1) == step(mb, ls[kb])); }
//@loopend 1
		proof { assert(vrest@.len() == 0); assert(fold_tiles(blobs@, vi + 1) == fold_layers(m0, ls, ls.len() as int)); }
//@end
} // verus!
#[derive(Clone, PartialEq, Eq, Hash, Debug)] pub struct AbsStr { s: String }
fn main() {}
