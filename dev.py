#!/usr/bin/env python3
"""development helper: ./dev.py verus <unit>   — build + run one Verus unit, print failures"""
import sys
from vlib.verus_runner import run_verus_unit
if sys.argv[1] == 'verus':
    r = run_verus_unit(sys.argv[2])
    print('status', r.status, r.reason, 'verified', r.verified, 'errors', r.errors, 'canary', r.canary_ok, 'wall %.1f' % r.wall_s)
    for f in r.failures:
        print('---', f.get('obligation'), f.get('message'))
        print(f.get('rendered', '')[:1500])
    if r.audit:
        print('rules', r.audit.counts(), 'items', len(r.audit.items))
if sys.argv[1] == 'kani':
    from vlib.kani_runner import build_kani_unit, run_harnesses
    ku = build_kani_unit(sys.argv[2])
    print('build', ku.status, ku.reason, [h.name for h in ku.harnesses])
    sel = [h for h in ku.harnesses if (len(sys.argv) < 4 or h.name in sys.argv[3:])]
    run_harnesses(ku, sel, jobs=14, playback='--playback' in sys.argv)
    for h in sel:
        print(h.name, h.kind, h.status, '%.0fs' % h.time_s, h.detail[:300])
        if h.playback: print(h.playback)
