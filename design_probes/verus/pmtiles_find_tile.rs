use vstd::prelude::*;
use std::cmp::Ordering;
verus! {
global size_of usize == 8;
#[derive(Clone, Copy, PartialEq, Eq, Debug)]
pub struct ByteRange { pub offset: u64, pub length: u64 }
#[derive(Debug, Clone, Copy, PartialEq, Eq)]
pub struct EntryV3 { pub tile_id: u64, pub range: ByteRange, pub run_length: u32 }
pub struct EntriesV3 { pub entries: Vec<EntryV3> }

pub open spec fn sorted(s: Seq<EntryV3>) -> bool { forall|i: int, j: int| 0 <= i <= j < s.len() ==> s[i].tile_id <= s[j].tile_id }
pub open spec fn covers(e: EntryV3, id: u64) -> bool {
	e.tile_id <= id && (e.run_length == 0 || id - e.tile_id < e.run_length) }
// the spec's rule: the candidate is the LAST entry whose id is <= the searched id
pub open spec fn is_last_le(s: Seq<EntryV3>, i: int, id: u64) -> bool {
	0 <= i < s.len() && s[i].tile_id <= id && forall|j: int| i < j < s.len() ==> s[j].tile_id > id }

impl EntriesV3 {
	pub fn find_tile(&self, tile_id: u64) -> (r: Option<EntryV3>)
		requires sorted(self.entries@), self.entries@.len() < 0x3fff_ffff_ffff_ffff,
		ensures
			match r {
				Some(e) => exists|i: int| #![trigger self.entries@[i]] 0 <= i < self.entries@.len() && self.entries@[i] == e && covers(e, tile_id)
					&& (self.entries@[i].tile_id == tile_id || is_last_le(self.entries@, i, tile_id)),
				None => forall|i: int| #![trigger self.entries@[i]] is_last_le(self.entries@, i, tile_id) ==> !covers(self.entries@[i], tile_id),
			},
	{
		broadcast use vstd::laws_cmp::group_laws_cmp;
		let mut m: i64 = 0;
		let mut n: i64 = self.entries.len() as i64 - 1;

		while m <= n
			invariant
				0 <= m <= self.entries@.len(), -1 <= n < self.entries@.len(),
				m <= n + 1,
				sorted(self.entries@), self.entries@.len() < 0x3fff_ffff_ffff_ffff,
				forall|i: int| 0 <= i < m ==> self.entries@[i].tile_id < tile_id,
				forall|i: int| n < i < self.entries@.len() ==> self.entries@[i].tile_id > tile_id,
			decreases n - m + 1
		{
			let ghost sum = (n + m) as i64;
			let k = (n + m) >> 1;
			assert(k == sum / 2) by (bit_vector) requires k == sum >> 1, 0 <= sum;
			assert(m <= k <= n);
			let entry_id = self.entries[k as usize].tile_id;
			assert(entry_id == self.entries@[k as int].tile_id);
			let ord = tile_id.cmp(&entry_id);
			assert((ord == Ordering::Greater) == (tile_id > entry_id));
			match ord {
				Ordering::Greater => m = k + 1,
				Ordering::Less => n = k - 1,
				Ordering::Equal => { proof { assert(self.entries@[k as int].tile_id == tile_id); } return Some(self.entries[k as usize]) },
			}
		}

		// at this point, m > n
		if n >= 0 {
			proof { assert(is_last_le(self.entries@, n as int, tile_id)); }
			if self.entries[n as usize].run_length == 0 {
				return Some(self.entries[n as usize]);
			}
			if tile_id - self.entries[n as usize].tile_id < self.entries[n as usize].run_length as u64 {
				return Some(self.entries[n as usize]);
			}
		}
		proof {
			assert forall|i: int| #![trigger self.entries@[i]] is_last_le(self.entries@, i, tile_id) implies !covers(self.entries@[i], tile_id) by {
				if n >= 0 { assert(i == n) by { if i < n { assert(self.entries@[n as int].tile_id > tile_id); } } }
				else { assert(self.entries@[i].tile_id > tile_id); }
			}
		}
		None
	}
}
}
fn main() {}
