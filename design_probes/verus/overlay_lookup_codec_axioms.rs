use vstd::prelude::*;
verus! {
#[derive(Debug)]
pub struct VErr {}
#[verifier::external_body]
pub fn verr() -> VErr { VErr{} }

#[derive(Clone, Copy, PartialEq, Eq, Debug)]
pub enum TileCompression { Uncompressed, Gzip, Brotli }

// ---- abstract Blob + codec axioms (trusted base)
#[verifier::external_body]
pub struct Blob { v: Vec<u8> }
impl View for Blob { type V = Seq<u8>; uninterp spec fn view(&self) -> Seq<u8>; }
pub uninterp spec fn enc_gzip(d: Seq<u8>) -> Seq<u8>;
pub uninterp spec fn enc_brotli(d: Seq<u8>) -> Seq<u8>;
pub uninterp spec fn dec_gzip(d: Seq<u8>) -> Option<Seq<u8>>;
pub uninterp spec fn dec_brotli(d: Seq<u8>) -> Option<Seq<u8>>;
pub open spec fn decode(c: TileCompression, d: Seq<u8>) -> Option<Seq<u8>> {
	match c { TileCompression::Uncompressed => Some(d), TileCompression::Gzip => dec_gzip(d), TileCompression::Brotli => dec_brotli(d) }
}
#[verifier::external_body]
pub fn compress_gzip(b: &Blob) -> (r: Result<Blob, VErr>) ensures r is Ok ==> dec_gzip(r.unwrap()@) == Some(b@) { unimplemented!() }
#[verifier::external_body]
pub fn compress_brotli(b: &Blob) -> (r: Result<Blob, VErr>) ensures r is Ok ==> dec_brotli(r.unwrap()@) == Some(b@) { unimplemented!() }
#[verifier::external_body]
pub fn decompress_gzip(b: &Blob) -> (r: Result<Blob, VErr>) ensures r is Ok ==> dec_gzip(b@) == Some(r.unwrap()@) { unimplemented!() }
#[verifier::external_body]
pub fn decompress_brotli(b: &Blob) -> (r: Result<Blob, VErr>) ensures r is Ok ==> dec_brotli(b@) == Some(r.unwrap()@) { unimplemented!() }

// ---- verbatim (after rewrite rules) from compression.rs
pub fn compress(blob: Blob, compression: &TileCompression) -> (r: Result<Blob, VErr>)
	ensures r is Ok ==> decode(*compression, r.unwrap()@) == Some(blob@)
{
	match compression {
		TileCompression::Uncompressed => Ok(blob),
		TileCompression::Gzip => compress_gzip(&blob),
		TileCompression::Brotli => compress_brotli(&blob),
	}
}
pub fn decompress(blob: Blob, compression: &TileCompression) -> (r: Result<Blob, VErr>)
	ensures r is Ok ==> decode(*compression, blob@) == Some(r.unwrap()@)
{
	match compression {
		TileCompression::Uncompressed => Ok(blob),
		TileCompression::Gzip => decompress_gzip(&blob),
		TileCompression::Brotli => decompress_brotli(&blob),
	}
}
pub fn recompress(
	blob: Blob,
	input_compression: &TileCompression,
	output_compression: &TileCompression,
) -> (r: Result<Blob, VErr>)
	ensures r is Ok ==> decode(*output_compression, r.unwrap()@) == decode(*input_compression, blob@)
{
	if input_compression == output_compression {
		return Ok(blob);
	}
	let decompressed = decompress(blob, input_compression)?;
	let recompressed = compress(decompressed, output_compression)?;
	Ok(recompressed)
}

// ---- abstract source (assumed trait contract), async erased
pub struct TileCoord3 { pub x: u32, pub y: u32, pub z: u8 }
#[verifier::external_body]
pub struct Src { }
impl Src {
	pub uninterp spec fn tile_at(&self, x: u32, y: u32, z: u8) -> Option<Seq<u8>>;
	pub uninterp spec fn comp(&self) -> TileCompression;
	#[verifier::external_body]
	pub fn get_tile_data(&self, coord: &TileCoord3) -> (r: Result<Option<Blob>, VErr>)
		ensures r is Ok ==> (match r.unwrap() { Some(b) => self.tile_at(coord.x, coord.y, coord.z) == Some(b@), None => self.tile_at(coord.x, coord.y, coord.z).is_none() })
	{ unimplemented!() }
	#[verifier::external_body]
	pub fn get_compression(&self) -> (r: &TileCompression) ensures *r == self.comp() { unimplemented!() }
}
pub struct Operation { pub sources: Vec<Src>, pub tile_compression: TileCompression }

pub open spec fn first_hit(s: Seq<Src>, x: u32, y: u32, z: u8) -> Option<int> decreases s.len() {
	if s.len() == 0 { None } else if s[0].tile_at(x,y,z).is_some() { Some(0) } else {
		match first_hit(s.subrange(1, s.len() as int), x, y, z) { Some(i) => Some(i+1), None => None } }
}
impl Operation {
	pub fn get_tile_data(&self, coord: &TileCoord3) -> (r: Result<Option<Blob>, VErr>)
		ensures r is Ok ==> match r.unwrap() {
			None => forall|i: int| 0 <= i < self.sources@.len() ==> self.sources@[i].tile_at(coord.x, coord.y, coord.z).is_none(),
			Some(b) => exists|i: int| 0 <= i < self.sources@.len()
				&& (forall|j: int| 0 <= j < i ==> self.sources@[j].tile_at(coord.x, coord.y, coord.z).is_none())
				&& self.sources@[i].tile_at(coord.x, coord.y, coord.z).is_some()
				&& decode(self.tile_compression, b@) == decode(self.sources@[i].comp(), self.sources@[i].tile_at(coord.x, coord.y, coord.z).unwrap()),
		}
	{
		for source in it: self.sources.iter()
			invariant forall|j: int| 0 <= j < it.index@ ==> self.sources@[j].tile_at(coord.x, coord.y, coord.z).is_none(),
		{
			let result = source.get_tile_data(coord)?;
			if let Some(mut blob) = result {
				blob = recompress(
					blob,
					source.get_compression(),
					&self.tile_compression,
				)?;
				return Ok(Some(blob));
			}
		}
		return Ok(None);
	}
}
}
fn main() {}
