use vstd::prelude::*;
verus! {
global size_of usize == 8;
#[derive(Debug)]
pub struct VErr {}
#[verifier::external_body]
pub fn verr() -> VErr { VErr{} }
pub struct TileBBox { pub level: u8, pub x_min: u32, pub y_min: u32, pub x_max: u32, pub y_max: u32, pub max: u32 }
#[derive(Clone, Copy)]
pub struct TileCoord3 { pub x: u32, pub y: u32, pub z: u8 }
impl TileBBox {
	pub open spec fn has(&self, x: int, y: int) -> bool { self.x_min <= x <= self.x_max && self.y_min <= y <= self.y_max }
	#[verifier::external_body]
	pub fn intersect_bbox(&mut self, bbox: &TileBBox) -> (res: Result<(), VErr>)
		ensures res is Ok <==> old(self).level == bbox.level,
			res is Ok ==> forall|x: int, y: int| final(self).has(x, y) == (old(self).has(x, y) && bbox.has(x, y)),
			final(self).level == old(self).level,
	{ unimplemented!() }
	pub fn contains3(&self, coord: &TileCoord3) -> (r: bool)
		ensures r == (coord.z == self.level && self.has(coord.x as int, coord.y as int))
	{
		coord.z == self.level
			&& coord.x >= self.x_min
			&& coord.x <= self.x_max
			&& coord.y >= self.y_min
			&& coord.y <= self.y_max
	}
	// verbatim
	pub fn intersect_pyramid(&mut self, pyramid: &TileBBoxPyramid) -> (res: Result<(), VErr>)
		requires old(self).level < 32, pyramid.wf()
		ensures res is Ok, forall|x: int, y: int| final(self).has(x, y) == (old(self).has(x, y) && pyramid.has(x, y, old(self).level)),
			final(self).level == old(self).level,
	{
		let pyramid_bbox = pyramid.get_level_bbox(self.level);
		self.intersect_bbox(pyramid_bbox)
	}
}
pub struct TileBBoxPyramid { pub level_bbox: [TileBBox; 32] }
impl TileBBoxPyramid {
	pub open spec fn wf(&self) -> bool { forall|z: int| 0 <= z < 32 ==> self.level_bbox@[z].level == z }
	pub open spec fn has(&self, x: int, y: int, z: u8) -> bool { z < 32 && self.level_bbox@[z as int].has(x, y) }
	// verbatim
	pub fn get_level_bbox(&self, level: u8) -> (r: &TileBBox)
		requires level < 32
		ensures *r == self.level_bbox@[level as int]
	{
		&self.level_bbox[level as usize]
	}
	// verbatim
	pub fn contains_coord(&self, coord: &TileCoord3) -> (r: bool)
		requires self.wf()
		ensures r == self.has(coord.x as int, coord.y as int, coord.z)
	{
		if let Some(bbox) = self.level_bbox.get(coord.z as usize) {
			bbox.contains3(coord)
		} else {
			false
		}
	}
}
}
fn main() {}
