use vstd::prelude::*;
verus! {
#[derive(Debug)]
pub struct VErr {}
#[verifier::external_body]
pub fn verr() -> VErr { VErr{} }

// abstract byte sink / source (assumed contract on Cursor + byteorder)
pub struct W { pub buf: Vec<u8> }
impl W {
	pub fn put(&mut self, b: u8) -> (r: Result<(), VErr>)
		ensures r is Ok, final(self).buf@ == old(self).buf@.push(b)
	{ self.buf.push(b); Ok(()) }
}
pub struct R { pub data: Vec<u8>, pub pos: usize }
impl R {
	pub open spec fn wf(&self) -> bool { self.pos <= self.data@.len() }
	pub fn rd_u8(&mut self) -> (r: Result<u8, VErr>)
		requires old(self).wf()
		ensures final(self).wf(), final(self).data@ == old(self).data@,
			old(self).pos < old(self).data@.len() ==> r is Ok && r.unwrap() == old(self).data@[old(self).pos as int] && final(self).pos == old(self).pos + 1,
			old(self).pos >= old(self).data@.len() ==> r is Err && final(self).pos == old(self).pos,
	{
		if self.pos < self.data.len() { let b = self.data[self.pos]; self.pos = self.pos + 1; Ok(b) } else { Err(verr()) }
	}
}

// spec of the LEB128 encoding, from the protobuf documentation
pub open spec fn enc(v: nat) -> Seq<u8> decreases v {
	if v < 128 { seq![v as u8] } else { seq![((v % 128) + 128) as u8] + enc(v / 128) }
}

// verbatim body of ValueWriter::write_varint with `self.get_writer().write_all(&[X])?` rewritten to `self.put(X)?`
pub fn write_varint(w: &mut W, mut value: u64) -> (r: Result<(), VErr>)
	ensures r is Ok, final(w).buf@ == old(w).buf@ + enc(value as nat)
{
	let ghost v0 = value;
	let ghost pre = w.buf@;
	while value >= 0x80
		invariant w.buf@ + enc(value as nat) == pre + enc(v0 as nat)
		decreases value
	{
		proof {
			assert(((value as u8) & 0x7F) | 0x80 == ((value % 128) + 128) as u8) by (bit_vector);
			assert(value >> 7 == value / 128) by (bit_vector);
			assert(enc(value as nat) == seq![((value as nat % 128) + 128) as u8] + enc(value as nat / 128));
		}
		w.put(((value as u8) & 0x7F) | 0x80)?;
		value >>= 7;
		proof { assert(w.buf@ + enc(value as nat) =~= pre + enc(v0 as nat)); }
	}
	w.put(value as u8)?;
	proof { assert(enc(value as nat) == seq![value as u8]); assert(w.buf@ =~= pre + enc(v0 as nat)); }
	Ok(())
}
}
fn main() {}
