use vstd::prelude::*;
use std::mem::swap;
verus! {
global size_of usize == 8;
#[derive(Debug)]
pub struct VErr {}
#[verifier::external_body]
pub fn verr() -> VErr { VErr{} }
pub fn vassert(c: bool) requires c {}
pub open spec fn pow2(l: nat) -> nat decreases l { if l == 0 { 1 } else { 2 * pow2((l - 1) as nat) } }
pub assume_specification [u32::pow] (b: u32, e: u32) -> (r: u32) requires b == 2, e <= 31 ensures r as nat == pow2(e as nat);
pub proof fn lemma_pow2_mono(a: nat, b: nat) requires a <= b ensures pow2(a) <= pow2(b) decreases b { if a < b { lemma_pow2_mono(a, (b - 1) as nat); } }
pub proof fn lemma_pow2_bound(l: nat) requires l <= 31 ensures 1 <= pow2(l) <= 0x8000_0000
{ lemma_pow2_mono(0, l); lemma_pow2_mono(l, 31); assert(pow2(31) == 0x8000_0000) by (compute); assert(pow2(0) == 1) by (compute); }

#[derive(Clone, Copy)]
pub struct TileCoord3 { pub x: u32, pub y: u32, pub z: u8 }
pub open spec fn valid(c: TileCoord3) -> bool { c.z <= 31 && c.x < pow2(c.z as nat) && c.y < pow2(c.z as nat) }
pub open spec fn sflip(c: TileCoord3) -> TileCoord3 { TileCoord3 { x: c.x, y: (pow2(c.z as nat) - 1 - c.y) as u32, z: c.z } }
pub open spec fn sswap(c: TileCoord3) -> TileCoord3 { TileCoord3 { x: c.y, y: c.x, z: c.z } }
pub open spec fn t_fwd(flip: bool, swp: bool, c: TileCoord3) -> TileCoord3 { let c1 = if flip { sflip(c) } else { c }; if swp { sswap(c1) } else { c1 } }
pub open spec fn t_inv(flip: bool, swp: bool, c: TileCoord3) -> TileCoord3 { let c1 = if swp { sswap(c) } else { c }; if flip { sflip(c1) } else { c1 } }
pub proof fn lemma_t_inverse(f: bool, s: bool, c: TileCoord3) requires valid(c)
	ensures valid(t_fwd(f, s, c)), valid(t_inv(f, s, c)), t_fwd(f, s, t_inv(f, s, c)) == c, t_inv(f, s, t_fwd(f, s, c)) == c
{ lemma_pow2_bound(c.z as nat); }

impl TileCoord3 {
	pub fn flip_y(&mut self)
		requires valid(*old(self))
		ensures *final(self) == sflip(*old(self))
	{
		proof { lemma_pow2_bound(self.z as nat); }
		let max_index = 2u32.pow(self.z as u32) - 1;
		vassert(max_index >= self.y);
		self.y = max_index - self.y;
	}
	pub fn swap_xy(&mut self) ensures *final(self) == sswap(*old(self)) { swap(&mut self.x, &mut self.y); }
}

pub struct TileBBox { pub level: u8, pub x_min: u32, pub y_min: u32, pub x_max: u32, pub y_max: u32, pub max: u32 }
impl Clone for TileBBox { fn clone(&self) -> (r: Self) ensures r == *self { TileBBox { level: self.level, x_min: self.x_min, y_min: self.y_min, x_max: self.x_max, y_max: self.y_max, max: self.max } } }
impl TileBBox {
	pub open spec fn has(&self, x: int, y: int) -> bool { self.x_min <= x <= self.x_max && self.y_min <= y <= self.y_max }
	pub open spec fn has3(&self, c: TileCoord3) -> bool { c.z == self.level && self.has(c.x as int, c.y as int) }
	pub open spec fn wf(&self) -> bool {
		self.level <= 31 && self.max as nat == pow2(self.level as nat) - 1
		&& self.x_max <= self.max && self.y_max <= self.max }
	pub fn is_empty(&self) -> (r: bool) ensures r == (self.x_max < self.x_min || self.y_max < self.y_min)
	{ (self.x_max < self.x_min) || (self.y_max < self.y_min) }
	// verbatim from transform_coord.rs
	pub fn flip_y(&mut self)
		requires old(self).wf()
		ensures final(self).wf(), final(self).level == old(self).level,
			forall|c: TileCoord3| valid(c) ==> (final(self).has3(c) <==> old(self).has3(sflip(c))),
	{
		if !self.is_empty() {
			vassert(self.max >= self.y_max);
			self.y_min = self.max - self.y_min;
			self.y_max = self.max - self.y_max;
			swap(&mut self.y_min, &mut self.y_max);
		}
	}
	pub fn swap_xy(&mut self)
		requires old(self).wf()
		ensures final(self).wf(), final(self).level == old(self).level,
			forall|c: TileCoord3| final(self).has3(c) <==> old(self).has3(sswap(c)),
	{
		if !self.is_empty() {
			swap(&mut self.x_min, &mut self.y_min);
			swap(&mut self.x_max, &mut self.y_max);
		}
	}
}

#[verifier::external_body]
pub struct Blob { v: Vec<u8> }
impl View for Blob { type V = Seq<u8>; uninterp spec fn view(&self) -> Seq<u8>; }

#[verifier::external_body]
pub struct TileStream { }
impl TileStream {
	pub uninterp spec fn items(&self) -> Set<(TileCoord3, Seq<u8>)>;
	#[verifier::external_body]
	pub fn map_coord<F: Fn(TileCoord3) -> TileCoord3>(self, callback: F) -> (r: TileStream)
		requires forall|c: TileCoord3, b: Seq<u8>| self.items().contains((c, b)) ==> callback.requires((c,))
		ensures
			forall|c: TileCoord3, b: Seq<u8>| r.items().contains((c, b)) ==> exists|s: TileCoord3| #[trigger] self.items().contains((s, b)) && callback.ensures((s,), c),
			forall|s: TileCoord3, b: Seq<u8>| #[trigger] self.items().contains((s, b)) ==> exists|c: TileCoord3| callback.ensures((s,), c) && #[trigger] r.items().contains((c, b)),
	{ unimplemented!() }
}
pub uninterp spec fn rc(b: Seq<u8>) -> Seq<u8>;   // what the recompressor does to a payload (C04 unit)
#[verifier::external_body]
pub struct TileConverter { }
impl TileConverter {
	#[verifier::external_body]
	pub fn process_blob(&self, blob: Blob) -> (r: Result<Blob, VErr>) ensures r is Ok ==> r.unwrap()@ == rc(blob@) { unimplemented!() }
	#[verifier::external_body]
	pub fn process_stream(&self, stream: TileStream) -> (r: TileStream)
		ensures forall|c: TileCoord3, b: Seq<u8>| r.items().contains((c, b)) <==> exists|s: Seq<u8>| #[trigger] stream.items().contains((c, s)) && b == rc(s)
	{ unimplemented!() }
}
#[verifier::external_body]
pub struct Src { }
impl Src {
	pub uninterp spec fn tile_at(&self, c: TileCoord3) -> Option<Seq<u8>>;
	#[verifier::external_body]
	pub fn get_tile_data(&self, coord: &TileCoord3) -> (r: Result<Option<Blob>, VErr>)
		ensures r is Ok ==> (match r.unwrap() { Some(b) => self.tile_at(*coord) == Some(b@), None => self.tile_at(*coord).is_none() })
	{ unimplemented!() }
	#[verifier::external_body]
	pub fn get_bbox_tile_stream(&self, bbox: TileBBox) -> (r: TileStream)
		requires bbox.wf()
		ensures forall|c: TileCoord3, b: Seq<u8>| r.items().contains((c, b)) <==> (bbox.has3(c) && self.tile_at(c) == Some(b))
	{ unimplemented!() }
}
pub struct CP { pub flip_y: bool, pub swap_xy: bool }
pub struct TilesConvertReader { pub reader: Src, pub converter_parameters: CP, pub tile_recompressor: Option<TileConverter> }

impl TilesConvertReader {
	pub open spec fn f(&self) -> bool { self.converter_parameters.flip_y }
	pub open spec fn s(&self) -> bool { self.converter_parameters.swap_xy }
	// the lookup function the stream must agree with (statement of C02/C06)
	pub open spec fn lookup(&self, c: TileCoord3) -> Option<Seq<u8>> {
		match self.reader.tile_at(t_inv(self.f(), self.s(), c)) { Some(b) => Some(rc(b)), None => None } }

	// verbatim from converter.rs (R5: async/.await erased)
	fn get_bbox_tile_stream(&self, bbox: TileBBox) -> (r: TileStream)
		requires bbox.wf(), self.tile_recompressor is Some
		ensures forall|c: TileCoord3, b: Seq<u8>| valid(c) ==> (r.items().contains((c, b)) <==> (bbox.has3(c) && self.lookup(c) == Some(b)))
	{
		let ghost bbox0 = bbox;
		let mut bbox = bbox.clone();
		if self.converter_parameters.swap_xy {
			bbox.swap_xy();
		}
		if self.converter_parameters.flip_y {
			bbox.flip_y();
		}

		let ghost bbox_src = bbox;
		proof {
			assert forall|c: TileCoord3| valid(c) implies (bbox_src.has3(c) <==> bbox0.has3(t_fwd(self.f(), self.s(), c))) by { lemma_t_inverse(self.f(), self.s(), c); lemma_pow2_bound(c.z as nat); }
		}
		let mut stream = self.reader.get_bbox_tile_stream(bbox);
		let ghost s0 = stream;

		let flip_y = self.converter_parameters.flip_y;
		let swap_xy = self.converter_parameters.swap_xy;

		if flip_y || swap_xy {
			stream = stream.map_coord(move |mut coord: TileCoord3| -> (out: TileCoord3)
				requires valid(coord)
				ensures out == t_fwd(flip_y, swap_xy, coord)
			{
				if flip_y {
					coord.flip_y()
				}
				if swap_xy {
					coord.swap_xy()
				}
				coord
			});
		}

		let ghost s1 = stream;
		proof {
			assert forall|w: TileCoord3| valid(w) implies #[trigger] t_inv(self.f(), self.s(), t_fwd(self.f(), self.s(), w)) == w && valid(t_fwd(self.f(), self.s(), w)) by { lemma_t_inverse(self.f(), self.s(), w); }
			assert forall|w: TileCoord3| #[trigger] bbox_src.has3(w) implies valid(w) by { lemma_pow2_bound(w.z as nat); }
			assert forall|c: TileCoord3, b: Seq<u8>| valid(c) && bbox0.has3(c) && self.reader.tile_at(t_inv(self.f(), self.s(), c)) == Some(b) implies s1.items().contains((c, b)) by {
				lemma_t_inverse(self.f(), self.s(), c);
				let src = t_inv(self.f(), self.s(), c);
				assert(valid(src)); assert(t_fwd(self.f(), self.s(), src) == c); assert(bbox_src.has3(src)); assert(s0.items().contains((src, b)));
			}
			assert forall|c: TileCoord3, b: Seq<u8>| valid(c) && s1.items().contains((c, b)) implies (bbox0.has3(c) && self.reader.tile_at(t_inv(self.f(), self.s(), c)) == Some(b)) by {
				lemma_t_inverse(self.f(), self.s(), c);
			}
		}
		if let Some(tile_recompressor) = &self.tile_recompressor {
			stream = tile_recompressor.process_stream(stream);
		}
		proof {
			assert forall|c: TileCoord3, b: Seq<u8>| valid(c) implies (stream.items().contains((c, b)) <==> (bbox0.has3(c) && self.lookup(c) == Some(b))) by {
				let src = t_inv(self.f(), self.s(), c);
				if bbox0.has3(c) && self.lookup(c) == Some(b) {
					let t = self.reader.tile_at(src).unwrap();
					assert(s1.items().contains((c, t)));
				}
			}
		}

		stream
	}
}
}
fn main() {}
