use vstd::prelude::*;
use std::collections::HashMap;
use std::hash::Hash;
verus! {
pub struct VTLPMap<T: Clone + Eq + Hash> {
	pub list: Vec<T>,
	pub map: HashMap<T, u32>,
}
impl<T: Clone + Eq + Hash> VTLPMap<T> {
	pub open spec fn wf(&self) -> bool {
		&&& self.list@.len() < 0xffff_ffff
		&&& forall|k: T| self.map@.contains_key(k) ==> (self.map@[k] as int) < self.list@.len() && self.list@[self.map@[k] as int] == k
	}
	pub fn add(&mut self, entry: T) -> (index: u32)
		requires old(self).wf(), vstd::std_specs::hash::obeys_key_model::<T>(),
		ensures final(self).wf(), (index as int) < final(self).list@.len(), final(self).list@[index as int] == entry,
			// what VectorTileLayer::read needs: positional fidelity
			final(self).list@ == old(self).list@.push(entry),
	{
		if let Some(index) = self.map.get(&entry) {
			return *index;
		}
		let index = self.list.len() as u32;
		self.map.insert(entry.clone(), index);
		self.list.push(entry);
		index
	}
}
}
fn main() {}
