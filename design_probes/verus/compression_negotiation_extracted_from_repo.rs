use vstd::prelude::*;
verus! {
global size_of usize == 8;
#[derive(Debug)]
pub struct VErr {}
#[verifier::external_body]
pub fn verr() -> VErr { VErr{} }

#[derive(Clone, Copy, PartialEq, Eq, Debug, Structural)]
pub enum TileCompression { Uncompressed, Gzip, Brotli }
#[derive(Clone, Copy, PartialEq, Eq, Structural)]
pub enum CompressionGoal { UseFastCompression, UseBestCompression, IsIncompressible }

// R6: EnumSet<TileCompression> -> abstract finite set (enumset crate, trusted)
#[verifier::external_body]
pub struct AbsSet { }
impl AbsSet {
	pub uninterp spec fn set(&self) -> Set<TileCompression>;
	#[verifier::external_body]
	pub fn is_empty(&self) -> (r: bool) ensures r == (self.set() =~= Set::empty()) { unimplemented!() }
	#[verifier::external_body]
	pub fn contains(&self, c: TileCompression) -> (r: bool) ensures r == self.set().contains(c) { unimplemented!() }
}
pub struct TargetCompression { pub compressions: AbsSet, pub compression_goal: CompressionGoal }

#[verifier::external_body]
pub struct Blob { v: Vec<u8> }
impl View for Blob { type V = Seq<u8>; uninterp spec fn view(&self) -> Seq<u8>; }
pub uninterp spec fn dec_gzip(d: Seq<u8>) -> Option<Seq<u8>>;
pub uninterp spec fn dec_brotli(d: Seq<u8>) -> Option<Seq<u8>>;
pub open spec fn decode(c: TileCompression, d: Seq<u8>) -> Option<Seq<u8>> {
	match c { TileCompression::Uncompressed => Some(d), TileCompression::Gzip => dec_gzip(d), TileCompression::Brotli => dec_brotli(d) }
}
#[verifier::external_body]
pub fn compress_gzip(b: &Blob) -> (r: Result<Blob, VErr>) ensures r is Ok ==> dec_gzip(r.unwrap()@) == Some(b@) { unimplemented!() }
#[verifier::external_body]
pub fn compress_brotli(b: &Blob) -> (r: Result<Blob, VErr>) ensures r is Ok ==> dec_brotli(r.unwrap()@) == Some(b@) { unimplemented!() }
#[verifier::external_body]
pub fn decompress_gzip(b: &Blob) -> (r: Result<Blob, VErr>) ensures r is Ok ==> dec_gzip(b@) == Some(r.unwrap()@) { unimplemented!() }
#[verifier::external_body]
pub fn decompress_brotli(b: &Blob) -> (r: Result<Blob, VErr>) ensures r is Ok ==> dec_brotli(b@) == Some(r.unwrap()@) { unimplemented!() }

pub fn optimize_compression(
	blob: Blob,
	input_compression: &TileCompression,
	target: &TargetCompression,
) -> (r: Result<(Blob, TileCompression), VErr>)
	ensures
		!target.compressions.set().contains(TileCompression::Uncompressed) ==> r is Err,
		r is Ok ==> target.compressions.set().contains(r.unwrap().1) && decode(r.unwrap().1, r.unwrap().0@) == decode(*input_compression, blob@),
		r is Ok && target.compression_goal == CompressionGoal::IsIncompressible && *input_compression == TileCompression::Uncompressed ==> r.unwrap().1 == TileCompression::Uncompressed,
		r is Ok && target.compression_goal != CompressionGoal::UseBestCompression && target.compressions.set().contains(*input_compression) ==> r.unwrap().1 == *input_compression && r.unwrap().0@ == blob@,
{
	if target.compressions.is_empty() {
		return Err(verr());
	}

	if !target.compressions.contains(TileCompression::Uncompressed) {
		return Err(verr());
	}

	use CompressionGoal::*;

	
	
	if target.compression_goal != UseBestCompression && target.compressions.contains(*input_compression) {
		return Ok((blob, *input_compression));
	}

	match input_compression {
		TileCompression::Uncompressed => {
			if target.compression_goal != IsIncompressible {
				if target.compressions.contains(TileCompression::Brotli) {
					return Ok((compress_brotli(&blob)?, TileCompression::Brotli));
				}

				if target.compressions.contains(TileCompression::Gzip) {
					return Ok((compress_gzip(&blob)?, TileCompression::Gzip));
				}
			}

			Ok((blob, TileCompression::Uncompressed))
		}
		TileCompression::Gzip => {
			if target.compression_goal != IsIncompressible && target.compressions.contains(TileCompression::Brotli) {
				let decompressed = decompress_gzip(&blob)?;
				let compressed_brotli = compress_brotli(&decompressed)?;
				return Ok((compressed_brotli, TileCompression::Brotli));
			}

			if target.compressions.contains(TileCompression::Gzip) {
				return Ok((blob, TileCompression::Gzip));
			}

			
			let decompressed = decompress_gzip(&blob)?;
			Ok((decompressed, TileCompression::Uncompressed))
		}
		TileCompression::Brotli => {
			if target.compressions.contains(TileCompression::Brotli) {
				return Ok((blob, TileCompression::Brotli));
			}
			let decompressed = decompress_brotli(&blob)?;

			if target.compression_goal != IsIncompressible && target.compressions.contains(TileCompression::Gzip) {
				let compressed_gzip = compress_gzip(&decompressed)?;
				return Ok((compressed_gzip, TileCompression::Gzip));
			}

			Ok((decompressed, TileCompression::Uncompressed))
		}
	}
}
pub fn recompress(
	blob: Blob,
	input_compression: &TileCompression,
	output_compression: &TileCompression,
) -> (r: Result<Blob, VErr>)
	ensures r is Ok ==> decode(*output_compression, r.unwrap()@) == decode(*input_compression, blob@)
{
	if input_compression == output_compression {
		return Ok(blob);
	}
	let decompressed = decompress(blob, input_compression)?;
	let recompressed = compress(decompressed, output_compression)?;
	Ok(recompressed)
}
pub fn compress(blob: Blob, compression: &TileCompression) -> (r: Result<Blob, VErr>)
	ensures r is Ok ==> decode(*compression, r.unwrap()@) == Some(blob@)
{
	match compression {
		TileCompression::Uncompressed => Ok(blob),
		TileCompression::Gzip => compress_gzip(&blob),
		TileCompression::Brotli => compress_brotli(&blob),
	}
}
pub fn decompress(blob: Blob, compression: &TileCompression) -> (r: Result<Blob, VErr>)
	ensures r is Ok ==> decode(*compression, blob@) == Some(r.unwrap()@)
{
	match compression {
		TileCompression::Uncompressed => Ok(blob),
		TileCompression::Gzip => decompress_gzip(&blob),
		TileCompression::Brotli => decompress_brotli(&blob),
	}
}
}
fn main() {}
