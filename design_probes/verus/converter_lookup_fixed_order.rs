use vstd::prelude::*;
verus! {
#[derive(Debug)]
pub struct VErr {}
#[verifier::external_body]
pub fn verr() -> VErr { VErr{} }
pub open spec fn pow2(l: nat) -> nat decreases l { if l == 0 { 1 } else { 2 * pow2((l - 1) as nat) } }
pub assume_specification [u32::pow] (b: u32, e: u32) -> (r: u32)
   requires b == 2, e <= 31
   ensures r as nat == pow2(e as nat);
pub proof fn lemma_pow2_mono(a: nat, b: nat) requires a <= b ensures pow2(a) <= pow2(b) decreases b
{ if a < b { lemma_pow2_mono(a, (b - 1) as nat); } }
pub proof fn lemma_pow2_bound(l: nat) requires l <= 31 ensures 1 <= pow2(l) <= 0x8000_0000
{ lemma_pow2_mono(0, l); lemma_pow2_mono(l, 31); assert(pow2(31) == 0x8000_0000) by (compute); assert(pow2(0) == 1) by (compute); }

#[derive(Clone, Copy)]
pub struct TileCoord3 { pub x: u32, pub y: u32, pub z: u8 }

// spec point maps, from the property statement
pub open spec fn sflip(c: TileCoord3) -> TileCoord3 { TileCoord3 { x: c.x, y: (pow2(c.z as nat) - 1 - c.y) as u32, z: c.z } }
pub open spec fn sswap(c: TileCoord3) -> TileCoord3 { TileCoord3 { x: c.y, y: c.x, z: c.z } }
pub open spec fn valid(c: TileCoord3) -> bool { c.z <= 31 && c.x < pow2(c.z as nat) && c.y < pow2(c.z as nat) }
pub open spec fn t_inv(flip: bool, swap: bool, c: TileCoord3) -> TileCoord3 {
	let c1 = if swap { sswap(c) } else { c };
	if flip { sflip(c1) } else { c1 }
}

impl TileCoord3 {
	// verbatim from transform_coord.rs (impl TransformCoord for TileCoord3), R3 on assert!
	pub fn flip_y(&mut self)
		requires old(self).z <= 31, old(self).y < pow2(old(self).z as nat)
		ensures *final(self) == sflip(*old(self))
	{
		proof { lemma_pow2_bound(self.z as nat); }
		let max_index = 2u32.pow(self.z as u32) - 1;
		vassert(max_index >= self.y);
		self.y = max_index - self.y;
	}
	pub fn swap_xy(&mut self)
		ensures *final(self) == sswap(*old(self))
	{
		let t = self.x; self.x = self.y; self.y = t;   // std::mem::swap(&mut self.x, &mut self.y) -- see note
	}
}
pub fn vassert(c: bool) requires c {}

#[verifier::external_body]
pub struct Blob { v: Vec<u8> }
impl View for Blob { type V = Seq<u8>; uninterp spec fn view(&self) -> Seq<u8>; }

#[verifier::external_body]
pub struct Src { }
impl Src {
	pub uninterp spec fn tile_at(&self, c: TileCoord3) -> Option<Seq<u8>>;
	#[verifier::external_body]
	pub fn get_tile_data(&self, coord: &TileCoord3) -> (r: Result<Option<Blob>, VErr>)
		ensures r is Ok ==> (match r.unwrap() { Some(b) => self.tile_at(*coord) == Some(b@), None => self.tile_at(*coord).is_none() })
	{ unimplemented!() }
}
pub struct CP { pub flip_y: bool, pub swap_xy: bool }
pub struct TilesConvertReader { pub reader: Src, pub converter_parameters: CP }

impl TilesConvertReader {
	// verbatim from converter.rs get_tile_data (R5), recompressor part cut for the probe
	pub fn get_tile_data(&self, coord: &TileCoord3) -> (r: Result<Option<Blob>, VErr>)
		requires valid(*coord)
		ensures r is Ok ==> (match r.unwrap() {
			Some(b) => self.reader.tile_at(t_inv(self.converter_parameters.flip_y, self.converter_parameters.swap_xy, *coord)) == Some(b@),
			None => self.reader.tile_at(t_inv(self.converter_parameters.flip_y, self.converter_parameters.swap_xy, *coord)).is_none() })
	{
		let mut coord = *coord;
		if self.converter_parameters.swap_xy {
			coord.swap_xy();
		}
		if self.converter_parameters.flip_y {
			coord.flip_y();
		}
		let mut blob = self.reader.get_tile_data(&coord)?;
		Ok(blob)
	}
}
}
fn main() {}
