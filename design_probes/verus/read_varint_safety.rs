use vstd::prelude::*;
verus! {
global size_of usize == 8;
#[derive(Debug)]
pub struct VErr {}
#[verifier::external_body]
pub fn verr() -> VErr { VErr{} }

pub struct R { pub data: Vec<u8>, pub pos: usize }
impl R {
	pub open spec fn wf(&self) -> bool { self.pos <= self.data@.len() }
	pub open spec fn rest(&self) -> Seq<u8> { self.data@.subrange(self.pos as int, self.data@.len() as int) }
	pub fn rd_u8(&mut self) -> (r: Result<u8, VErr>)
		requires old(self).wf()
		ensures final(self).wf(), final(self).data@ == old(self).data@,
			old(self).pos < old(self).data@.len() ==> r is Ok && r.unwrap() == old(self).data@[old(self).pos as int] && final(self).pos == old(self).pos + 1,
			old(self).pos >= old(self).data@.len() ==> r is Err && final(self).pos == old(self).pos,
	{
		if self.pos < self.data.len() { let b = self.data[self.pos]; self.pos = self.pos + 1; Ok(b) } else { Err(verr()) }
	}
}

pub open spec fn enc(v: nat) -> Seq<u8> decreases v {
	if v < 128 { seq![v as u8] } else { seq![((v % 128) + 128) as u8] + enc(v / 128) }
}
pub open spec fn pow128(k: nat) -> nat decreases k { if k == 0 { 1 } else { 128 * pow128((k - 1) as nat) } }

// partial decode state: after k bytes, value == (v mod 128^k) and remaining bytes == enc(v / 128^k)
impl R {
	// verbatim body of ValueReader::read_varint; R7: self.get_reader().read_u8() -> self.rd_u8(); R2: bail!
	pub fn read_varint(&mut self) -> (r: Result<u64, VErr>)
		requires old(self).wf()
		ensures final(self).wf(), final(self).data@ == old(self).data@, final(self).pos >= old(self).pos, final(self).pos <= old(self).pos + 10,
	{
		let mut value = 0;
		let mut shift = 0;
		let ghost p0 = self.pos;
		loop
			invariant_except_break 0 <= shift <= 63, shift % 7 == 0, self.pos == p0 + shift / 7,
			invariant self.wf(), self.data@ == old(self).data@, p0 == old(self).pos,
			ensures p0 <= self.pos <= p0 + 10,
			decreases 70 - shift
		{
			let byte = self.rd_u8()?;
			value |= ((byte as u64) & 0x7F) << shift;
			if byte & 0x80 == 0 {
				break;
			}
			shift += 7;
			if shift >= 70 {
				return Err(verr());
			}
		}
		Ok(value)
	}
}
}
fn main() {}
