use vstd::prelude::*;
verus! {
#[derive(Debug)]
pub struct VErr {}
#[verifier::external_body]
pub fn verr() -> VErr { VErr{} }
pub fn vassert(c: bool) requires c {}
pub fn vpanic() requires false {}

pub open spec fn pow2(l: nat) -> nat decreases l { if l == 0 { 1 } else { 2 * pow2((l - 1) as nat) } }
pub proof fn lemma_pow2_mono(a: nat, b: nat) requires a <= b ensures pow2(a) <= pow2(b) decreases b
{ if a < b { lemma_pow2_mono(a, (b - 1) as nat); } }
pub proof fn lemma_pow2_bound(l: nat) requires l <= 31 ensures 1 <= pow2(l) <= 0x8000_0000
{ lemma_pow2_mono(0, l); lemma_pow2_mono(l, 31); assert(pow2(31) == 0x8000_0000) by (compute); assert(pow2(0) == 1) by (compute); }
pub assume_specification [u32::pow] (b: u32, e: u32) -> (r: u32)
   requires b == 2, e <= 31
   ensures r as nat == pow2(e as nat);

pub struct TileCoord2 { pub x: u32, pub y: u32 }

pub struct TileBBox {
	pub level: u8,
	pub x_min: u32,
	pub y_min: u32,
	pub x_max: u32,
	pub y_max: u32,
	pub max: u32,
}
impl Clone for TileBBox { fn clone(&self) -> (r: Self) ensures r == *self { TileBBox { level: self.level, x_min: self.x_min, y_min: self.y_min, x_max: self.x_max, y_max: self.y_max, max: self.max } } }

impl TileBBox {
	pub open spec fn has(&self, x: int, y: int) -> bool {
		self.x_min <= x <= self.x_max && self.y_min <= y <= self.y_max
	}
	pub open spec fn empty(&self) -> bool { forall|x: int, y: int| !self.has(x, y) }
	pub open spec fn wf(&self) -> bool {
		self.level <= 31 && self.max as nat == pow2(self.level as nat) - 1
		&& (!(self.x_max < self.x_min || self.y_max < self.y_min) ==> self.x_max <= self.max && self.y_max <= self.max)
	}
	pub open spec fn w(&self) -> int { if self.x_max < self.x_min { 0 } else { self.x_max - self.x_min + 1 } }
	pub open spec fn h(&self) -> int { if self.y_max < self.y_min { 0 } else { self.y_max - self.y_min + 1 } }

	pub fn new(level: u8, x_min: u32, y_min: u32, x_max: u32, y_max: u32) -> (r: Result<TileBBox, VErr>)
		ensures
			r is Ok <==> (level <= 31 && x_max < pow2(level as nat) && y_max < pow2(level as nat) && x_min <= x_max && y_min <= y_max),
			r is Ok ==> r.unwrap().wf() && r.unwrap().level == level && !r.unwrap().empty()
				&& forall|x: int, y: int| r.unwrap().has(x, y) <==> (x_min <= x <= x_max && y_min <= y <= y_max),
	{
		if !(level <= 31) { return Err(verr()); }

		proof { lemma_pow2_bound(level as nat); }
		let max = 2u32.pow(level as u32) - 1;

		if !(x_max <= max) { return Err(verr()); }
		if !(y_max <= max) { return Err(verr()); }
		if !(x_min <= x_max) { return Err(verr()); }
		if !(y_min <= y_max) { return Err(verr()); }

		let bbox = TileBBox {
			level,
			max,
			x_min,
			y_min,
			x_max,
			y_max,
		};

		proof { assert(bbox.has(x_min as int, y_min as int)); }
		Ok(bbox)
	}

	pub fn new_empty(level: u8) -> (r: Result<TileBBox, VErr>)
		ensures r is Ok <==> level <= 31, r is Ok ==> r.unwrap().wf() && r.unwrap().level == level && r.unwrap().empty()
	{
		if !(level <= 31) { return Err(verr()); }
		proof { lemma_pow2_bound(level as nat); }
		let max = 2u32.pow(level as u32) - 1;
		Ok(TileBBox {
			level,
			max,
			x_min: max + 1,
			y_min: max + 1,
			x_max: 0,
			y_max: 0,
		})
	}

	pub fn is_empty(&self) -> (r: bool)
		ensures r == self.empty()
	{
		proof { if !((self.x_max < self.x_min) || (self.y_max < self.y_min)) { assert(self.has(self.x_min as int, self.y_min as int)); } }
		(self.x_max < self.x_min) || (self.y_max < self.y_min)
	}

	pub fn width(&self) -> (r: u32)
		requires self.wf()
		ensures r == self.w()
	{
		proof { lemma_pow2_bound(self.level as nat); }
		if self.x_max < self.x_min {
			0
		} else {
			self.x_max - self.x_min + 1
		}
	}

	pub fn contains2(&self, coord: &TileCoord2) -> (r: bool)
		ensures r == self.has(coord.x as int, coord.y as int)
	{
		coord.x >= self.x_min && coord.x <= self.x_max && coord.y >= self.y_min && coord.y <= self.y_max
	}

	pub fn set_empty(&mut self) 
		ensures final(self).empty(), final(self).level == old(self).level, final(self).max == old(self).max,
			old(self).wf() ==> final(self).wf()
	{
		self.x_min = 1;
		self.y_min = 1;
		self.x_max = 0;
		self.y_max = 0;
	}

	pub fn intersect_bbox(&mut self, bbox: &TileBBox) -> (res: Result<(), VErr>)
		ensures
			res is Ok <==> old(self).level == bbox.level,
			res is Ok ==> forall|x: int, y: int| final(self).has(x, y) == (old(self).has(x, y) && bbox.has(x, y)),
			final(self).level == old(self).level, final(self).max == old(self).max,
			res is Ok && old(self).wf() ==> final(self).wf(),
	{
		if self.level != bbox.level {
			return Err(verr());
		}

		if !self.is_empty() && !bbox.is_empty() {
			self.x_min = self.x_min.max(bbox.x_min);
			self.y_min = self.y_min.max(bbox.y_min);
			self.x_max = self.x_max.min(bbox.x_max);
			self.y_max = self.y_max.min(bbox.y_max);
		} else {
			
			self.set_empty();
		}

		Ok(())
	}

	pub fn add_border(&mut self, x_min: u32, y_min: u32, x_max: u32, y_max: u32) 
		requires old(self).wf()
		ensures final(self).wf()
	{
		proof { lemma_pow2_bound(old(self).level as nat); }
		if !self.is_empty() {
			self.x_min = self.x_min.saturating_sub(x_min);
			self.y_min = self.y_min.saturating_sub(y_min);
			self.x_max = (self.x_max + x_max).min(self.max);
			self.y_max = (self.y_max + y_max).min(self.max);
		}
	}

	pub fn get_tile_index2(&self, coord: &TileCoord2) -> (r: Result<usize, VErr>)
		requires self.wf()
		ensures r is Ok <==> self.has(coord.x as int, coord.y as int),
			r is Ok ==> r.unwrap() as int == (coord.y - self.y_min) * self.w() + (coord.x - self.x_min),
	{
		if !self.contains2(coord) {
			return Err(verr());
		}

		proof { lemma_pow2_bound(self.level as nat);
			assert((coord.y - self.y_min) * self.w() + (coord.x - self.x_min) < self.w() * self.h()) by (nonlinear_arith)
				requires 0 <= coord.y - self.y_min < self.h(), 0 <= coord.x - self.x_min < self.w();
			assert(0 <= (coord.y - self.y_min) * self.w()) by (nonlinear_arith) requires 0 <= coord.y - self.y_min, 0 <= self.w(); }
		let x = coord.x - self.x_min;
		let y = coord.y - self.y_min;
		let index = y * (self.x_max + 1 - self.x_min) + x;

		Ok(index as usize)
	}

}
}
fn main() {}
