use versatiles_core::types::LimitedCache;
fn main() {
    let mut c: LimitedCache<u8, u8> = LimitedCache::with_maximum_size(4);
    c.add(64, 1); c.add(65, 2);
    println!("{c:?} get(64)={:?}", c.get(&64));
    c.add(176, 3);
    println!("after add: {c:?} get(64)={:?} get(65)={:?} get(176)={:?}", c.get(&64), c.get(&65), c.get(&176));
    let mut c: LimitedCache<u8, u8> = LimitedCache::with_maximum_size(6);
    c.add(1, 1); c.add(2, 2); c.add(3,3);
    println!("cap3 get(1)={:?}", c.get(&1));
    c.add(4, 4);
    println!("cap3 after add: {c:?} get(1)={:?}", c.get(&1));
}
