use vstd::prelude::*;
verus! {
#[derive(Debug)]
pub struct VErr {}
#[verifier::external_body]
pub fn verr() -> VErr { VErr{} }
pub fn vassert(c: bool) requires c {}
pub fn vpanic() requires false {}

pub open spec fn pow2(l: nat) -> nat decreases l { if l == 0 { 1 } else { 2 * pow2((l - 1) as nat) } }
pub proof fn lemma_pow2_mono(a: nat, b: nat) requires a <= b ensures pow2(a) <= pow2(b) decreases b
{ if a < b { lemma_pow2_mono(a, (b - 1) as nat); } }
pub proof fn lemma_pow2_bound(l: nat) requires l <= 31 ensures 1 <= pow2(l) <= 0x8000_0000
{ lemma_pow2_mono(0, l); lemma_pow2_mono(l, 31); assert(pow2(31) == 0x8000_0000) by (compute); assert(pow2(0) == 1) by (compute); }
pub assume_specification [u32::pow] (b: u32, e: u32) -> (r: u32)
   requires b == 2, e <= 31
   ensures r as nat == pow2(e as nat);

pub struct TileCoord2 { pub x: u32, pub y: u32 }

pub struct TileBBox {
	pub level: u8,
	pub x_min: u32,
	pub y_min: u32,
	pub x_max: u32,
	pub y_max: u32,
	pub max: u32,
}
impl Clone for TileBBox { fn clone(&self) -> (r: Self) ensures r == *self { TileBBox { level: self.level, x_min: self.x_min, y_min: self.y_min, x_max: self.x_max, y_max: self.y_max, max: self.max } } }

impl TileBBox {
	pub open spec fn has(&self, x: int, y: int) -> bool {
		self.x_min <= x <= self.x_max && self.y_min <= y <= self.y_max
	}
	pub open spec fn empty(&self) -> bool { forall|x: int, y: int| !self.has(x, y) }
	pub open spec fn wf(&self) -> bool {
		self.level <= 31 && self.max as nat == pow2(self.level as nat) - 1
		&& (!(self.x_max < self.x_min || self.y_max < self.y_min) ==> self.x_max <= self.max && self.y_max <= self.max)
	}
	pub open spec fn w(&self) -> int { if self.x_max < self.x_min { 0 } else { self.x_max - self.x_min + 1 } }
	pub open spec fn h(&self) -> int { if self.y_max < self.y_min { 0 } else { self.y_max - self.y_min + 1 } }

/*EXTRACTED*/
}
}
fn main() {}
