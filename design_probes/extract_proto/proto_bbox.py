#!/usr/bin/env python3
"""Throw-away: extract TileBBox functions from the real file, inject contracts, run verus."""
import sys, re, subprocess
sys.path.insert(0, '/root/scratch/proto')
from rlex import *

SRC = '/repo/versatiles_core/src/types/tile_bbox.rs'
TC = '/repo/versatiles_core/src/utils/transform_coord.rs'

def extract(path, impl_hdr, names):
    toks = lex(open(path).read())
    impls = [(h, a, b) for h, a, b in find_impls(toks) if h == impl_hdr]
    assert len(impls) == 1, (impl_hdr, [h for h,_,_ in find_impls(toks)])
    _, a, b = impls[0]
    out = {}
    for n in names:
        r = find_fn(toks, a, b, n)
        if r is None: raise SystemExit(f"ANCHOR-LOST {path} {impl_hdr} {n}")
        s, o, c = r
        out[n] = (toks[s:o], toks[o:c+1])
    return out

def rules(sig, body, log):
    sig = rewrite_result(strip_comments(sig))
    body = rewrite_macros(strip_comments(body), log)
    return sig, body

CONTRACTS = {
 'new': """(r: Result<TileBBox, VErr>)
		ensures
			r is Ok <==> (level <= 31 && x_max < pow2(level as nat) && y_max < pow2(level as nat) && x_min <= x_max && y_min <= y_max),
			r is Ok ==> r.unwrap().wf() && r.unwrap().level == level && !r.unwrap().empty()
				&& forall|x: int, y: int| r.unwrap().has(x, y) <==> (x_min <= x <= x_max && y_min <= y <= y_max),""",
 'new_empty': """(r: Result<TileBBox, VErr>)
		ensures r is Ok <==> level <= 31, r is Ok ==> r.unwrap().wf() && r.unwrap().level == level && r.unwrap().empty()""",
 'is_empty': """(r: bool)
		ensures r == self.empty()""",
 'width': """(r: u32)
		requires self.wf()
		ensures r == self.w()""",
 'contains2': """(r: bool)
		ensures r == self.has(coord.x as int, coord.y as int)""",
 'set_empty': """
		ensures final(self).empty(), final(self).level == old(self).level, final(self).max == old(self).max,
			old(self).wf() ==> final(self).wf()""",
 'intersect_bbox': """(res: Result<(), VErr>)
		ensures
			res is Ok <==> old(self).level == bbox.level,
			res is Ok ==> forall|x: int, y: int| final(self).has(x, y) == (old(self).has(x, y) && bbox.has(x, y)),
			final(self).level == old(self).level, final(self).max == old(self).max,
			res is Ok && old(self).wf() ==> final(self).wf(),""",
 'add_border': """
		requires old(self).wf()
		ensures final(self).wf()""",
 'get_tile_index2': """(r: Result<usize, VErr>)
		requires self.wf()
		ensures r is Ok <==> self.has(coord.x as int, coord.y as int),
			r is Ok ==> r.unwrap() as int == (coord.y - self.y_min) * self.w() + (coord.x - self.x_min),""",
}
# ghost injections: (fn, anchor text, proof block) inserted BEFORE the anchor
PROOFS = {
 'new': [('let max =', 'proof { lemma_pow2_bound(level as nat); }'), ('Ok(bbox)', 'proof { assert(bbox.has(x_min as int, y_min as int)); }')],
 'new_empty': [('let max =', 'proof { lemma_pow2_bound(level as nat); }')],
 'is_empty': [('(self.x_max < self.x_min)', 'proof { if !((self.x_max < self.x_min) || (self.y_max < self.y_min)) { assert(self.has(self.x_min as int, self.y_min as int)); } }')],
 'width': [('if self.x_max', 'proof { lemma_pow2_bound(self.level as nat); }')],
 'add_border': [('if !self.is_empty()', 'proof { lemma_pow2_bound(old(self).level as nat); }')],
 'get_tile_index2': [('let x =', '''proof { lemma_pow2_bound(self.level as nat);
			assert((coord.y - self.y_min) * self.w() + (coord.x - self.x_min) < self.w() * self.h()) by (nonlinear_arith)
				requires 0 <= coord.y - self.y_min < self.h(), 0 <= coord.x - self.x_min < self.w();
			assert(0 <= (coord.y - self.y_min) * self.w()) by (nonlinear_arith) requires 0 <= coord.y - self.y_min, 0 <= self.w(); }''')],
}

PRELUDE = open('/root/scratch/proto/prelude_bbox.rs').read()

def emit():
    log = []
    fns = extract(SRC, 'impl TileBBox', list(CONTRACTS.keys()))
    parts = []
    for n, (sig, body) in fns.items():
        sig, body = rules(sig, body, log)
        sigt = text(sig).strip()
        c = CONTRACTS[n]
        # split return type off the signature: keep everything up to '->' if present
        if '->' in sigt:
            head = sigt[:sigt.rindex('->')].rstrip()
            sigt2 = head + ' -> ' + c if c.strip().startswith('(') else sigt + c
        else:
            sigt2 = sigt + ' ' + c
        bt = text(body)
        for anchor, proof in PROOFS.get(n, []):
            assert bt.count(anchor) >= 1, (n, anchor)
            i = bt.index(anchor)
            bt = bt[:i] + proof + '\n\t\t' + bt[i:]
        parts.append('\t' + sigt2 + '\n\t' + bt + '\n')
    out = PRELUDE.replace('/*EXTRACTED*/', '\n'.join(parts))
    open('/root/scratch/proto/out_bbox.rs', 'w').write(out)
    for l in log: print('rule', l[0], l[1], repr(l[2][:70]))

emit()
r = subprocess.run(['verus', '/root/scratch/proto/out_bbox.rs', '--multiple-errors', '20'], capture_output=True, text=True)
for line in (r.stdout + r.stderr).splitlines():
    if re.match(r'^(error|verification results|warning: unused)', line) or '-->' in line: print(line)
