#!/usr/bin/env python3
"""Throw-away prototype: minimal Rust lexer + item locator + rewrite rules (design probe, not framework)."""
import re, sys

TOK = re.compile(r'''
  (?P<ws>\s+)
 |(?P<lc>//[^\n]*)
 |(?P<bc>/\*.*?\*/)
 |(?P<rstr>b?r(?P<h>\#*)".*?"(?P=h))
 |(?P<str>b?"(?:\\.|[^"\\])*")
 |(?P<chr>b?'(?:\\(?:x[0-9a-fA-F]{2}|u\{[0-9a-fA-F]+\}|.)|[^'\\])')
 |(?P<life>'[A-Za-z_][A-Za-z0-9_]*)
 |(?P<num>[0-9][0-9a-zA-Z_]*(?:\.[0-9][0-9a-zA-Z_]*)?)
 |(?P<id>[A-Za-z_][A-Za-z0-9_]*)
 |(?P<p>::|->|=>|==|!=|<=|>=|&&|\|\||\.\.=|\.\.|<<=|>>=|[-+*/%^&|]=|[{}()\[\];,.:<>=!&|+\-*/%^?#@~$])
''', re.X | re.S)

def lex(src):
    out = []; i = 0
    while i < len(src):
        m = TOK.match(src, i)
        if not m: raise SyntaxError(f"lex error at {i}: {src[i:i+30]!r}")
        kind = m.lastgroup
        if kind == 'h': kind = 'rstr'
        out.append((kind, m.group(0)))
        i = m.end()
    return out

OPEN = {'{': '}', '(': ')', '[': ']'}

def sig(toks):
    """significant tokens with original index"""
    return [(i, k, t) for i, (k, t) in enumerate(toks) if k not in ('ws', 'lc', 'bc')]

def match_close(toks, i):
    """toks[i] is an opener; return index of matching closer"""
    depth = 0
    for j in range(i, len(toks)):
        t = toks[j][1]
        if toks[j][0] == 'p':
            if t in OPEN: depth += 1
            elif t in OPEN.values():
                depth -= 1
                if depth == 0: return j
    raise SyntaxError("unbalanced")

def text(toks): return ''.join(t for _, t in toks)

def find_impls(toks):
    """yield (header_text, body_start, body_end) for every top-level `impl ... {` block"""
    s = sig(toks); res = []
    depth = 0; n = 0
    while n < len(s):
        i, k, t = s[n]
        if k == 'p' and t == '{': depth += 1
        elif k == 'p' and t == '}': depth -= 1
        elif depth == 0 and k == 'id' and t == 'impl':
            # header up to '{'
            m = n
            while not (s[m][1] == 'p' and s[m][2] == '{'): m += 1
            hdr = ' '.join(x[2] for x in s[n:m])
            close = match_close(toks, s[m][0])
            res.append((hdr, s[m][0], close))
            # skip over block
            while n < len(s) and s[n][0] <= close: n += 1
            continue
        n += 1
    return res

def find_fn(toks, start, end, name):
    """find `fn name` at depth 1 inside toks[start..end]; returns (fn_start_incl_quals, body_open, body_close)"""
    depth = 0; j = start
    while j < end:
        k, t = toks[j]
        if k == 'p' and t in OPEN: depth += 1
        elif k == 'p' and t in OPEN.values(): depth -= 1
        elif depth == (1 if start > 0 or True else 0) and k == 'id' and t == 'fn':
            # next significant is name
            m = j + 1
            while toks[m][0] in ('ws', 'lc', 'bc'): m += 1
            if toks[m][1] == name:
                # walk back over qualifiers (pub, pub(crate), async, const, unsafe)
                b = j
                while True:
                    p = b - 1
                    while p >= 0 and toks[p][0] in ('ws',): p -= 1
                    if p >= 0 and toks[p][0] == 'id' and toks[p][1] in ('pub', 'async', 'const', 'unsafe'):
                        b = p; continue
                    if p >= 0 and toks[p][1] == ')' :
                        # pub(crate)
                        q = p
                        while toks[q][1] != '(': q -= 1
                        r = q - 1
                        while toks[r][0] == 'ws': r -= 1
                        if toks[r][1] == 'pub': b = r; continue
                    break
                # find body open brace: first '{' at paren depth 0 after signature
                d = 0; o = m
                while True:
                    kk, tt = toks[o]
                    if kk == 'p' and tt in '([': d += 1
                    elif kk == 'p' and tt in ')]': d -= 1
                    elif kk == 'p' and tt == '{' and d == 0: break
                    elif kk == 'p' and tt == ';' and d == 0: raise SyntaxError("no body")
                    o += 1
                c = match_close(toks, o)
                return b, o, c
        j += 1
    return None

def split_top_commas(toks):
    parts = [[]]; depth = 0
    for k, t in toks:
        if k == 'p' and t in OPEN: depth += 1
        elif k == 'p' and t in OPEN.values(): depth -= 1
        if k == 'p' and t == ',' and depth == 0: parts.append([]); continue
        parts[-1].append((k, t))
    return parts

def strip_comments(toks):
    return [(k, t) for k, t in toks if k not in ('lc', 'bc')]

def rewrite_macros(toks, log):
    """R2/R3/R4 on a token list (function item)"""
    out = []; i = 0
    while i < len(toks):
        k, t = toks[i]
        # macro invocation: id ! (
        if k == 'id' and i + 2 < len(toks) and toks[i+1][1] == '!' and toks[i+2][1] in ('(', '['):
            close = match_close(toks, i + 2)
            inner = toks[i+3:close]
            name = t
            # also handle path prefix anyhow::anyhow! / log::trace!
            # drop the prefix tokens already emitted
            def drop_prefix():
                while len(out) >= 2 and out[-1][1] == '::' and out[-2][0] == 'id':
                    out.pop(); out.pop()
            if name == 'ensure':
                parts = split_top_commas(inner)
                cond = text(parts[0]).strip()
                log.append(('R2', 'ensure', text(inner)))
                out.append(('x', f'if !({cond}) {{ return Err(verr()); }}'))
                # swallow following ';'
                j = close + 1
                while toks[j][0] == 'ws': j += 1
                if toks[j][1] == ';': close = j
                i = close + 1; continue
            if name == 'bail':
                log.append(('R2', 'bail', text(inner)))
                out.append(('x', 'return Err(verr())'))
                i = close + 1; continue
            if name == 'anyhow':
                drop_prefix(); log.append(('R2', 'anyhow', text(inner)))
                out.append(('x', 'verr()')); i = close + 1; continue
            if name == 'panic':
                log.append(('R3', 'panic', text(inner)))
                out.append(('x', 'vpanic()')); i = close + 1; continue
            if name == 'assert':
                parts = split_top_commas(inner)
                log.append(('R3', 'assert', text(inner)))
                out.append(('x', f'vassert({text(parts[0]).strip()})')); i = close + 1; continue
            if name == 'assert_eq':
                parts = split_top_commas(inner)
                log.append(('R3', 'assert_eq', text(inner)))
                out.append(('x', f'vassert(({text(parts[0]).strip()}) == ({text(parts[1]).strip()}))')); i = close + 1; continue
            if name in ('trace', 'debug', 'info', 'warn'):
                drop_prefix(); log.append(('R4', name, text(inner)))
                j = close + 1
                while toks[j][0] == 'ws': j += 1
                if toks[j][1] == ';': close = j
                i = close + 1; continue
        out.append((k, t)); i += 1
    return out

def rewrite_result(toks):
    """R2: `Result<T>` (one type arg) -> `Result<T, VErr>`"""
    out = []; i = 0
    while i < len(toks):
        k, t = toks[i]
        if k == 'id' and t == 'Result' and i + 1 < len(toks) and toks[i+1][1] == '<':
            # find matching '>' with angle depth
            d = 0; j = i + 1; commas = 0
            while True:
                tt = toks[j][1]
                if tt == '<': d += 1
                elif tt == '>': d -= 1
                elif tt == '>>': d -= 2
                elif tt == ',' and d == 1: commas += 1
                if d <= 0: break
                j += 1
            if commas == 0:
                out.extend(toks[i:j]); out.append(('x', ', VErr')); out.append(toks[j]); i = j + 1; continue
        out.append((k, t)); i += 1
    return out

if __name__ == '__main__':
    src = open(sys.argv[1]).read()
    toks = lex(src)
    for hdr, a, b in find_impls(toks): print(hdr)
