#![allow(dead_code)]
use std::{fmt::Debug, hash::Hash, mem::size_of, ops::Div};
pub struct VErr;
type Result<T> = std::result::Result<T, VErr>;

// ---- stand-in for std::collections::HashMap (assumed contract: finite map), array backed, capacity CAP
pub const CAP: usize = 4;
pub struct HashMap<K, V> { slots: [Option<(K, V)>; CAP] }
pub struct Entry<'a, K, V> { map: &'a mut HashMap<K, V>, key: K }
impl<K: Eq + Clone, V> HashMap<K, V> {
    pub fn new() -> Self { Self { slots: [const { None }; CAP] } }
    pub fn len(&self) -> usize { let mut n = 0; for s in self.slots.iter() { if s.is_some() { n += 1; } } n }
    fn find(&self, key: &K) -> Option<usize> { let mut i = 0; while i < CAP { if let Some((k, _)) = &self.slots[i] { if k == key { return Some(i); } } i += 1; } None }
    pub fn get(&self, key: &K) -> Option<&V> { match self.find(key) { Some(i) => self.slots[i].as_ref().map(|e| &e.1), None => None } }
    pub fn get_mut(&mut self, key: &K) -> Option<&mut V> { match self.find(key) { Some(i) => self.slots[i].as_mut().map(|e| &mut e.1), None => None } }
    pub fn values(&self) -> impl Iterator<Item = &V> { self.slots.iter().filter_map(|s| s.as_ref().map(|e| &e.1)) }
    pub fn retain<F: FnMut(&K, &mut V) -> bool>(&mut self, mut f: F) { for s in self.slots.iter_mut() { let keep = match s { Some((k, v)) => f(k, v), None => true }; if !keep { *s = None; } } }
    pub fn entry(&mut self, key: K) -> Entry<'_, K, V> { Entry { map: self, key } }
    pub fn contains_key(&self, key: &K) -> bool { self.find(key).is_some() }
}
impl<'a, K: Eq + Clone, V> Entry<'a, K, V> {
    pub fn or_insert(self, default: V) -> &'a mut V {
        let idx = match self.map.find(&self.key) { Some(i) => i, None => {
            let mut free = CAP; let mut i = 0; while i < CAP { if self.map.slots[i].is_none() { free = i; break; } i += 1; }
            assert!(free < CAP, "stand-in map capacity exceeded");
            self.map.slots[free] = Some((self.key, default)); free } };
        &mut self.map.slots[idx].as_mut().unwrap().1
    }
}

// ---- verbatim from limited_cache.rs (error macro rewrites only)
pub struct LimitedCache<K, V> {
	/// Internal map storing (value, "last access index") pairs.
	cache: HashMap<K, (V, u64)>,
	/// Derived maximum number of elements the cache can hold.
	max_length: usize,
	/// A monotonically increasing index to track access recency.
	last_index: u64,
}

impl<K, V> LimitedCache<K, V>
where
	K: Clone + Eq + Hash + PartialEq,
	V: Clone,
{
	pub fn get(&mut self, key: &K) -> Option<V> {
		if let Some((value, old_index)) = self.cache.get_mut(key) {
			self.last_index += 1;
			*old_index = self.last_index;
			Some(value.clone())
		} else {
			None
		}
	}
	pub fn add(&mut self, key: K, value: V) -> V {
		if self.cache.len() >= self.max_length {
			self.cleanup();
		}

		self.last_index += 1;
		// Insert or replace. The 0.0 clone is just to ensure a consistent return type
		self.cache.entry(key).or_insert((value, self.last_index)).0.clone()
	}
	fn cleanup(&mut self) {
		let mut indices: Vec<u64> = self.cache.values().map(|(_, i)| *i).collect();
		indices.sort_unstable();
		let median_index = indices[indices.len().div(2)];

		// Retain only those whose access index is greater than the median
		self.cache.retain(|_, (_, idx)| {
			if *idx <= median_index {
				false
			} else {
				*idx = 0; // Not strictly necessary, but can reset for clarity
				true
			}
		});
	}
}

#[cfg(kani)]
mod proofs {
    use super::*;
    fn any_cache() -> LimitedCache<u8, u8> {
        let mut c = LimitedCache { cache: HashMap::new(), max_length: kani::any(), last_index: kani::any() };
        kani::assume(c.max_length >= 1 && c.max_length <= CAP);
        kani::assume(c.last_index < u64::MAX - 4);
        let mut i = 0;
        while i < CAP {
            if kani::any() { let k: u8 = kani::any(); let v: u8 = kani::any(); let s: u64 = kani::any();
                kani::assume(s <= c.last_index);
                kani::assume(!c.cache.contains_key(&k));
                c.cache.slots[i] = Some((k, (v, s))); }
            i += 1;
        }
        kani::assume(c.cache.len() <= c.max_length);
        c
    }
    fn sort_stub<T: Ord>(s: &mut [T]) { let n = s.len(); let mut i = 1; while i < n { let mut j = i; while j > 0 && s[j] < s[j-1] { s.swap(j, j-1); j -= 1; } i += 1; } }
    #[kani::proof]
    #[kani::unwind(6)]
    #[kani::stub(<[u64]>::sort_unstable, sort_stub)]
    fn add_preserves_capacity_and_transparency() {
        let mut c = any_cache();
        let probe: u8 = kani::any();
        let before = c.cache.get(&probe).map(|e| e.0);
        let k: u8 = kani::any(); let v: u8 = kani::any();
        let r = c.add(k, v);
        assert!(c.cache.len() <= c.max_length);
        // transparency: whatever is stored under probe afterwards was stored before, or is the new pair
        if let Some(e) = c.cache.get(&probe) { assert!(Some(e.0) == before || (probe == k && e.0 == v)); }
        assert!(c.cache.get(&k).map(|e| e.0) == Some(r));
    }

    #[kani::proof]
    #[kani::unwind(6)]
    #[kani::stub(<[u64]>::sort_unstable, sort_stub)]
    fn mru_survives_next_eviction() {
        let mut c = any_cache();
        kani::assume(c.max_length >= 2);
        let k: u8 = kani::any();
        kani::assume(c.get(&k).is_some()); // k was just used
        let k2: u8 = kani::any(); kani::assume(k2 != k);
        c.add(k2, kani::any());
        assert!(c.cache.contains_key(&k));
    }
}
