#[derive(Debug, Clone, Copy, PartialEq, Eq)]
#[cfg_attr(kani, derive(kani::Arbitrary))]
pub struct VErr;
#[derive(Clone, PartialEq, Eq, Debug)]
#[cfg_attr(kani, derive(kani::Arbitrary))]
pub struct TileBBox { pub level: u8, pub x_min: u32, pub y_min: u32, pub x_max: u32, pub y_max: u32, pub max: u32 }

pub fn contains(b: &TileBBox, x: u32, y: u32) -> bool { x >= b.x_min && x <= b.x_max && y >= b.y_min && y <= b.y_max }

impl TileBBox {
	pub fn is_empty(&self) -> bool {
		(self.x_max < self.x_min) || (self.y_max < self.y_min)
	}
	pub fn set_empty(&mut self) {
		self.x_min = 1;
		self.y_min = 1;
		self.x_max = 0;
		self.y_max = 0;
	}
	pub fn intersect_bbox(&mut self, bbox: &TileBBox) -> Result<(), VErr> {
		if self.level != bbox.level {
			return Err(VErr);
		}

		if !self.is_empty() && !bbox.is_empty() {
			self.x_min = self.x_min.max(bbox.x_min);
			self.y_min = self.y_min.max(bbox.y_min);
			self.x_max = self.x_max.min(bbox.x_max);
			self.y_max = self.y_max.min(bbox.y_max);
		} else {
			// If either bounding box is empty, the intersection is empty
			self.set_empty();
		}

		Ok(())
	}
}
pub struct Pyr { pub level_bbox: [TileBBox; 32] }
impl Pyr {
	pub fn intersect(&mut self, other: &Pyr) {
		for (level, bbox) in self.level_bbox.iter_mut().enumerate() {
			let other_bbox = &other.level_bbox[level];
			bbox.intersect_bbox(other_bbox).unwrap();
		}
	}
}
#[cfg(kani)]
mod proofs {
    use super::*;
    #[kani::proof]
    #[kani::unwind(34)]
    fn pyr_intersect_direct() {
        let mut a = Pyr { level_bbox: kani::any() }; let b = Pyr { level_bbox: kani::any() };
        for i in 0..32 { kani::assume(a.level_bbox[i].level == i as u8 && b.level_bbox[i].level == i as u8); }
        let old = a.level_bbox.clone();
        a.intersect(&b);
        let l: usize = kani::any(); kani::assume(l < 32);
        let (x,y): (u32,u32) = kani::any();
        assert!(contains(&a.level_bbox[l], x, y) == (contains(&old[l], x, y) && contains(&b.level_bbox[l], x, y)));
    }
}
