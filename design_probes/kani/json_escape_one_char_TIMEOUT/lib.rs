pub fn escape_json_string(input: &str) -> String {
	input
		.chars()
		.map(|c| match c {
			'"' => "\\\"".to_string(),
			'\\' => "\\\\".to_string(),
			'\n' => "\\n".to_string(),
			'\r' => "\\r".to_string(),
			'\t' => "\\t".to_string(),
			'\u{08}' => "\\b".to_string(),
			'\u{0c}' => "\\f".to_string(),
			c if c.is_control() => format!("\\u{:04x}", c as u32),
			c => c.to_string(),
		})
		.collect()
}
#[cfg(kani)]
mod proofs {
    use super::*;
    #[kani::proof]
    #[kani::unwind(12)]
    fn escape_one_char_no_raw_quote() {
        let c: char = kani::any();
        let mut buf = [0u8; 4];
        let s: &str = c.encode_utf8(&mut buf);
        let e = escape_json_string(s);
        let b = e.as_bytes();
        // no unescaped quote or raw control byte in output
        assert!(b.len() >= 1 && b.len() <= 6);
        if b.len() == 1 { assert!(b[0] != b'"' && b[0] != b'\\' && b[0] >= 0x20); }
    }
}
