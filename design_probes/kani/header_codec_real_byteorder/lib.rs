use byteorder::{BigEndian, ReadBytesExt, WriteBytesExt};
use std::io::{Cursor, Read, Write};
#[derive(Debug)]
pub struct VErr;
impl From<std::io::Error> for VErr { fn from(_: std::io::Error) -> Self { VErr } }
impl From<std::string::FromUtf8Error> for VErr { fn from(_: std::string::FromUtf8Error) -> Self { VErr } }
type Result<T> = std::result::Result<T, VErr>;
#[derive(Debug, PartialEq, Clone, Copy)]
pub struct ByteRange { pub offset: u64, pub length: u64 }
#[derive(Debug, PartialEq)]
pub struct FileHeader { pub zoom_range: [u8; 2], pub bbox: [i32; 4], pub tile_format: u8, pub compression: u8, pub meta_range: ByteRange, pub blocks_range: ByteRange }
impl FileHeader {
	pub fn to_blob(&self) -> Result<Vec<u8>> {
		let mut writer = Cursor::new(Vec::new());
		writer.write_all(b"versatiles_v02")?;
		writer.write_u8(self.tile_format)?;
		writer.write_u8(self.compression)?;
		writer.write_u8(self.zoom_range[0])?;
		writer.write_u8(self.zoom_range[1])?;
		writer.write_i32::<BigEndian>(self.bbox[0])?;
		writer.write_i32::<BigEndian>(self.bbox[1])?;
		writer.write_i32::<BigEndian>(self.bbox[2])?;
		writer.write_i32::<BigEndian>(self.bbox[3])?;
		writer.write_u64::<BigEndian>(self.meta_range.offset)?;
		writer.write_u64::<BigEndian>(self.meta_range.length)?;
		writer.write_u64::<BigEndian>(self.blocks_range.offset)?;
		writer.write_u64::<BigEndian>(self.blocks_range.length)?;
		if writer.position() != 66 { return Err(VErr); }
		Ok(writer.into_inner())
	}
	pub fn from_blob(blob: &[u8]) -> Result<FileHeader> {
		if blob.len() != 66 { return Err(VErr); }
		let mut reader = Cursor::new(blob);
		let mut vec = vec![0u8; 14];
		reader.read_exact(&mut vec)?;
		let magic_word = String::from_utf8(vec)?;
		if &magic_word != "versatiles_v02" { return Err(VErr); }
		let tile_format = reader.read_u8()?;
		let compression = match reader.read_u8()? { 0 => 0, 1 => 1, 2 => 2, _ => return Err(VErr) };
		let zoom_range = [reader.read_u8()?, reader.read_u8()?];
		let bbox = [reader.read_i32::<BigEndian>()?, reader.read_i32::<BigEndian>()?, reader.read_i32::<BigEndian>()?, reader.read_i32::<BigEndian>()?];
		let meta_range = ByteRange { offset: reader.read_u64::<BigEndian>()?, length: reader.read_u64::<BigEndian>()? };
		let blocks_range = ByteRange { offset: reader.read_u64::<BigEndian>()?, length: reader.read_u64::<BigEndian>()? };
		Ok(FileHeader { zoom_range, bbox, tile_format, compression, meta_range, blocks_range })
	}
}
#[cfg(kani)]
mod proofs {
    use super::*;
    #[kani::proof]
    #[kani::unwind(70)]
    fn header_roundtrip() {
        let h = FileHeader { zoom_range: kani::any(), bbox: kani::any(), tile_format: kani::any(), compression: kani::any(),
            meta_range: ByteRange{offset: kani::any(), length: kani::any()}, blocks_range: ByteRange{offset: kani::any(), length: kani::any()} };
        kani::assume(h.compression <= 2);
        let b = h.to_blob();
        match b { Ok(b) => { assert!(b.len() == 66); assert!(b[14] == h.tile_format); assert!(b[18..22] == h.bbox[0].to_be_bytes());
             match FileHeader::from_blob(&b) { Ok(h2) => assert!(h2 == h), Err(_) => assert!(false) } }, Err(_) => assert!(false) }
    }
    #[kani::proof]
    #[kani::unwind(70)]
    fn header_decode_total() {
        let bytes: [u8; 66] = kani::any();
        let _ = FileHeader::from_blob(&bytes); // must not panic
    }
}
