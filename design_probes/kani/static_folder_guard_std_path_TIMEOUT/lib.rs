use std::path::{Path, PathBuf, Component};
pub struct Url { pub str: String }
impl Url {
	pub fn as_path(&self, base: &Path) -> PathBuf {
		base.join(&self.str[1..])
	}
}
/// body of Folder::get_data up to the File::open calls; returns the path that would be opened
pub fn get_data_path(folder: &Path, url: &Url) -> Option<PathBuf> {
		let mut local_path = url.as_path(folder);

		// If the local path is not a subpath of the folder, return not found
		if !local_path.starts_with(folder) {
			return None;
		}
		Some(local_path)
}
/// oracle: lexical resolution depth relative to root never goes negative
pub fn escapes(root: &Path, p: &Path) -> bool {
    let rel = match p.strip_prefix(root) { Ok(r) => r, Err(_) => return true };
    let mut depth: i32 = 0;
    for c in rel.components() {
        match c { Component::ParentDir => { depth -= 1; if depth < 0 { return true; } }, Component::Normal(_) => depth += 1, Component::CurDir => {}, _ => return true }
    }
    false
}
#[cfg(kani)]
mod proofs {
    use super::*;
    #[kani::proof]
    #[kani::unwind(12)]
    fn no_escape_len5() {
        let bytes: [u8; 5] = kani::any();
        kani::assume(bytes[0] == b'/');
        let mut i = 0; while i < 5 { kani::assume(bytes[i] == b'/' || bytes[i] == b'.' || bytes[i] == b'a'); i += 1; }
        let s = String::from_utf8(bytes.to_vec()).unwrap();
        let root = Path::new("/r");
        if let Some(p) = get_data_path(root, &Url { str: s }) {
            assert!(!escapes(root, &p));
        }
    }
}
