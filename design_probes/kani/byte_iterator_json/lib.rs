#![allow(unused)]
#[derive(Debug)]
pub struct VErr;
pub type Error = VErr;
pub fn verr() -> VErr { VErr }
impl From<std::string::FromUtf8Error> for VErr { fn from(_: std::string::FromUtf8Error) -> Self { VErr } }

use std::io::Read;

const DEBUG_RING_BUFFER_SIZE: usize = 16;
const BUFFER_SIZE: usize = 4096;

pub struct ByteIterator<'a> {
	buffer: [u8; BUFFER_SIZE],
	buffer_len: usize,
	buffer_pos: usize,
	source: Box<dyn Read + 'a>,
	peeked_byte: Option<u8>,
	position: usize,
	is_debug_enabled: bool,
	debug_buffer: [u8; DEBUG_RING_BUFFER_SIZE],
}

impl<'a> ByteIterator<'a> {
	pub fn from_reader(reader: impl Read + 'a, debug: bool) -> Self {
		let mut instance = ByteIterator {
			buffer: [0; BUFFER_SIZE],
			buffer_len: 0,
			buffer_pos: 0,
			source: Box::new(reader),
			peeked_byte: None,
			position: 0,
			is_debug_enabled: debug,
			debug_buffer: [0; DEBUG_RING_BUFFER_SIZE],
		};
		instance.fill_buffer();
		instance.advance();
		instance
	}

	#[inline]
	fn fill_buffer(&mut self) {
		self.buffer_len = self.source.read(&mut self.buffer).unwrap_or(0);
		self.buffer_pos = 0;
	}

	#[inline]
	fn next_byte(&mut self) -> Option<u8> {
		if self.buffer_pos >= self.buffer_len {
			self.fill_buffer();
			if self.buffer_len == 0 {
				return None;
			}
		}
		let byte = self.buffer[self.buffer_pos];
		self.buffer_pos += 1;
		Some(byte)
	}

	pub fn format_error(&self, msg: &str) -> Error {
		if self.is_debug_enabled {
			let (start_index, length) = if self.position < DEBUG_RING_BUFFER_SIZE {
				(0, self.position - 1)
			} else {
				(self.position % DEBUG_RING_BUFFER_SIZE, DEBUG_RING_BUFFER_SIZE - 1)
			};

			let debug_snapshot: Vec<u8> = self
				.debug_buffer
				.iter()
				.cycle()
				.skip(start_index)
				.take(length)
				.copied()
				.collect();

			let mut debug_output = String::from_utf8(debug_snapshot).unwrap();
			if self.peeked_byte.is_none() {
				debug_output.push_str("<EOF>");
			}
			{ let _ = (self.position - 1, debug_output); verr() }
		} else {
			{ let _ = self.position - 1; verr() }
		}
	}

	#[inline]
	pub fn position(&self) -> usize {
		self.position
	}

	#[inline]
	pub fn peek(&self) -> Option<u8> {
		self.peeked_byte
	}

	#[inline]
	pub fn advance(&mut self) {
		self.peeked_byte = self.next_byte();
		if self.is_debug_enabled {
			if let Some(byte) = self.peeked_byte {
				let index = self.position % DEBUG_RING_BUFFER_SIZE;
				self.debug_buffer[index] = byte;
			}
		}
		self.position += 1;
	}

	#[inline]
	pub fn consume(&mut self) -> Option<u8> {
		let current_byte = self.peeked_byte;
		self.advance();
		current_byte
	}

	#[inline]
	pub fn expect_next_byte(&mut self) -> Result<u8, VErr> {
		if let Some(current_byte) = self.peeked_byte {
			self.advance();
			Ok(current_byte)
		} else {
			Err(self.format_error("unexpected end"))
		}
	}

	#[inline]
	pub fn expect_peeked_byte(&self) -> Result<u8, VErr> {
		self.peeked_byte.ok_or_else(|| self.format_error("unexpected end"))
	}

	#[inline]
	pub fn skip_whitespace(&mut self) {
		while let Some(byte) = self.peek() {
			if !byte.is_ascii_whitespace() {
				break;
			}
			self.advance();
		}
	}

	pub fn into_string(mut self) -> Result<String, VErr> {
		let mut result = Vec::new();
		while let Some(byte) = self.consume() {
			result.push(byte);
		}
		String::from_utf8(result).map_err(Error::from)
	}
}



use std::str::FromStr;

pub fn parse_tag(iter: &mut ByteIterator, tag: &str) -> Result<(), VErr> {
	for c in tag.bytes() {
		match iter.expect_next_byte()? {
			b if b == c => continue,
			_ => return Err(iter.format_error(&format!("unexpected character while parsing tag '{tag}'"))),
		}
	}
	Ok(())
}

pub fn parse_quoted_json_string(iter: &mut ByteIterator) -> Result<String, VErr> {
	iter.skip_whitespace();
	if iter.expect_next_byte()? != b'"' {
		return Err({ let e = iter.format_error("expected '\"' while parsing a string"); e });
	}

	let mut bytes = Vec::with_capacity(32); 
	let mut hex = [0u8; 4];

	loop {
		match iter.expect_next_byte()? {
			b'"' => break,
			b'\\' => match iter.expect_next_byte()? {
				b'"' => bytes.push(b'"'),
				b'\\' => bytes.push(b'\\'),
				b'/' => bytes.push(b'/'),
				b'b' => bytes.push(b'\x08'),
				b'f' => bytes.push(b'\x0C'),
				b'n' => bytes.push(b'\n'),
				b'r' => bytes.push(b'\r'),
				b't' => bytes.push(b'\t'),
				b'u' => {
					for i in &mut hex {
						*i = iter.expect_next_byte()?;
					}
					let code_point = u16::from_str_radix(std::str::from_utf8(&hex).unwrap(), 16)
						.map_err(|_| iter.format_error("invalid unicode code point"))?;
					bytes.extend_from_slice(
						&String::from_utf16(&[code_point])
							.map_err(|_| iter.format_error("invalid unicode code point"))?
							.into_bytes(),
					);
				}
				c => bytes.push(c),
			},
			c => bytes.push(c),
		}
	}
	String::from_utf8(bytes).map_err(Error::from)
}

pub fn parse_number_as_string(iter: &mut ByteIterator) -> Result<String, VErr> {
	let mut number = Vec::with_capacity(16);

	
	if let Some(b'+' | b'-') = iter.peek() {
		number.push(iter.expect_next_byte()?);
	}

	
	let mut has_digits = false;
	while let Some(b'0'..=b'9') = iter.peek() {
		has_digits = true;
		number.push(iter.expect_next_byte()?);
	}
	if !has_digits {
		return Err(iter.format_error("expected digits in number"));
	}

	
	if let Some(b'.') = iter.peek() {
		number.push(iter.expect_next_byte()?);
		let mut fractional_digits = false;
		while let Some(b'0'..=b'9') = iter.peek() {
			fractional_digits = true;
			number.push(iter.expect_next_byte()?);
		}
		if !fractional_digits {
			return Err(iter.format_error("expected digits after decimal point"));
		}
	}

	
	if let Some(b'e' | b'E') = iter.peek() {
		number.push(iter.expect_next_byte()?);
		if let Some(b'+' | b'-') = iter.peek() {
			number.push(iter.expect_next_byte()?);
		}
		let mut exponent_digits = false;
		while let Some(b'0'..=b'9') = iter.peek() {
			exponent_digits = true;
			number.push(iter.expect_next_byte()?);
		}
		if !exponent_digits {
			return Err(iter.format_error("expected digits after exponent"));
		}
	}

	String::from_utf8(number).map_err(Error::from)
}

pub fn parse_number_as<R: FromStr>(iter: &mut ByteIterator) -> Result<R, VErr> {
	parse_number_as_string(iter)?
		.parse::<R>()
		.map_err(|_| iter.format_error("invalid number"))
}

pub fn parse_object_entries<R>(
	iter: &mut ByteIterator,
	mut parse_value: impl FnMut(String, &mut ByteIterator) -> Result<R, VErr>,
) -> Result<(), VErr> {
	iter.skip_whitespace();
	if iter.expect_next_byte()? != b'{' {
		return Err({ let e = iter.format_error("expected '{' while parsing an object"); e });
	}

	loop {
		iter.skip_whitespace();
		match iter.expect_peeked_byte()? {
			b'}' => {
				iter.advance();
				break;
			}
			b'"' => {
				let key = parse_quoted_json_string(iter)?;

				iter.skip_whitespace();
				if iter.expect_next_byte()? != b':' {
					return Err(iter.format_error("expected ':'"));
				}

				iter.skip_whitespace();
				parse_value(key, iter)?;

				iter.skip_whitespace();
				match iter.expect_next_byte()? {
					b',' => continue,
					b'}' => break,
					_ => return Err(iter.format_error("expected ',' or '}'")),
				}
			}
			_ => return Err(iter.format_error("parsing object, expected '\"' or '}'")),
		}
	}
	Ok(())
}

pub fn parse_array_entries<R>(
	iter: &mut ByteIterator,
	mut parse_value: impl FnMut(&mut ByteIterator) -> Result<R, VErr>,
) -> Result<Vec<R>, VErr> {
	iter.skip_whitespace();
	if iter.expect_next_byte()? != b'[' {
		return Err({ let e = iter.format_error("expected '[' while parsing an array"); e });
	}

	let mut result = Vec::new();

	
	iter.skip_whitespace();
	if let Some(b']') = iter.peek() {
		iter.advance(); 
		return Ok(result); 
	}

	
	result.push(parse_value(iter)?);

	
	loop {
		iter.skip_whitespace();
		match iter.expect_next_byte()? {
			b']' => break,
			b',' => {
				iter.skip_whitespace();
				result.push(parse_value(iter)?);
			}
			_ => return Err(iter.format_error("parsing array, expected ',' or ']'")),
		}
	}

	Ok(result)
}



#[cfg(kani)]
mod proofs {
    use super::*;
    use std::io::Cursor;
    #[kani::proof]
    #[kani::unwind(18)]
    fn format_error_total_from_state() {
        let position: usize = kani::any();
        kani::assume(position >= 1 && position <= 40);
        let it = ByteIterator {
            buffer: [0; BUFFER_SIZE], buffer_len: 0, buffer_pos: 0,
            source: Box::new(Cursor::new(Vec::<u8>::new())),
            peeked_byte: kani::any(), position, is_debug_enabled: true,
            debug_buffer: kani::any(),
        };
        let _ = it.format_error("x");
    }
}
