use std::ops::{Add, Sub};
use std::f64::consts::PI as PI32;
pub struct VErr;
#[derive(Debug, PartialEq)]
pub struct TileCoord2 { pub x: u32, pub y: u32 }
	pub fn from_geo(x: f64, y: f64, z: u8, round_up: bool) -> Result<TileCoord2, VErr> {
		if !(z <= 31) { return Err(VErr); }
		if !(x >= -180.) { return Err(VErr); }
		if !(x <= 180.) { return Err(VErr); }
		if !(y >= -90.) { return Err(VErr); }
		if !(y <= 90.) { return Err(VErr); }

		let zoom: f64 = 2.0f64.powi(z as i32);
		let mut x = zoom * (x / 360.0 + 0.5);
		let mut y = zoom * (0.5 - 0.5 * (y * PI32 / 360.0 + PI32 / 4.0).tan().ln() / PI32);

		// add/subtract a little offset to compensate for floating point rounding issues
		if round_up {
			x = x.sub(1e-6).floor();
			y = y.sub(1e-6).floor();
		} else {
			x = x.add(1e-6).floor();
			y = y.add(1e-6).floor();
		}

		Ok(TileCoord2 {
			x: x.min(zoom - 1.0).max(0.0) as u32,
			y: y.min(zoom - 1.0).max(0.0) as u32,
		})
	}
#[cfg(kani)]
mod proofs {
    use super::*;
    fn tan_stub(_x: f64) -> f64 { kani::any() }
    fn ln_stub(_x: f64) -> f64 { kani::any() }
    #[kani::proof]
    #[kani::stub(f64::tan, tan_stub)]
    #[kani::stub(f64::ln, ln_stub)]
    fn from_geo_x_nonempty() {
        let w: f64 = kani::any(); let e: f64 = kani::any();
        let z: u8 = kani::any();
        kani::assume(z <= 31);
        kani::assume(w >= -180.0 && e <= 180.0 && w <= e);
        let a = from_geo(w, 0.0, z, false);
        let b = from_geo(e, 0.0, z, true);
        if let (Ok(a), Ok(b)) = (a, b) {
            assert!(a.x <= b.x);
        }
    }
}
#[cfg(kani)]
mod proofs2 {
    use super::*;
    fn tan_stub(_x: f64) -> f64 { kani::any() }
    fn ln_stub(_x: f64) -> f64 { kani::any() }
    #[kani::proof]
    #[kani::stub(f64::tan, tan_stub)]
    #[kani::stub(f64::ln, ln_stub)]
    fn concrete_case() {
        let w = f64::from_le_bytes([2, 0, 0, 0, 0, 224, 160, 189]);
        let e = f64::from_le_bytes([32, 0, 0, 0, 0, 4, 78, 64]);
        let a = from_geo(w, 0.0, 13, false);
        let b = from_geo(e, 0.0, 13, true);
        if let (Ok(a), Ok(b)) = (a, b) {
            assert!(a.x == 4096);
            assert!(b.x == 5462);
        }
    }
    #[kani::proof]
    fn powi_exact() {
        let z: u8 = kani::any(); kani::assume(z <= 31);
        let zoom = 2.0f64.powi(z as i32);
        assert!(zoom == (1u64 << z) as f64);
    }
}
#[cfg(kani)]
mod proofs3 {
    use super::*;
    fn tan_stub(_x: f64) -> f64 { kani::any() }
    fn ln_stub(_x: f64) -> f64 { kani::any() }
    fn powi_stub(b: f64, e: i32) -> f64 { kani::assume(b == 2.0 && e >= 0 && e <= 31); f64::from_bits(((1023 + e) as u64) << 52) }
    #[kani::proof]
    fn floor_model() {
        let x: f64 = kani::any(); kani::assume(x >= -1.0 && x <= 4294967296.0);
        let f = x.floor();
        assert!(f <= x && x < f + 1.0);
        assert!(f == (f as i64) as f64);
    }
    #[kani::proof]
    #[kani::stub(f64::tan, tan_stub)]
    #[kani::stub(f64::ln, ln_stub)]
    #[kani::stub(f64::powi, powi_stub)]
    fn x_nonempty2() {
        let w: f64 = kani::any(); let e: f64 = kani::any();
        let z: u8 = kani::any();
        kani::assume(z <= 31);
        kani::assume(w >= -180.0 && e <= 180.0 && w <= e);
        let a = from_geo(w, 0.0, z, false);
        let b = from_geo(e, 0.0, z, true);
        if let (Ok(a), Ok(b)) = (a, b) {
            assert!(a.x <= b.x);
        }
    }
}
pub fn as_geo_x(x: u32, z: u8) -> f64 {
	let zoom: f64 = 2.0f64.powi(z as i32);
	((x as f64) / zoom - 0.5) * 360.0
}
#[cfg(kani)]
mod proofs4 {
    use super::*;
    fn tan_stub(_x: f64) -> f64 { kani::any() }
    fn ln_stub(_x: f64) -> f64 { kani::any() }
    fn powi_stub(b: f64, e: i32) -> f64 { kani::assume(b == 2.0 && e >= 0 && e <= 31); f64::from_bits(((1023 + e) as u64) << 52) }
    // bbox [x0..=x1] -> geo (west = as_geo(x0), east = as_geo(x1+1)) -> from_geo gives back x0, x1
    #[kani::proof]
    #[kani::stub(f64::tan, tan_stub)]
    #[kani::stub(f64::ln, ln_stub)]
    #[kani::stub(f64::powi, powi_stub)]
    fn x_roundtrip() {
        let z: u8 = kani::any(); kani::assume(z <= 31);
        let n: u64 = 1u64 << z;
        let x0: u32 = kani::any(); let x1: u32 = kani::any();
        kani::assume(x0 <= x1 && (x1 as u64) < n);
        let west = as_geo_x(x0, z); let east = as_geo_x(x1 + 1, z);
        let a = from_geo(west, 0.0, z, false);
        let b = from_geo(east, 0.0, z, true);
        match (a, b) { (Ok(a), Ok(b)) => { assert!(a.x == x0); assert!(b.x == x1); }, _ => assert!(false) }
    }
}
