pub struct VErr;
#[derive(Debug, PartialEq, Clone, Copy)]
pub struct TileCoord3 { pub x: u32, pub y: u32, pub z: u8 }
impl TileCoord3 { pub fn new(x: u32, y: u32, z: u8) -> Result<TileCoord3, VErr> { if !(z <= 31) { return Err(VErr); } Ok(TileCoord3{x,y,z}) } }

pub fn coord_to_tile_id(x: u32, y: u32, z: u8) -> Result<u64, VErr> {
	if z >= 32 {
		return Err(VErr);
	}

	let n = 1u32 << z;
	if x >= n || y >= n {
		return Err(VErr);
	}

	let mut acc: i64 = 0;
	for t_z in 0..(z as i64) {
		acc += 1i64 << (t_z * 2)
	}

	let mut tx: i64 = x as i64;
	let mut ty: i64 = y as i64;
	let mut d: i64 = 0;
	let mut s: i64 = n as i64 / 2;
	while s > 0 {
		let rx: u8 = if (tx & s) > 0 { 1 } else { 0 };
		let ry: u8 = if (ty & s) > 0 { 1 } else { 0 };
		d += s * s * ((3 * rx) ^ ry) as i64;
		rotate(s, &mut tx, &mut ty, rx, ry);
		s /= 2;
	}

	Ok((acc + d) as u64)
}

fn rotate(s: i64, tx: &mut i64, ty: &mut i64, rx: u8, ry: u8) {
	if ry == 0 {
		if rx == 1 {
			*tx = s - 1 - *tx;
			*ty = s - 1 - *ty;
		}
		std::mem::swap(tx, ty);
	}
}

pub fn tile_id_to_coord(tileid: u64) -> Result<TileCoord3, VErr> {
	let mut acc = 0;
	for t_z in 0..32 {
		let num_tiles = (1 << t_z) * (1 << t_z);
		if acc + num_tiles > tileid {
			let n = 1 << t_z;
			let mut t = tileid - acc;
			let mut tx: i64 = 0;
			let mut ty: i64 = 0;

			let mut s: i64 = 1;
			while s < n {
				let rx = ((t / 2) & 1) as u8;
				let ry = ((t ^ (rx as u64)) & 1) as u8;
				rotate(s, &mut tx, &mut ty, rx, ry);
				if rx == 1 {
					tx += s;
				}
				if ry == 1 {
					ty += s;
				}
				t /= 4;
				s *= 2;
			}

			return TileCoord3::new(tx as u32, ty as u32, t_z);
		}
		acc += num_tiles;
	}
	Err(VErr)
}
#[cfg(kani)]
mod proofs {
    use super::*;
    #[kani::proof]
    #[kani::unwind(34)]
    fn roundtrip_all() {
        let x: u32 = kani::any(); let y: u32 = kani::any(); let z: u8 = kani::any();
        if let Ok(id) = coord_to_tile_id(x, y, z) {
            match tile_id_to_coord(id) { Ok(c) => assert!(c == TileCoord3{x,y,z}), Err(_) => assert!(false) }
        } else { assert!(z >= 32 || x >= (1u32 << z) || y >= (1u32 << z)); }
    }
    #[kani::proof]
    #[kani::unwind(34)]
    fn roundtrip_z8() {
        let x: u32 = kani::any(); let y: u32 = kani::any(); let z: u8 = 14;
        if let Ok(id) = coord_to_tile_id(x, y, z) {
            match tile_id_to_coord(id) { Ok(c) => assert!(c == TileCoord3{x,y,z}), Err(_) => assert!(false) }
        }
    }
}
