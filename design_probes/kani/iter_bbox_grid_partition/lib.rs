use itertools::Itertools;
#[derive(Debug)]
pub struct VErr;
type Result<T> = std::result::Result<T, VErr>;
#[derive(Debug, Clone, Copy, PartialEq)]
pub struct TileCoord3 { pub x: u32, pub y: u32, pub z: u8 }
impl TileCoord3 { pub fn new(x: u32, y: u32, z: u8) -> Result<TileCoord3> { if !(z <= 31) { return Err(VErr); } Ok(TileCoord3 { x, y, z }) } }
#[derive(Clone, PartialEq, Eq, Debug)]
pub struct TileBBox { pub level: u8, pub x_min: u32, pub y_min: u32, pub x_max: u32, pub y_max: u32, pub max: u32 }
impl TileBBox {
	pub fn new(level: u8, x_min: u32, y_min: u32, x_max: u32, y_max: u32) -> Result<TileBBox> {
		if !(level <= 31) { return Err(VErr); }
		let max = 2u32.pow(level as u32) - 1;
		if !(x_max <= max) { return Err(VErr); }
		if !(y_max <= max) { return Err(VErr); }
		if !(x_min <= x_max) { return Err(VErr); }
		if !(y_min <= y_max) { return Err(VErr); }
		Ok(TileBBox { level, max, x_min, y_min, x_max, y_max })
	}
	pub fn is_empty(&self) -> bool { (self.x_max < self.x_min) || (self.y_max < self.y_min) }
	pub fn set_empty(&mut self) { self.x_min = 1; self.y_min = 1; self.x_max = 0; self.y_max = 0; }
	pub fn contains(&self, x: u32, y: u32) -> bool { x >= self.x_min && x <= self.x_max && y >= self.y_min && y <= self.y_max }
	pub fn intersect_bbox(&mut self, bbox: &TileBBox) -> Result<()> {
		if self.level != bbox.level { return Err(VErr); }
		if !self.is_empty() && !bbox.is_empty() {
			self.x_min = self.x_min.max(bbox.x_min);
			self.y_min = self.y_min.max(bbox.y_min);
			self.x_max = self.x_max.min(bbox.x_max);
			self.y_max = self.y_max.min(bbox.y_max);
		} else {
			self.set_empty();
		}
		Ok(())
	}
	pub fn scale_down(&mut self, scale: u32) {
		if scale == 0 { panic!("scale must be greater than 0"); }
		self.x_min /= scale; self.y_min /= scale; self.x_max /= scale; self.y_max /= scale;
	}
	pub fn iter_coords(&self) -> impl Iterator<Item = TileCoord3> + '_ {
		let y_range = self.y_min..=self.y_max;
		let x_range = self.x_min..=self.x_max;
		y_range
			.cartesian_product(x_range)
			.map(|(y, x)| TileCoord3::new(x, y, self.level).unwrap())
	}
	pub fn iter_bbox_grid(&self, size: u32) -> Box<dyn Iterator<Item = TileBBox> + '_> {
		if size == 0 {
			return Box::new(std::iter::empty());
		}

		let level = self.level;
		let max = 2u32.pow(level as u32) - 1;
		let mut meta_bbox = self.clone();
		meta_bbox.scale_down(size);

		let iter = meta_bbox
			.iter_coords()
			.map(move |coord| {
				let x = coord.x * size;
				let y = coord.y * size;

				let mut bbox = TileBBox::new(level, x, y, (x + size - 1).min(max), (y + size - 1).min(max)).unwrap();
				bbox.intersect_bbox(self).unwrap();
				bbox
			})
			.filter(|bbox| !bbox.is_empty())
			.collect::<Vec<TileBBox>>()
			.into_iter();

		Box::new(iter)
	}
}
#[cfg(kani)]
mod proofs {
    use super::*;
    #[kani::proof]
    #[kani::unwind(6)]
    fn grid_partition_2x2() {
        let level: u8 = kani::any(); kani::assume(level <= 31);
        let b = TileBBox::new(level, kani::any(), kani::any(), kani::any(), kani::any());
        let size: u32 = 256;
        if let Ok(b) = b {
            // bound: at most 2 cells per axis
            kani::assume(b.x_max / size - b.x_min / size <= 1 && b.y_max / size - b.y_min / size <= 1);
            let (px, py): (u32, u32) = kani::any();
            let mut hits = 0u32;
            for cell in b.iter_bbox_grid(size) {
                assert!(!cell.is_empty());
                assert!(cell.x_min / size == cell.x_max / size && cell.y_min / size == cell.y_max / size); // aligned, within one cell
                if cell.contains(px, py) { hits += 1; }
            }
            assert!(hits == if b.contains(px, py) { 1 } else { 0 });
        }
    }
}
