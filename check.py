#!/usr/bin/env python3
"""check.py <property> [--tier quick|thorough] [--replay FILE]

Contract-based deductive verification driver (DESIGN §2.4).
exit 0: every obligation of every unit of the property discharged (bounded harnesses explored without failure)
exit 1: a named obligation failed: prints `VIOLATION property=<id> replay=<path>[ no-failing-input-found]`
exit 2: undecided (anchor lost, unsupported construct, resource limit, vacuity guard) — never an alarm
"""
import argparse
import hashlib
import json
import os
import re
import sys
import time

VERIF = os.path.dirname(os.path.abspath(__file__))
sys.path.insert(0, VERIF)
from vlib.props import PROPS, SKIP_HARNESSES  # noqa: E402
from vlib.verus_runner import run_verus_unit  # noqa: E402
from vlib.kani_runner import build_kani_unit, run_harnesses, confirm_playback  # noqa: E402

KNOWN = os.path.join(VERIF, 'known_findings.txt')


def load_known():
    res = []
    if not os.path.exists(KNOWN):
        return res
    for ln in open(KNOWN):
        ln = ln.strip()
        m = re.match(r'^finding:\s+property=(\S+)\s+obligation=(\S+)\s+(.*)$', ln)
        if m:
            res.append(dict(prop=m.group(1), obligation=m.group(2), text=m.group(3)))
    return res


def known_match(known, prop, obligation):
    base = obligation.split('#')[0]
    for k in known:
        if k['prop'] == prop and (k['obligation'] == base or k['obligation'] == obligation):
            return k
    return None


def write_replay(prop, obligation, payload):
    d = os.path.join(VERIF, 'replays', prop)
    os.makedirs(d, exist_ok=True)
    safe = re.sub(r'[^A-Za-z0-9_.#-]+', '_', obligation)
    path = os.path.join(d, safe + '.json')
    with open(path, 'w') as f:
        json.dump(payload, f, indent=1)
    return path


def find_twins(kani_units, unit, fn):
    res = []
    for ku in kani_units:
        for h in ku.harnesses:
            if h.twin and f'{unit}::{fn}' in h.twin.split(','):
                res.append((ku, h))
    return res


def main():
    ap = argparse.ArgumentParser()
    ap.add_argument('prop')
    ap.add_argument('--tier', default=os.environ.get('VERIF_TIER', 'quick'))
    ap.add_argument('--replay')
    ap.add_argument('--jobs', type=int, default=14)
    args = ap.parse_args()
    prop = args.prop
    tier = args.tier if args.tier in ('quick', 'thorough') else 'quick'
    seed = int(os.environ.get('VERIF_SEED', '0') or 0)
    if prop not in PROPS:
        print(f'unknown or unclaimed property {prop}')
        return 2
    cfg = PROPS[prop]
    replay_target = None
    if args.replay:
        # --replay <file>: re-decide the obligation named in a replay file against /repo's current tree
        try:
            rp = json.load(open(args.replay))
            replay_target = rp.get('obligation')
            print(f"replaying obligation {replay_target} (verifier: {rp.get('verifier')}, unit: {rp.get('unit')})")
            if rp.get('counterexample_playback'):
                print('recorded counterexample (concrete playback test):')
                print(rp['counterexample_playback'])
        except Exception as e:
            print(f'cannot read replay file {args.replay}: {e}')
            return 2
    t0 = time.time()
    known = load_known()
    undecided = []
    violations = []
    known_hits = []
    units_ev = []
    obligations = 0
    discharged = 0
    bounded = []
    samples = []
    trusted = set()
    solver_s = 0.0
    checker_cmds = []
    fn_under_contract = []

    # ---------------- Verus units
    vresults = []
    for unit in cfg.get('verus', []):
        r = run_verus_unit(unit)
        vresults.append(r)
        ev = dict(unit=unit, engine='verus+z3', status=r.status, verified=r.verified, failed=len(r.failures),
                  wall_s=round(r.wall_s, 2), smt_ms=r.smt_ms, reason=r.reason)
        if r.audit:
            ev['rule_applications'] = r.audit.counts()
            ev['dropped_text'] = [f"{x['rule']} {x['what']}: {x['dropped']}" for x in r.audit.rules
                                  if x['rule'] in ('R2', 'R3', 'R4', 'R9') and x['dropped']][:60]
            ev['functions'] = [dict(name=f"{i['scope']}::{i['name']}", file=i['file'], lines=[i['src_start'], i['src_end']],
                                    sha256_16=i['sha']) for i in r.audit.items if i['kind'] == 'fn']
            fn_under_contract += [f"{i['file']}::{i['scope']}::{i['name']}" for i in r.audit.items if i['kind'] == 'fn']
        units_ev.append(ev)
        checker_cmds.append(r.cmd)
        solver_s += r.smt_ms / 1000.0
        for t in r.trusted:
            trusted.add(f'[{unit}] {t}')
        if r.status == 'undecided':
            undecided.append(f'verus unit {unit}: {r.reason}')
            continue
        obligations += r.verified + len({f['function'] for f in r.failures})
        discharged += r.verified
        for f in r.functions[:400]:
            if f['mode'] == 'exec' and len(samples) < 6 and f['success']:
                samples.append(dict(engine='verus', unit=unit, function=f['name'], result='verified', time_us=f['time_us']))

    # ---------------- Kani units
    kunits = []
    selected = []
    skipped_notes = []
    for unit in cfg.get('kani', []):
        ku = build_kani_unit(unit)
        kunits.append(ku)
        if ku.status == 'undecided':
            undecided.append(f'kani unit {unit}: {ku.reason}')
            continue
        sel = [h for h in ku.harnesses if prop in h.props and (tier == 'thorough' or h.tier == 'quick') and h.kind != 'twin'
               and (unit, h.name) not in SKIP_HARNESSES]
        for h in ku.harnesses:
            if prop in h.props and (unit, h.name) in SKIP_HARNESSES:
                skipped_notes.append(f'kani harness {unit}::{h.name} not run: {SKIP_HARNESSES[(unit, h.name)]}')
        selected.append((ku, sel))
    # run all selected harnesses, unit by unit (each unit in parallel inside)
    for ku, sel in selected:
        run_harnesses(ku, sel, jobs=args.jobs)
        if ku.status == 'undecided':
            undecided.append(f'kani unit {ku.unit}: {ku.reason}')
        for t in ku.trusted:
            trusted.add(f'[{ku.unit}] {t}')
        ev = dict(unit=ku.unit, engine='kani+cbmc+cadical', harnesses=[])
        if ku.audit:
            ev['rule_applications'] = ku.audit.counts()
            ev['functions'] = [dict(name=f"{i['scope']}::{i['name']}", file=i['file'], lines=[i['src_start'], i['src_end']],
                                    sha256_16=i['sha']) for i in ku.audit.items if i['kind'] == 'fn']
            fn_under_contract += [f"{i['file']}::{i['scope']}::{i['name']}" for i in ku.audit.items if i['kind'] == 'fn']
        for h in sel:
            checker_cmds.append(getattr(h, '_cmd', ''))
            log = ''
            try:
                log = open(os.path.join(ku.dir, f'{h.name}.log')).read()
            except Exception:
                pass
            m = re.search(r'\*\* (\d+) of (\d+) failed', log)
            nchk = int(m.group(2)) if m else 0
            nfail = int(m.group(1)) if m else 0
            mt = re.search(r'Verification Time: ([\d.]+)s', log)
            if mt:
                solver_s += float(mt.group(1))
            hev = dict(harness=h.name, kind=h.kind, bound=h.bound, why=h.why, contract_on=h.fn, status=h.status,
                       checks=nchk, failed_checks=nfail, time_s=round(h.time_s, 1), detail=h.detail[:300])
            ev['harnesses'].append(hev)
            if h.kind == 'canary':
                if h.status != 'failure':
                    undecided.append(f'kani canary {ku.unit}::{h.name} did not fail as required ({h.status})')
                continue
            if h.status == 'undecided':
                undecided.append(f'kani harness {ku.unit}::{h.name}: {h.detail[:200]}')
                continue
            if h.kind == 'complete':
                obligations += nchk
                discharged += nchk - nfail
            else:
                bounded.append(dict(harness=f'{ku.unit}::{h.name}', bound=h.bound, checks=nchk, failed=nfail, status=h.status))
            if h.status == 'success' and len(samples) < 12:
                samples.append(dict(engine='kani', unit=ku.unit, harness=h.name, kind=h.kind, contract_on=h.fn,
                                    checks=nchk, result='SUCCESSFUL'))
            if h.status == 'failure':
                obl = f'{ku.unit}::{h.name}::harness-assertion'
                k = known_match(known, prop, obl)
                if k:
                    known_hits.append((obl, k))
                    continue
                # obtain a concrete counterexample and replay it natively on the extracted real function text
                pb = confirm_playback(ku, h)
                if pb['confirmed'] is False:
                    undecided.append(f'kani harness {ku.unit}::{h.name}: counterexample not confirmed by native replay (verifier-model imprecision)')
                    continue
                payload = dict(property=prop, unit=ku.unit, obligation=obl, verifier='kani+cbmc',
                               harness=h.name, contract_on=h.fn, failed_checks=h.failed_checks,
                               counterexample_playback=pb['test'],
                               replayed_on='extracted text of the real functions, built natively (cargo kani playback)',
                               replay_confirmed=pb['confirmed'], replay_output=pb['output'][-1500:],
                               verifier_output=getattr(h, 'log_tail', '')[-2500:],
                               rerun=f'./check.py {prop} --tier {tier}')
                path = write_replay(prop, obl, payload)
                violations.append((obl, path, bool(pb['confirmed'])))
        units_ev.append(ev)

    # ---------------- Verus unit undecided (front end / extraction): the Kani twins registered for functions of that unit still run as a
    # counterexample search on the real text; a counterexample confirmed by native playback is a violation with an input, anything
    # else leaves the unit undecided
    for r in vresults:
        if r.status != 'undecided':
            continue
        for ku in kunits:
            for h in ku.harnesses:
                if not (h.kind == 'twin' and h.twin and any(t.split('::')[0] == r.unit for t in h.twin.split(','))):
                    continue
                if h.status is None:
                    run_harnesses(ku, [h], jobs=1)
                if h.status == 'failure':
                    pb = confirm_playback(ku, h)
                    if pb['confirmed']:
                        obl = f'{ku.unit}::{h.name}::harness-assertion'
                        if known_match(known, prop, obl):
                            known_hits.append((obl, known_match(known, prop, obl)))
                            continue
                        payload = dict(property=prop, unit=ku.unit, obligation=obl, verifier='kani+cbmc', harness=h.name, kind='twin',
                                       twin_of=h.twin, note=f'the Verus unit {r.unit} is undecided on this tree ({r.reason[:200]}); its Kani twin found a counterexample',
                                       failed_checks=h.failed_checks, counterexample_playback=pb['test'],
                                       replayed_on='extracted text of the real functions, built natively (cargo kani playback)',
                                       replay_output=pb['output'][-1500:], rerun=f'./check.py {prop} --tier {tier}')
                        path = write_replay(prop, obl, payload)
                        violations.append((obl, path, True))

    # ---------------- Verus failures -> known finding / twin / violation
    for r in vresults:
        if r.status != 'failed':
            continue
        for f in r.failures:
            obl = f['obligation']
            k = known_match(known, prop, obl)
            if k or (f.get('item') and f['item'].get('known') and known_match(known, prop, obl)):
                known_hits.append((obl, k))
                continue
            twins = find_twins(kunits, r.unit, f['function'])
            cex = None
            stale = False
            for ku, h in twins:
                run_harnesses(ku, [h], jobs=1)
                if h.status == 'failure':
                    pb = confirm_playback(ku, h)
                    h.playback = pb['test'] if pb['confirmed'] else None
                    h.replay_output = pb['output'][-1500:]
                    if pb['confirmed']:
                        cex = (ku, h)
                        break
                if h.status == 'success' and h.kind == 'complete':
                    stale = True
            if cex is None and f.get('degraded'):
                undecided.append(f"PROOF-DEGRADED {obl}: a proof-hint anchor was lost ({(f.get('item') or {}).get('degraded')}) and the function no longer verifies; "
                                 f"no Kani twin produced a counterexample, so this is not reported as a violation")
                continue
            if cex is None and stale:
                undecided.append(f'PROOF-STALE {obl}: the complete Kani twin proves the contract, the Verus proof script needs repair')
                continue
            item = f.get('item') or {}
            payload = dict(property=prop, unit=r.unit, obligation=obl, verifier='verus+z3', function=f['function'],
                           kind=f['kind'], failed_clause=f.get('clause', ''), source_file=item.get('file'),
                           source_lines=[item.get('src_start'), item.get('src_end')],
                           verifier_output=f.get('rendered', '')[:4000], rerun=f'./check.py {prop} --tier {tier}')
            if cex:
                ku, h = cex
                payload['counterexample_playback'] = h.playback
                payload['twin_harness'] = f'{ku.unit}::{h.name}'
                payload['twin_failed_checks'] = h.failed_checks
                payload['replayed_on'] = 'extracted text of the real functions, built natively (cargo kani playback)'
                payload['replay_output'] = getattr(h, 'replay_output', '')
            else:
                payload['counterexample'] = None
                payload['note'] = ('Verus gives no counterexample and no Kani twin produced one: '
                                   'the obligation was discharged on the unchanged tree and fails now')
            path = write_replay(prop, obl, payload)
            violations.append((obl, path, cex is not None and cex[1].playback is not None))

    wall = time.time() - t0
    # ---------------- evidence
    level = cfg.get('level', 'proof')
    cov = dict(
        obligations=obligations, discharged=discharged,
        checker_cmd=' ; '.join(c for c in checker_cmds[:3] if c) + (f' ; … ({len(checker_cmds)} commands)' if len(checker_cmds) > 3 else ''),
        trusted_base=sorted(trusted),
        samples=samples,
        units=units_ev,
        functions_under_contract=sorted(set(fn_under_contract)),
        bounded=bounded,
        solver_time_s=round(solver_s, 2),
        not_decided_clauses=cfg.get('not_decided', []) + skipped_notes,
        undecided=undecided,
        known_findings=[o for o, _ in known_hits],
        explanation=('obligations = Verus function queries (exec/proof/spec-termination) + CBMC checks of Kani harnesses that are '
                     'complete (loop-free or closed by a constant of the type); bounded harnesses are listed under "bounded" and '
                     'are not counted'),
    )
    if level != 'proof':
        cov['explanation'] = ('bounded stand-in, not proof: every harness of this property is a Kani harness over a bounded environment stand-in '
                              '(see coverage.bounded for the stated bounds); within the bound the harnesses are exhaustive (symbolic start state = inductive step). '
                              + cov['explanation'])
        cov['evaluations'] = sum(b['checks'] for b in bounded)
        cov['distinct_nontrivial'] = len(bounded)
        cov['rule'] = 'one case = one CBMC check of a bounded Kani harness; distinct_nontrivial counts harnesses (each covers all symbolic states within the bound)'
    ev = dict(property_id=prop, tier=tier, seed=seed, level=level, coverage=cov,
              assumptions=['extraction rules R1-R9 (DESIGN §2.1) preserve the semantics of the extracted functions',
                           'environment contracts of DESIGN §2.3 (see coverage.trusted_base for the per-run scan)',
                           'usize is 64 bit; derives are field-wise'],
              wall_s=round(wall, 2), violations=len(violations))
    # (VERIF_EVIDENCE_DIR: developer runs against a scratch copy of the repository must not overwrite the evidence of /repo)
    evdir = os.environ.get('VERIF_EVIDENCE_DIR') or os.path.join(VERIF, 'evidence')
    os.makedirs(evdir, exist_ok=True)
    with open(os.path.join(evdir, f'{prop}.json'), 'w') as f:
        json.dump(ev, f, indent=1)

    # ---------------- verdict
    for obl, k in known_hits:
        print(f"KNOWN-FINDING: property={prop} {obl} {k['text'] if k else ''}")
    if replay_target is not None:
        hit = [v for v in violations if v[0].split('#')[0] == replay_target.split('#')[0]]
        if hit:
            obl, path, has_input = hit[0]
            print(f'REPRODUCED {obl}')
            print(f'VIOLATION property={prop} replay={path}' + ('' if has_input else ' no-failing-input-found'))
            return 1
        print(f'NOT-REPRODUCED {replay_target}: the obligation is discharged on the current tree')
        return 2 if undecided else 0
    if violations:
        for obl, path, has_input in violations:
            tail = '' if has_input else ' no-failing-input-found'
            print(f'failed obligation: {obl}')
            print(f'VIOLATION property={prop} replay={path}{tail}')
        return 1
    if undecided:
        for u in undecided:
            print(f'UNDECIDED property={prop} {u}')
        return 2
    print(f'OK property={prop} tier={tier} obligations={obligations} discharged={discharged} bounded_harnesses={len(bounded)} wall={wall:.0f}s')
    return 0


if __name__ == '__main__':
    sys.exit(main())
